#!/usr/bin/env python3
"""tools/seeded_table.py — regenerates the seeded-changes table of DESIGN.md §10.6 (between the markers) from seeded/*/meta.json."""
import glob
import json
import os
import re

ROOT = os.path.dirname(os.path.dirname(os.path.abspath(__file__)))
rows, first, later, missed = [], 0, 0, []
for p in sorted(glob.glob(ROOT + "/seeded/*/meta.json")):
    m = json.load(open(p))
    sid = os.path.basename(os.path.dirname(p))
    checks = m.get("confirmed", {}).get("checks", {})
    caught = [c for c, v in checks.items() if v.get("caught")]
    extra = m.get("also_caught_by", [])
    hist = m.get("history")
    if hist:
        later += 1
        col = "strengthened: " + hist[1][:160].replace("|", "/") if len(hist) > 1 else "strengthened"
    else:
        first += 1
        col = "from the first version"
    needs = m.get("needs", "")[:170].replace("|", "/").replace("\n", " ")
    if not (caught or extra):
        missed.append(sid)
    rows.append("| `%s` | %s… | %s | %s |" % (sid, needs, ", ".join(sorted(set(caught + extra))) or "**not caught**", col))
slow = [r for r in rows if "(thorough tier)" in r and not re.search(r"\| (C\d\d(, )?)+ \|", r)]
head = ("%d changes; %d were caught by the first version of the checks, %d only after the checks were strengthened\n(%s; %d of them only by the thorough tier, "
        "because it needs minutes of wall-clock time):\n\n"
        "| seeded change | needs (from its author) | caught by | first version? |\n|---|---|---|---|\n" % (len(rows), first, later, ("none is missed now" if not missed else "NOT caught at present: " + ", ".join("`%s`" % m for m in missed)), len(slow)))
table = "<!-- seeded-table-begin -->\n" + head + "\n".join(rows) + "\n<!-- seeded-table-end -->"
d = open(ROOT + "/DESIGN.md").read()
if "<!-- seeded-table-begin -->" in d:
    d = re.sub(r"<!-- seeded-table-begin -->.*?<!-- seeded-table-end -->", lambda _: table, d, flags=re.S)
    open(ROOT + "/DESIGN.md", "w").write(d)
    print("table regenerated:", len(rows), first, later)
else:
    print(table)
