#!/bin/bash
# tools/sweep.sh <tier> <seed>...   — runs every check of MANIFEST.json with each seed on the unchanged tree and prints one line per run
tier=$1; shift
cd "$(dirname "$0")/.."
(cd lean && lake build RedisGoModel driver > /dev/null 2>&1)
for seed in "$@"; do
  for p in C01 C02 C03 C04 C05 C06 C07 C08 C09 C10 C11 C12 C13 C14 C15 C16 C17 C18 C19 C20; do
    VERIF_SEED=$seed timeout 7200 ./check $p --tier $tier 2>/dev/null | grep -E "^(C[0-9]+ tier|VIOLATION|  )" | cut -c1-400 | sed "s/^/seed=$seed /"
  done
done
echo SWEEP-DONE
