#!/usr/bin/env python3
"""tools/make_seed_tasks.py <prev-round-dir> <new-round-dir> <Cxx>...
Derives the task files of a new seeding round from the previous round's (TASK.md per property): same text, the new paths, and the
previous round's stored changes (seeded/*/meta.json written after <prev-round-dir>/Cxx/TASK.md) appended to the lists of ideas already
taken (own property and related properties).  Creates a scratch worktree of /repo per property."""
import glob
import json
import os
import re
import subprocess
import sys

prev, new, props = sys.argv[1], sys.argv[2], sys.argv[3:]
ROOT = os.path.dirname(os.path.dirname(os.path.abspath(__file__)))
pn, nn = os.path.basename(prev.rstrip("/")), os.path.basename(new.rstrip("/"))
seeds = {}
for p in glob.glob(ROOT + "/seeded/*/meta.json"):
    m = json.load(open(p))
    seeds.setdefault(m.get("property"), []).append((os.path.getmtime(p), os.path.basename(os.path.dirname(p)), m.get("summary", "")))
for c in props:
    src = open(os.path.join(prev, c, "TASK.md")).read()
    t0 = os.path.getmtime(os.path.join(prev, c, "TASK.md"))
    own = [s for (t, i, s) in seeds.get(c, []) if t > t0]
    related = sorted(set(re.findall(r"^\* \[(C\d\d)\]", src, re.M)))
    rel = [(r, s) for r in related for (t, i, s) in seeds.get(r, []) if t > t0]
    out = src.replace(prev, new).replace("(round %s)" % pn[-1], "(round %s)" % nn[-1])
    lines = out.split("\n")
    res = []
    for l in lines:
        res.append(l)
        if l.startswith("Ideas already used in earlier rounds"):
            res += ["* " + s[:330].replace("\n", " ") for s in own]
        if l.startswith("Ideas used for RELATED properties"):
            res += ["* [%s] %s" % (r, s[:230].replace("\n", " ")) for r, s in rel]
    d = os.path.join(new, c)
    os.makedirs(d, exist_ok=True)
    open(os.path.join(d, "TASK.md"), "w").write("\n".join(res))
    wt = os.path.join(d, "repo")
    subprocess.run(["git", "-C", "/repo", "worktree", "remove", "--force", wt], capture_output=True)
    r = subprocess.run(["git", "-C", "/repo", "worktree", "add", "--detach", wt, "HEAD"], capture_output=True, text=True)
    print(c, "own ideas +%d, related +%d" % (len(own), len(rel)), "worktree", "ok" if r.returncode == 0 else r.stderr[-200:])
