#!/usr/bin/env python3
"""tools/make_seed_tasks.py <round-number> <new-round-dir> <Cxx>...
Writes the task file of a seeding round for each property (tools/seed_task_template.md: the property's JSON record from properties.jsonl, the
summaries of every stored change for that property and for related properties - those that share an anchor file - as "ideas already taken")
and creates a scratch worktree of /repo per property under <new-round-dir>/Cxx/repo.  The sub-agent gets ONLY `<new-round-dir>/Cxx/TASK.md`.
Evaluate with tools/eval_mutant.py <new-round-dir>/Cxx/repo <seed-id> <Cxx> [<Cyy>…]; remove the worktrees afterwards
(`git -C /repo worktree remove --force …`)."""
import glob
import json
import os
import subprocess
import sys

rnd, new, props = sys.argv[1], sys.argv[2].rstrip("/"), sys.argv[3:]
ROOT = os.path.dirname(os.path.dirname(os.path.abspath(__file__)))
tmpl = open(os.path.join(ROOT, "tools", "seed_task_template.md")).read()
P = {}
for l in open(os.path.join(ROOT, "properties.jsonl")):
    if l.strip():
        d = json.loads(l)
        P[d["id"]] = d
seeds = {}
for p in glob.glob(ROOT + "/seeded/*/meta.json"):
    m = json.load(open(p))
    seeds.setdefault(m.get("property"), []).append(m.get("summary", ""))
for c in props:
    files = set(P[c]["anchors"]["files"])
    related = [q for q in sorted(P) if q != c and files & set(P[q]["anchors"]["files"])]
    own = "\n".join("* " + s[:330].replace("\n", " ") for s in seeds.get(c, [])) or "* (none yet)"
    rel = "\n".join("* [%s] %s" % (q, s[:230].replace("\n", " ")) for q in related for s in seeds.get(q, [])) or "* (none yet)"
    d = os.path.join(new, c)
    os.makedirs(d, exist_ok=True)
    t = (tmpl.replace("@ROUND@", rnd).replace("@DIR@", d).replace("@ROOT@", new).replace("@PROP_JSON@", json.dumps(P[c], indent=1))
         .replace("@OWN_IDEAS@", own).replace("@RELATED_IDEAS@", rel).replace("@PROP@", c))
    open(os.path.join(d, "TASK.md"), "w").write(t)
    wt = os.path.join(d, "repo")
    subprocess.run(["git", "-C", "/repo", "worktree", "remove", "--force", wt], capture_output=True)
    r = subprocess.run(["git", "-C", "/repo", "worktree", "add", "--detach", wt, "HEAD"], capture_output=True, text=True)
    print(c, "own ideas %d, related (%s) %d" % (len(seeds.get(c, [])), ",".join(related), sum(len(seeds.get(q, [])) for q in related)),
          "worktree", "ok" if r.returncode == 0 else r.stderr[-200:])
