#!/usr/bin/env python3
"""tools/reeval_seeds.py [--dir <verif checkout>] [--jobs-file f] <seed-id>[:Cxx,Cyy] ...
Re-runs the checks against stored seeded changes (seeded/<id>/patch.diff): for each one a scratch worktree of /repo is created under
/tmp/reeval, the patch applied, the named checks (default: those recorded in meta.json `confirmed.checks`) are run from the given
verif checkout (default /verif; pass a separate checkout to run several of these in parallel), and the verdicts are printed as
`<seed> <Cxx> CAUGHT|MISSED <first violation line>`.  With --write the verdicts are stored back into /verif/seeded/<id>/meta.json
(`confirmed.checks`).  The worktree is removed afterwards."""
import json
import os
import shutil
import subprocess
import sys

args = sys.argv[1:]
vdir, write = "/verif", False
if "--dir" in args:
    vdir = args[args.index("--dir") + 1]
    args = [a for a in args if a not in ("--dir", vdir)]
if "--write" in args:
    write = True
    args.remove("--write")
os.makedirs("/tmp/reeval", exist_ok=True)
for spec in args:
    sid, _, props = spec.partition(":")
    sdir = os.path.join("/verif/seeded", sid)
    meta = json.load(open(os.path.join(sdir, "meta.json")))
    plist = props.split(",") if props else sorted(meta.get("confirmed", {}).get("checks", {})) or [meta.get("property")]
    wt = os.path.join("/tmp/reeval", sid)
    subprocess.run(["git", "-C", "/repo", "worktree", "remove", "--force", wt], capture_output=True)
    shutil.rmtree(wt, ignore_errors=True)
    r = subprocess.run(["git", "-C", "/repo", "worktree", "add", "--detach", wt, "HEAD"], capture_output=True, text=True)
    if r.returncode != 0:
        print(sid, "worktree failed", r.stderr[-200:])
        continue
    try:
        r = subprocess.run(["git", "apply", os.path.join(sdir, "patch.diff")], cwd=wt, capture_output=True, text=True)
        if r.returncode != 0:
            print(sid, "PATCH-DOES-NOT-APPLY", r.stderr[-300:].replace("\n", " "))
            continue
        for p in plist:
            env = dict(os.environ, VERIF_REPO=wt)
            r = subprocess.run("./check %s --tier quick 2>&1 | tail -14" % p, shell=True, cwd=vdir, env=env, capture_output=True, text=True, timeout=3600)
            viol = [l for l in r.stdout.split("\n") if l.startswith("VIOLATION")]
            print(sid, p, "CAUGHT" if viol else "MISSED", (viol[0][:160] if viol else r.stdout.strip().split("\n")[-1][:160]), flush=True)
            if write:
                meta.setdefault("confirmed", {}).setdefault("checks", {})[p] = dict(
                    caught=bool(viol), first=(viol[0][:200] if viol else ""), detail=[l[:300] for l in r.stdout.split("\n") if l.startswith("  ")][:2])
        if write:
            json.dump(meta, open(os.path.join(sdir, "meta.json"), "w"), indent=1)
    finally:
        subprocess.run(["git", "-C", "/repo", "worktree", "remove", "--force", wt], capture_output=True)
        shutil.rmtree(wt, ignore_errors=True)
        subprocess.run(["git", "checkout", "harness/go.sum"], cwd=vdir, capture_output=True)
