#!/usr/bin/env python3
"""tools/theorem_table.py — regenerates the table of DESIGN.md §10.3 (between the markers) from lean/registry.json."""
import json
import re

import os
ROOT = os.path.dirname(os.path.dirname(os.path.abspath(__file__)))
r = json.load(open(os.path.join(ROOT, "lean/registry.json")))
rows = []
total = 0
for k in sorted(r):
    v = r[k]
    total += len(v["theorems"])
    part = "; ".join(str(p)[:150].replace("|", "/").replace("\n", " ") for p in v.get("partial", [])) or "—"
    rows.append("| %s | %d | %s |" % (k, len(v["theorems"]), part))
table = ("<!-- theorem-table-begin -->\n%d registered theorem names in all (a theorem shared by several properties is counted once per property).\n\n"
         "| id | theorems | partial / what is not proved |\n|---|---|---|\n" % total + "\n".join(rows) + "\n<!-- theorem-table-end -->")
d = open(os.path.join(ROOT, "DESIGN.md")).read()
if "<!-- theorem-table-begin -->" in d:
    d = re.sub(r"<!-- theorem-table-begin -->.*?<!-- theorem-table-end -->", lambda _: table, d, flags=re.S)
    open(os.path.join(ROOT, "DESIGN.md"), "w").write(d)
    print("theorem table regenerated:", total)
else:
    print(table)
