#!/bin/bash
# tools/run_some.sh <tier> Cxx... — the named checks in turn; one summary line each (see run_all.sh)
cd "$(dirname "$0")/.."
tier=$1; shift
for p in "$@"; do
  out=$(./check $p --tier $tier 2>&1); rc=$?
  echo "$p rc=$rc $(echo "$out" | grep -c '^VIOLATION') violations :: $(echo "$out" | tail -1 | cut -c1-160)"
  echo "$out" | grep '^VIOLATION\|^KNOWN-FINDING' | cut -c1-300 | head -5
done
