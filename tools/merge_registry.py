#!/usr/bin/env python3
"""tools/merge_registry.py — three-way merge of lean/registry.json during a git merge (stages :1: base, :2: ours, :3: theirs):
lists are merged as sets in order (additions of both sides, removals of either side), strings that both sides changed keep ours and
append what theirs added beyond the common prefix with the base."""
import json
import os
import subprocess
import sys

ROOT = os.path.dirname(os.path.dirname(os.path.abspath(__file__)))
PATH = "lean/registry.json"


def stage(n):
    return json.loads(subprocess.run(["git", "show", ":%d:%s" % (n, PATH)], cwd=ROOT, capture_output=True, text=True, check=True).stdout)


def merge(base, ours, theirs):
    if isinstance(ours, dict) and isinstance(theirs, dict):
        base = base if isinstance(base, dict) else {}
        out = {}
        for k in list(ours) + [k for k in theirs if k not in ours]:
            if k in ours and k in theirs:
                out[k] = merge(base.get(k), ours[k], theirs[k])
            elif k in ours:
                if not (k in base and base[k] == ours[k]):      # theirs deleted an unchanged key: drop it; otherwise keep
                    out[k] = ours[k]
            else:
                if not (k in base and base[k] == theirs[k]):
                    out[k] = theirs[k]
        return out
    if isinstance(ours, list) and isinstance(theirs, list):
        base = base if isinstance(base, list) else []
        res = [x for x in ours if not (x in base and x not in theirs)]
        res += [x for x in theirs if x not in ours and x not in base]
        return res
    if ours == theirs or theirs == base:
        return ours
    if ours == base:
        return theirs
    if isinstance(ours, str) and isinstance(theirs, str) and isinstance(base, str):
        n = 0
        while n < min(len(base), len(theirs)) and base[n] == theirs[n]:
            n += 1
        return ours + theirs[n:] if theirs[n:] not in ours else ours
    return ours


if __name__ == "__main__":
    m = merge(stage(1), stage(2), stage(3))
    json.dump(m, open(os.path.join(ROOT, PATH), "w"), indent=1, ensure_ascii=False)
    open(os.path.join(ROOT, PATH), "a").write("\n")
    print("merged registry:", {k: len(v.get("theorems", [])) for k, v in m.items()})
