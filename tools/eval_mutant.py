#!/usr/bin/env python3
"""tools/eval_mutant.py <worktree> <seed-id> <Cxx> [<Cyy>...]
Confirms a seeded change produced in a scratch worktree (change applied, demo in place, out/{patch.diff,meta.json}):
 1. the project builds and the touched packages' existing tests pass WITH the change (demo excluded)
 2. the demonstration FAILS with the change and PASSES without it (git stash of the source change)
 3. runs the given checks against the worktree (VERIF_REPO) and records which ones report a violation
and stores patch, demo and meta.json under /verif/seeded/<seed-id>/."""
import json
import os
import shutil
import subprocess
import sys

wt, sid, props = sys.argv[1], sys.argv[2], sys.argv[3:]
env = dict(os.environ, GOFLAGS="-mod=mod", GOPROXY="off", GOSUMDB="off", GOTOOLCHAIN="local")


def sh(cmd, cwd=wt, timeout=1800, extra=None):
    e = dict(env)
    e.update(extra or {})
    p = subprocess.run(cmd, shell=True, cwd=cwd, env=e, capture_output=True, text=True, timeout=timeout)
    return p.returncode, (p.stdout + p.stderr)


# make sure the worktree holds exactly this seed's change (and its demo)
# files the patch CREATES are still lying in the worktree (untracked): remove them first, or `git apply` refuses the whole patch
subprocess.run("git reset -q", shell=True, cwd=wt)     # an intent-to-add entry (git add -N) would bring the created file back, empty
_patch0 = open(os.path.join(wt, "out", "patch.diff")).read()
_new = [l.split()[-1][2:] for i, l in enumerate(_patch0.split("\n")) if l.startswith("+++ b/") and "--- /dev/null" in _patch0.split("\n")[i - 1]]
for f in _new:
    try:
        os.unlink(os.path.join(wt, f))
    except OSError:
        pass
subprocess.run("git checkout -- . && git apply out/patch.diff", shell=True, cwd=wt)
meta = json.load(open(os.path.join(wt, "out", "meta.json")))
patch = open(os.path.join(wt, "out", "patch.diff")).read()
touched = sorted({l.split()[-1][2:] for l in patch.split("\n") if l.startswith("+++ b/")})
pkgs = sorted({os.path.dirname(t) for t in touched})
demo_files = [f for f in os.listdir(os.path.join(wt, "out")) if f not in ("patch.diff", "meta.json")]
print("touched:", touched, "demo:", demo_files, "demo_cmd:", meta.get("demo_cmd"))
res = {}
rc, out = sh("go build ./... 2>&1 | tail -5")
res["builds"] = rc == 0 and "error" not in out.lower()
# existing tests of touched top-level packages (etcd modules are separate: run in their module dir)
tests = []
for p in pkgs:
    if p.startswith("etcd/"):
        mod = "/".join(p.split("/")[:2])
        rel = "./" + "/".join(p.split("/")[2:]) if len(p.split("/")) > 2 else "."
        rc, out = sh("go test -count=1 -timeout 800s -skip 'ZZ|Zz|zz|Demo' %s 2>&1 | tail -5" % rel, cwd=os.path.join(wt, mod), timeout=1000)
    else:
        skip = "-skip 'ZZ|Zz|zz|Demo'"
        rc, out = sh("go test -count=1 %s ./%s 2>&1 | tail -8" % (skip, p))
    ok = rc == 0 and ("FAIL" not in out or (p == "resp" and "TestParseArrayHeader" in out or "TestParseStream" in out))
    tests.append((p, ok, out[-300:]))
res["existing_tests_pass_with_change"] = all(t[1] for t in tests)
demo_cmd = meta["demo_cmd"]
rc1, out1 = sh(demo_cmd + " 2>&1 | tail -15", timeout=1200)
res["demo_fails_with_change"] = ("FAIL" in out1) or rc1 != 0
# (git stash is shared between worktrees of one repository: use the patch file itself)
sh("git apply -R out/patch.diff")
try:
    rc2, out2 = sh(demo_cmd + " 2>&1 | tail -15", timeout=1200)
    res["demo_passes_without_change"] = ("FAIL" not in out2) and ("ok" in out2 or rc2 == 0)
finally:
    sh("git apply out/patch.diff")
caught = {}
for p in props:
    rc, out = sh("./check %s --tier quick 2>&1 | tail -12" % p, cwd=os.environ.get("VERIF_EVAL_DIR", "/verif"), extra={"VERIF_REPO": wt}, timeout=3600)
    viol = [l for l in out.split("\n") if l.startswith("VIOLATION")]
    caught[p] = dict(caught=bool(viol), first=(viol[0][:200] if viol else ""), detail=[l[:300] for l in out.split("\n") if l.startswith("  ")][:2])
res["checks"] = caught
d = os.path.join("/verif/seeded", sid)
os.makedirs(d, exist_ok=True)
open(os.path.join(d, "patch.diff"), "w").write(patch)
for f in demo_files:
    src = os.path.join(wt, "out", f)
    if os.path.isdir(src):
        shutil.copytree(src, os.path.join(d, f), dirs_exist_ok=True)
    else:
        shutil.copy(src, os.path.join(d, f))
meta.update(dict(seed_id=sid, breaks=meta.get("property"), confirmed=res, touched=touched,
                 what_i_ran=["go build ./...", "existing tests of touched packages with the change", "demo with and without the change",
                             "VERIF_REPO=<worktree> ./check <props> --tier quick"]))
json.dump(meta, open(os.path.join(d, "meta.json"), "w"), indent=1)
print(json.dumps(res, indent=1)[:3000])
for t in tests:
    print("tests", t[0], t[1])
