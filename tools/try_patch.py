#!/usr/bin/env python3
"""tools/try_patch.py <patch.diff> <Cxx> [<Cyy> ...] [--tier quick|thorough]
Applies a seeded change to /repo's working tree, runs the given checks, prints each verdict, and ALWAYS restores /repo afterwards."""
import subprocess
import sys

args = [a for a in sys.argv[1:] if not a.startswith("--")]
tier = "quick"
if "--tier" in sys.argv:
    tier = sys.argv[sys.argv.index("--tier") + 1]
    args = [a for a in args if a != tier]
patch, props = args[0], args[1:]
st = subprocess.run("git -C /repo status --porcelain --untracked-files=no | grep -v ' RedisGO$'", shell=True, capture_output=True, text=True).stdout.strip()
if st:
    print("refusing: /repo has local changes:\n" + st)
    sys.exit(2)
r = subprocess.run(["git", "-C", "/repo", "apply", patch], capture_output=True, text=True)
if r.returncode != 0:
    print("patch does not apply:", r.stderr)
    sys.exit(2)
try:
    for p in props:
        r = subprocess.run(["/verif/check", p, "--tier", tier], capture_output=True, text=True, timeout=3600, cwd="/verif")
        lines = [l for l in r.stdout.split("\n") if l.strip()]
        viol = [l for l in lines if l.startswith("VIOLATION")]
        print("%s exit=%d %s" % (p, r.returncode, "CAUGHT" if r.returncode == 1 and viol else "MISSED"))
        for l in lines[:6]:
            print("   " + l[:300])
finally:
    subprocess.run("git -C /repo checkout -- . && git -C /repo clean -fdq -- memdb resp server util raftexample", shell=True)
    print(subprocess.run("git -C /repo status --porcelain --untracked-files=no", shell=True, capture_output=True, text=True).stdout or "/repo restored")
