#!/bin/bash
# tools/build_alt.sh <repo-worktree> <out-binary> — build the harness against another checkout of the repository without touching harness/bin
set -e
cd "$(dirname "$0")/../harness"
export GOFLAGS=-mod=mod GOPROXY=off GOSUMDB=off GOTOOLCHAIN=local
d=$(mktemp -d /tmp/altmod.XXXX)
sed "s#=> /repo#=> $1#" go.mod > $d/alt.mod
cp $1/go.sum $d/alt.sum
go build -tags verif -modfile $d/alt.mod -o "$2" .
rm -rf $d
