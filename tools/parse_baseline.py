#!/usr/bin/env python3
"""compares a `go test -json` stream (baseline_off.sh output) with /root/.vp/BASELINE.json's stable_pass list"""
import json, sys
base = json.load(open('/root/.vp/BASELINE.json'))
stable = set(base['stable_pass'])
res = {}
for line in open(sys.argv[1] if len(sys.argv) > 1 else '/tmp/baseline_run.json'):
    line = line.strip()
    if not line.startswith('{'):
        continue
    try:
        e = json.loads(line)
    except Exception:
        continue
    if e.get('Action') in ('pass', 'fail', 'skip') and e.get('Test'):
        res[e['Package'] + '::' + e['Test']] = e['Action']
missing = [t for t in stable if res.get(t) != 'pass']
print("stable_pass: %d, passing now: %d, not passing: %d" % (len(stable), len(stable) - len(missing), len(missing)))
for t in sorted(missing)[:40]:
    print("  ", t, res.get(t))
