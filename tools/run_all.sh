#!/bin/bash
# tools/run_all.sh [tier] — every property's check in turn; one summary line each
cd "$(dirname "$0")/.."
tier=${1:-quick}
for i in $(seq -w 1 20); do
  out=$(./check C$i --tier $tier 2>&1); rc=$?
  echo "C$i rc=$rc $(echo "$out" | grep -c '^VIOLATION') violations :: $(echo "$out" | tail -1 | cut -c1-160)"
  echo "$out" | grep '^VIOLATION\|^KNOWN-FINDING' | cut -c1-300 | head -5
done
