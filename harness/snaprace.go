package main

import (
	"encoding/json"
	"fmt"
	"math/rand"
	"os"
	"strconv"
	"strings"
	"sync"
	"time"

	"github.com/innovationb1ue/RedisGO/raftexample"
	"go.etcd.io/etcd/raft/v3/raftpb"
	"go.etcd.io/etcd/server/v3/etcdserver/api/snap"
	"go.etcd.io/etcd/server/v3/storage/wal"
	"go.uber.org/zap"
)

// snaprace engine (C08): "taking a snapshot never loses acknowledged writes" at the place where the image is taken.  A RaftNode without raft
// (hook H4: real publishEntries, entriesToApply, maybeTriggerSnapshot, saveSnap on a real WAL and snapshotter, MemoryStorage) is fed Readys'
// committed entries - batches with commands, batches WITHOUT commands (a new leader's empty entry, a membership-change entry), in random
// sizes - while the state machine (the consumer of the commit channel) applies each batch after a random delay, as a goroutine that is
// scheduled late does.  The state machine's image is the number of commands it has applied; a snapshot at index i must hold exactly the
// commands of the entries up to i.  (Genuine defect found and fixed, e930c32: a batch without commands that crossed the threshold took the
// image while the previous batch was still being applied.)
//
//	harness snaprace <scratch-dir> <seed> <scenarios>
type snapraceReport struct {
	Scenario  int    `json:"scenario"`
	Seed      int64  `json:"seed"`
	Batches   int    `json:"batches"`
	Snapshots int    `json:"snapshots"`
	Empty     int    `json:"batches_without_commands"`
	Result    string `json:"result"` // ok | lost-entries | extra-entries | error
	Detail    string `json:"detail,omitempty"`
	Script    string `json:"script,omitempty"`
}

func runSnaprace(args []string) {
	scratch := args[0]
	seed, _ := strconv.ParseInt(args[1], 10, 64)
	n, _ := strconv.Atoi(args[2])
	enc := json.NewEncoder(os.Stdout)
	for sc := 0; sc < n; sc++ {
		rng := rand.New(rand.NewSource(seed*100000 + int64(sc)))
		rep := snapraceReport{Scenario: sc, Seed: seed}
		dir, err := os.MkdirTemp(scratch, "snaprace-")
		if err != nil {
			panic(err)
		}
		func() {
			defer os.RemoveAll(dir)
			w, err := wal.Create(zap.NewNop(), dir+"/wal", nil)
			if err != nil {
				rep.Result, rep.Detail = "error", err.Error()
				return
			}
			defer w.Close()
			var mu sync.Mutex
			applied := 0
			commitC := make(chan *raftexample.RaftCommit, 64)
			maxDelay := []int{0, 1, 3, 8}[sc%4]
			var deliveredIDs []string // the proposals in the order the state machine was handed them, read AFTER its delay (a batch whose backing array is reused meanwhile shows here)
			go func() {
				for c := range commitC {
					if maxDelay > 0 {
						time.Sleep(time.Duration(rng.Intn(maxDelay*1000)) * time.Microsecond)
					}
					mu.Lock()
					for _, p := range c.Data {
						if maxDelay > 0 {
							mu.Unlock()
							time.Sleep(20 * time.Microsecond) // a state machine takes its time per command
							mu.Lock()
						}
						deliveredIDs = append(deliveredIDs, p.ID)
					}
					applied += len(c.Data)
					mu.Unlock()
					if c.ApplyDoneC != nil {
						close(c.ApplyDoneC)
					}
				}
			}()
			defer close(commitC)
			snapCount := uint64(1 + sc%5)
			rc := raftexample.VerifSnapshotNode(w, snap.New(zap.NewNop(), dir), snapCount, func() ([]byte, error) {
				mu.Lock()
				defer mu.Unlock()
				return []byte(strconv.Itoa(applied)), nil
			}, commitC)
			idx := uint64(0)
			cmdsUpTo := map[uint64]int{0: 0} // number of commands among the entries 1..i
			lastSnap := uint64(0)
			script := ""
			var wantIDs []string
			nb := 4 + rng.Intn(20)
			for b := 0; b < nb; b++ {
				k := 1 + rng.Intn(4)
				if sc%3 == 2 {
					k = 3 + rng.Intn(5)
				}
				kind := rng.Intn(4) // 0,1: commands; 2: empty entries only; 3: mixed
				var ents []raftpb.Entry
				withCmd := 0
				for j := 0; j < k; j++ {
					idx++
					e := raftpb.Entry{Index: idx, Term: 1}
					if sc%3 == 2 && j > 0 && j < k-1 && rng.Intn(2) == 0 {
						// a membership change BETWEEN commands of one Ready (ConfChangeUpdateNode / AddNode without a URL: publishEntries applies it to
						// the raft node and touches nothing else)
						cc := raftpb.ConfChange{Type: []raftpb.ConfChangeType{raftpb.ConfChangeUpdateNode, raftpb.ConfChangeAddNode}[rng.Intn(2)], NodeID: 2}
						if rng.Intn(2) == 0 {
							e.Type = raftpb.EntryConfChange
							e.Data, _ = cc.Marshal()
						} else {
							e.Type = raftpb.EntryConfChangeV2
							v2 := cc.AsV2()
							e.Data, _ = v2.Marshal()
						}
						cmdsUpTo[idx] = cmdsUpTo[idx-1]
						ents = append(ents, e)
						continue
					}
					if kind <= 1 || (kind == 3 && rng.Intn(2) == 0) {
						p, _ := json.Marshal(&raftexample.RaftProposal{ID: fmt.Sprint(idx), Args: [][]byte{[]byte("INCR"), []byte("n")}})
						e.Data = p
						withCmd++
						wantIDs = append(wantIDs, fmt.Sprint(idx))
					}
					cmdsUpTo[idx] = cmdsUpTo[idx-1] + map[bool]int{true: 1, false: 0}[e.Data != nil]
					ents = append(ents, e)
				}
				if withCmd == 0 {
					rep.Empty++
				}
				script += fmt.Sprintf("%d/%d ", k, withCmd)
				si, data, ok := rc.VerifPublishAndMaybeSnapshot(ents)
				rep.Batches++
				if !ok {
					rep.Result, rep.Detail = "error", "publish refused"
					return
				}
				if si != lastSnap {
					lastSnap = si
					rep.Snapshots++
					got, _ := strconv.Atoi(string(data))
					want := cmdsUpTo[si]
					if got != want {
						rep.Result = map[bool]string{true: "lost-entries", false: "extra-entries"}[got < want]
						rep.Detail = fmt.Sprintf("the snapshot taken at index %d (threshold %d, batch %d of sizes/commands %s) holds the effect of %d commands; the entries up to that index carry %d: "+
							"a node restored from it applies only what follows the index", si, snapCount, b, script, got, want)
						rep.Script = script
						return
					}
				}
			}
			// every command of the log reached the state machine exactly once, in log order (wait for the last batch)
			for w := 0; w < 2000; w++ {
				mu.Lock()
				nd := len(deliveredIDs)
				mu.Unlock()
				if nd >= len(wantIDs) {
					break
				}
				time.Sleep(time.Millisecond)
			}
			mu.Lock()
			got := append([]string(nil), deliveredIDs...)
			mu.Unlock()
			if strings.Join(got, ",") != strings.Join(wantIDs, ",") {
				rep.Result = "wrong-delivery"
				rep.Detail = fmt.Sprintf("the state machine was handed the proposals %v; the committed log carries %v (batches of sizes/commands %s, membership-change entries between commands in scenarios 2 mod 3)", got, wantIDs, script)
				rep.Script = script
				return
			}
			rep.Result = "ok"
		}()
		enc.Encode(rep)
	}
}
