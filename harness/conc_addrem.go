package main

import (
	"encoding/json"
	"fmt"
	"sort"
	"strconv"
	"strings"
	"sync"
	"sync/atomic"
	"time"

	"github.com/innovationb1ue/RedisGO/config"
	"github.com/innovationb1ue/RedisGO/server"
)

// Three concurrent scenarios whose verdict needs no history search because every element / key is touched by a fixed protocol
// (added in round six of the seeded changes, all of which broke a command into several critical sections or let a reader walk a
// structure a writer was rebuilding):
//
// addrem (C05; hash, set, sorted set): an adder adds elements e0, e1, ... one at a time (each acknowledged :1); a remover removes an
// element only AFTER its addition was acknowledged, so every removal must answer :1; the container repeatedly becomes empty (the key
// ceases to exist) and is re-created by the next addition.  At quiescence the container holds exactly the acknowledged additions
// minus the acknowledged removals.  A write that went into an object the key no longer points to (a pointer kept across two lock
// scopes) is an acknowledged addition that is missing.
//
// keysstable (C05, C17): 24 keys exist for the whole run and are only ever OVERWRITTEN (SET, SET..GET, APPEND, SETRANGE, MSET) while other
// clients create and delete other keys; every KEYS reply must list all 24, every EXISTS on them answers 1, and KEYS of the churned
// prefix lists nothing that was never created.
//
// streamtrim (C18, C05): producers append to one stream with MAXLEN n (n small) at the same moment; every XADD reports its ID; at
// quiescence XRANGE - + holds exactly the imin(n, total) greatest reported IDs, in order.

func imin(a, b int) int {
	if a < b {
		return a
	}
	return b
}

func flatBulkSet(reply string) (map[string]bool, bool) {
	items, ok := flatBulks(reply)
	if !ok {
		return nil, false
	}
	m := map[string]bool{}
	for _, it := range items {
		m[it] = true
	}
	return m, true
}

func addRem(seed int64, rounds int, want map[string]bool, enc *json.Encoder) {
	if !want["all"] && !want["addrem"] {
		return
	}
	type fam struct {
		name string
		add  func(k, e string) []string
		rem  func(k, e string) []string
		list func(k string) []string
	}
	fams := []fam{
		{"hash", func(k, e string) []string { return []string{"HSET", k, e, "v"} }, func(k, e string) []string { return []string{"HDEL", k, e} }, func(k string) []string { return []string{"HKEYS", k} }},
		{"set", func(k, e string) []string { return []string{"SADD", k, e} }, func(k, e string) []string { return []string{"SREM", k, e} }, func(k string) []string { return []string{"SMEMBERS", k} }},
		{"zset", func(k, e string) []string { return []string{"ZADD", k, "1", e} }, func(k, e string) []string { return []string{"ZREM", k, e} }, func(k string) []string { return []string{"ZRANGE", k, "0", "-1"} }},
	}
	for rf := 0; rf < rounds*len(fams); rf++ {
		r, f := rf/len(fams), fams[rf%len(fams)]
		rep := concReport{Scenario: "addrem-" + f.name, Seed: seed + int64(r), Goroutines: 4, Shards: []int{1, 1024}[r%2]}
		config.Configures.ShardNum = rep.Shards
		mgr := server.NewManager(config.Configures)
		const pairs, perPair = 2, 8000
		var bad atomic.Value
		var ops atomic.Int64
		var wg sync.WaitGroup
		finals := make([]map[string]bool, pairs)
		for p := 0; p < pairs; p++ {
			key := fmt.Sprintf("ar%d", p)
			acked := make(chan string, 2) // the remover stays at most 2 elements behind
			finals[p] = map[string]bool{}
			var fmu sync.Mutex
			wg.Add(2)
			go func(p int) { // adder
				defer wg.Done()
				defer close(acked)
				for i := 0; i < perPair && bad.Load() == nil; i++ {
					e := fmt.Sprintf("e%05d", i)
					out, pn := runCmd(mgr, f.add(key, e)...)
					ops.Add(1)
					if pn || out != ":1\r\n" {
						bad.CompareAndSwap(nil, fmt.Sprintf("%s answered %q (a new element)", strings.Join(f.add(key, e), " "), out))
						return
					}
					fmu.Lock()
					finals[p][e] = true
					fmu.Unlock()
					if i < perPair-6 { // all but the last few elements are removed again: the container keeps becoming empty
						acked <- e
					}
				}
			}(p)
			go func(p int) { // remover
				defer wg.Done()
				for e := range acked {
					out, pn := runCmd(mgr, f.rem(key, e)...)
					ops.Add(1)
					if pn || out != ":1\r\n" {
						bad.CompareAndSwap(nil, fmt.Sprintf("%s answered %q although the addition of %s had been acknowledged before (the element was not where the key points)", strings.Join(f.rem(key, e), " "), out, e))
						for range acked {
						}
						return
					}
					fmu.Lock()
					delete(finals[p], e)
					fmu.Unlock()
				}
			}(p)
		}
		done := make(chan struct{})
		go func() { wg.Wait(); close(done) }()
		select {
		case <-done:
		case <-time.After(40 * time.Second):
			rep.Result, rep.Detail = "stuck", "addrem-"+f.name+": adders/removers did not finish within 40 s"
			enc.Encode(rep)
			return
		}
		rep.Ops = int(ops.Load())
		rep.Result = "ok"
		if b := bad.Load(); b != nil {
			rep.Result, rep.Detail = "not-linearizable", b.(string)
		} else {
			for p := 0; p < pairs; p++ {
				key := fmt.Sprintf("ar%d", p)
				out, _ := runCmd(mgr, f.list(key)...)
				got, ok := flatBulkSet(out)
				if !ok {
					rep.Result, rep.Detail = "invariant", fmt.Sprintf("%s: malformed reply %q", strings.Join(f.list(key), " "), out)
					break
				}
				var missing, extra []string
				for e := range finals[p] {
					if !got[e] {
						missing = append(missing, e)
					}
				}
				for e := range got {
					if !finals[p][e] {
						extra = append(extra, e)
					}
				}
				if len(missing)+len(extra) > 0 {
					sort.Strings(missing)
					sort.Strings(extra)
					if len(missing) > 5 {
						missing = missing[:5]
					}
					if len(extra) > 5 {
						extra = extra[:5]
					}
					rep.Result = "invariant"
					rep.Detail = fmt.Sprintf("at quiescence %s holds %d elements; acknowledged additions minus acknowledged removals are %d: missing %v, unexpected %v", key, len(got), len(finals[p]), missing, extra)
					break
				}
			}
		}
		enc.Encode(rep)
	}
}

func keysStable(seed int64, rounds int, want map[string]bool, enc *json.Encoder) {
	if !want["all"] && !want["keysstable"] {
		return
	}
	for r := 0; r < rounds; r++ {
		rep := concReport{Scenario: "keysstable", Seed: seed + int64(r), Goroutines: 7, Shards: []int{1024, 4, 1}[r%3]}
		config.Configures.ShardNum = rep.Shards
		mgr := server.NewManager(config.Configures)
		const nstable = 24
		stable := make([]string, nstable)
		for i := range stable {
			stable[i] = fmt.Sprintf("stable:%02d", i)
			runCmd(mgr, "SET", stable[i], "v0")
		}
		var bad atomic.Value
		var ops atomic.Int64
		var created atomic.Int64 // churn keys churn:0 .. churn:(created-1) have been sent at least once
		stop := make(chan struct{})
		var wg sync.WaitGroup
		for w := 0; w < 3; w++ { // overwriters
			wg.Add(1)
			go func(w int) {
				defer wg.Done()
				for i := 0; ; i++ {
					select {
					case <-stop:
						return
					default:
					}
					k := stable[(i*7+w)%nstable]
					var out string
					var p bool
					switch (i + w) % 5 {
					case 0:
						out, p = runCmd(mgr, "SET", k, fmt.Sprintf("w%d-%d", w, i))
					case 1:
						out, p = runCmd(mgr, "SET", k, "x", "GET")
					case 2:
						out, p = runCmd(mgr, "APPEND", k, "y")
					case 3:
						out, p = runCmd(mgr, "SETRANGE", k, "0", "zz")
					default:
						out, p = runCmd(mgr, "MSET", k, "m", stable[(i*7+w+1)%nstable], "m")
					}
					ops.Add(1)
					if p || strings.HasPrefix(out, "-") {
						bad.CompareAndSwap(nil, "overwrite answered "+out)
						return
					}
				}
			}(w)
		}
		wg.Add(1)
		go func() { // churn: other keys come and go
			defer wg.Done()
			for i := 0; ; i++ {
				select {
				case <-stop:
					return
				default:
				}
				k := fmt.Sprintf("churn:%d", i%400)
				if int64(i%400)+1 > created.Load() {
					created.Store(int64(i%400) + 1)
				}
				if i%2 == 0 {
					runCmd(mgr, "SET", k, "c")
				} else {
					runCmd(mgr, "DEL", fmt.Sprintf("churn:%d", (i*13)%400))
				}
				ops.Add(1)
			}
		}()
		const perReader = 60
		var reads atomic.Int64
		for g := 0; g < 3; g++ {
			wg.Add(1)
			go func(g int) {
				defer wg.Done()
				for i := 0; i < perReader && bad.Load() == nil; i++ {
					pat := []string{"*", "stable:*", "s*"}[(i+g)%3]
					out, p := runCmd(mgr, "KEYS", pat)
					hi := created.Load()
					reads.Add(1)
					ops.Add(1)
					got, ok := flatBulkSet(out)
					if p || !ok {
						bad.CompareAndSwap(nil, fmt.Sprintf("KEYS %s: %q", pat, out))
						return
					}
					for _, k := range stable {
						if !got[k] {
							ex, _ := runCmd(mgr, "EXISTS", k)
							bad.CompareAndSwap(nil, fmt.Sprintf("KEYS %s listed %d keys and lacks %q, which exists for the whole run and is only ever overwritten (EXISTS answers %q)", pat, len(got), k, ex))
							return
						}
					}
					for k := range got {
						if strings.HasPrefix(k, "churn:") {
							n, err := strconv.Atoi(k[6:])
							if err != nil || int64(n) >= hi+1 {
								bad.CompareAndSwap(nil, fmt.Sprintf("KEYS %s listed %q, which no client had created", pat, k))
								return
							}
						} else if !strings.HasPrefix(k, "stable:") {
							bad.CompareAndSwap(nil, fmt.Sprintf("KEYS %s listed %q, which was never a key", pat, k))
							return
						}
					}
					if i%4 == 0 {
						k := stable[(i+g)%nstable]
						if ex, _ := runCmd(mgr, "EXISTS", k); ex != ":1\r\n" {
							bad.CompareAndSwap(nil, fmt.Sprintf("EXISTS %s answered %q for a key that exists for the whole run", k, ex))
							return
						}
					}
				}
			}(g)
		}
		done := make(chan struct{})
		go func() { wg.Wait(); close(done) }()
		go func() {
			for reads.Load() < 3*perReader && bad.Load() == nil {
				select {
				case <-done:
					return
				default:
				}
				time.Sleep(time.Millisecond)
			}
			close(stop)
		}()
		select {
		case <-done:
		case <-time.After(60 * time.Second):
			rep.Result, rep.Detail = "stuck", "keysstable: KEYS / overwriting clients did not finish within 60 s"
			enc.Encode(rep)
			return
		}
		rep.Ops = int(ops.Load())
		rep.Result = "ok"
		if b := bad.Load(); b != nil {
			rep.Result, rep.Detail = "not-linearizable", b.(string)
		}
		enc.Encode(rep)
	}
}

func streamTrim(seed int64, rounds int, want map[string]bool, enc *json.Encoder) {
	if !want["all"] && !want["streamtrim"] {
		return
	}
	for r := 0; r < rounds; r++ {
		rep := concReport{Scenario: "streamtrim", Seed: seed + int64(r), Goroutines: 4, Shards: []int{1, 1024}[r%2]}
		config.Configures.ShardNum = rep.Shards
		mgr := server.NewManager(config.Configures)
		rep.Result = "ok"
		const producers, bursts = 4, 4000
		for b := 0; b < bursts && rep.Result == "ok"; b++ {
			key := fmt.Sprintf("st%d", b%3)
			maxlen := []string{"1", "2", "3"}[b%3]
			n, _ := strconv.Atoi(maxlen)
			if b < 3 {
				runCmd(mgr, "XADD", key, "1-1", "f", "v") // the stream exists before the producers meet on it
			}
			ids := make([]string, producers)
			var wg sync.WaitGroup
			start := make(chan struct{})
			// a reader beside the producers: XADD trims under the key's lock, so no XRANGE may ever see more than MAXLEN entries
			var over atomic.Value
			wg.Add(1)
			go func() {
				defer wg.Done()
				<-start
				for q := 0; q < 3; q++ {
					o, _ := runCmd(mgr, "XRANGE", key, "-", "+")
					if strings.HasPrefix(o, "*") {
						if c, err := strconv.Atoi(o[1:strings.Index(o, "\r\n")]); err == nil && c > n && b >= 3 {
							over.CompareAndSwap(nil, fmt.Sprintf("XRANGE %s - + answered %d entries while every XADD on that stream carries MAXLEN %s", key, c, maxlen))
						}
					}
				}
			}()
			for p := 0; p < producers; p++ {
				wg.Add(1)
				go func(p int) {
					defer wg.Done()
					<-start
					out, _ := runCmd(mgr, "XADD", key, "MAXLEN", maxlen, "*", "f", fmt.Sprintf("p%d-%d", p, b))
					ids[p] = out
				}(p)
			}
			close(start)
			wg.Wait()
			rep.Ops += producers + 3
			if o := over.Load(); o != nil {
				rep.Result, rep.Detail = "not-linearizable", o.(string)
				break
			}
			var reported [][2]uint64
			for _, o := range ids {
				if !strings.HasPrefix(o, "$") {
					rep.Result, rep.Detail = "invariant", fmt.Sprintf("XADD %s MAXLEN %s * answered %q", key, maxlen, o)
					break
				}
				id := strings.TrimSuffix(o[strings.Index(o, "\r\n")+2:], "\r\n")
				ms, seq, ok := strings.Cut(id, "-")
				a, e1 := strconv.ParseUint(ms, 10, 64)
				c, e2 := strconv.ParseUint(seq, 10, 64)
				if !ok || e1 != nil || e2 != nil {
					rep.Result, rep.Detail = "invariant", "unparsable id "+id
					break
				}
				reported = append(reported, [2]uint64{a, c})
			}
			if rep.Result != "ok" {
				break
			}
			sort.Slice(reported, func(i, j int) bool {
				return reported[i][0] < reported[j][0] || (reported[i][0] == reported[j][0] && reported[i][1] < reported[j][1])
			})
			for i := 1; i < len(reported); i++ {
				if reported[i] == reported[i-1] {
					rep.Result, rep.Detail = "not-linearizable", fmt.Sprintf("two concurrent XADD %s * reported the same ID %d-%d", key, reported[i][0], reported[i][1])
				}
			}
			out, _ := runCmd(mgr, "XRANGE", key, "-", "+")
			// entries come back as *2 [$id, *fields]: count the top-level ids
			got := 0
			var gotIDs []string
			for _, rp := range reported[len(reported)-imin(n, len(reported)):] {
				id := fmt.Sprintf("%d-%d", rp[0], rp[1])
				gotIDs = append(gotIDs, id)
				if strings.Contains(out, fmt.Sprintf("$%d\r\n%s\r\n", len(id), id)) {
					got++
				}
			}
			top := 0
			if strings.HasPrefix(out, "*") {
				top, _ = strconv.Atoi(out[1:strings.Index(out, "\r\n")])
			}
			if rep.Result == "ok" && (top != imin(n, len(reported)+1) && top != imin(n, len(reported)) || got != imin(n, len(reported))) {
				rep.Result = "not-linearizable"
				rep.Detail = fmt.Sprintf("after %d concurrent XADD %s MAXLEN %s * (every one answered with an ID) XRANGE - + holds %d entries and %d of the %d greatest reported IDs %v; MAXLEN %s must keep exactly the newest %s",
					producers, key, maxlen, top, got, imin(n, len(reported)), gotIDs, maxlen, maxlen)
			}
		}
		enc.Encode(rep)
	}
}

// bpoptime (C09, C04): "only the documented blocking commands may delay their reply, and by no more than their timeout" has a converse the list property
// needs as well: a blocking pop on a list that stays empty answers nil AT its timeout, not before - an element pushed inside the timeout must still find the
// popper.  Each round: (1) 8 poppers issue BLPOP/BRPOP q 0.001 while one bulk RPUSH q (150 000 elements, tens of milliseconds under the key's lock) is under
// way - they wait for the lock, their millisecond passes, and each is then SERVED an element; (2) the queue is deleted; (3) 8 pops with a timeout of 30 ms on
// a key that stays empty must each take at least 24 ms to answer nil.  (Seeded change C09-pooled-pop-clock-stale-timer: timers taken from a pool; one that
// had fired while its pop was being served made the next pop that got it give up at once.)
func bpopTime(seed int64, rounds int, want map[string]bool, enc *json.Encoder) {
	if !want["all"] && !want["bpoptime"] {
		return
	}
	bulk := []string{"RPUSH", "q"}
	for i := 0; i < 150000; i++ {
		bulk = append(bulk, "x")
	}
	for r := 0; r < rounds; r++ {
		rep := concReport{Scenario: "bpoptime", Seed: seed + int64(r), Goroutines: 9, Shards: []int{1, 1024}[r%2]}
		config.Configures.ShardNum = rep.Shards
		mgr := server.NewManager(config.Configures)
		rep.Result = "ok"
		for it := 0; it < 25 && rep.Result == "ok"; it++ {
			var wg sync.WaitGroup
			for g := 0; g < 8; g++ {
				wg.Add(1)
				go func(g int) {
					defer wg.Done()
					time.Sleep(time.Duration(1+g%3) * time.Millisecond) // the bulk push is under way
					cmd := "BLPOP"
					if g%2 == 1 {
						cmd = "BRPOP"
					}
					runCmd(mgr, cmd, "q", "0.001")
				}(g)
			}
			runCmd(mgr, bulk...)
			wg.Wait()
			runCmd(mgr, "DEL", "q")
			rep.Ops += 10
			var bad atomic.Value
			for g := 0; g < 8; g++ {
				wg.Add(1)
				go func(g int) {
					defer wg.Done()
					key := fmt.Sprintf("empty%d", g)
					t0 := time.Now()
					out, p := runCmd(mgr, "BLPOP", key, "0.03")
					el := time.Since(t0)
					if p || out != "*-1\r\n" {
						bad.CompareAndSwap(nil, fmt.Sprintf("BLPOP %s 0.03 on a key that never holds anything answered %q", key, out))
					} else if el < 24*time.Millisecond {
						bad.CompareAndSwap(nil, fmt.Sprintf("BLPOP %s 0.03 answered nil after %v, long before its timeout of 30 ms (an element pushed inside the timeout would have found no popper); "+
							"before it, 8 pops with a 1 ms timeout had been served elements after waiting for the key's lock behind a bulk RPUSH", key, el))
					}
				}(g)
			}
			wg.Wait()
			rep.Ops += 8
			if b := bad.Load(); b != nil {
				rep.Result, rep.Detail = "invariant", b.(string)
			}
		}
		enc.Encode(rep)
	}
}
