package main

import (
	"bufio"
	"bytes"
	"context"
	"fmt"
	"math"
	"os"
	"runtime"
	"strconv"
	"strings"
	"sync"
	"time"

	"github.com/innovationb1ue/RedisGO/config"
	"github.com/innovationb1ue/RedisGO/memdb"
	"github.com/innovationb1ue/RedisGO/resp"
	"github.com/innovationb1ue/RedisGO/server"
)

type execResult struct {
	reply string
	rf    string
	t0    int64
	t1    int64
	ev    string
}

// goid parses the current goroutine's id from its stack header ("goroutine 123 [running]:")
func goid() int64 {
	var buf [64]byte
	n := runtime.Stack(buf[:], false)
	var id int64
	for _, c := range buf[len("goroutine "):n] {
		if c < '0' || c > '9' {
			break
		}
		id = id*10 + int64(c-'0')
	}
	return id
}

// event recorder (hook H2): lock operations and keyspace map accesses of ONE goroutine (the command's), in order
type evRecorder struct {
	mu   sync.Mutex
	gid  int64
	evs  []string
	db   *memdb.MemDb
	pass bool
}

var recorder evRecorder

// clusterPath: execute every command through server.VerifClusterRoundTrip (VERIF_CLUSTER_PATH=1)
var clusterPath = os.Getenv("VERIF_CLUSTER_PATH") != ""

func (r *evRecorder) hook(kind string, cm *memdb.ConcurrentMap, key string, pos int) {
	if !r.pass {
		return
	}
	g := goid()
	r.mu.Lock()
	defer r.mu.Unlock()
	if g != r.gid || r.db == nil {
		return
	}
	switch kind {
	case "L", "U", "RL", "RU":
		r.evs = append(r.evs, fmt.Sprintf("%s%d", kind, pos))
	default:
		name := r.db.VerifMapName(cm)
		if name == "db" || name == "ttl" {
			r.evs = append(r.evs, fmt.Sprintf("%s:%s:%d", kind, name, r.db.VerifLockPos(key)))
		}
	}
}

func execOne(mgr *server.Manager, argv [][]byte) (res execResult) {
	done := make(chan execResult, 1)
	go func() {
		var r execResult
		defer func() {
			if e := recover(); e != nil {
				r.reply = "PANIC"
				r.t1 = time.Now().Unix()
				if os.Getenv("VERIF_SHOWPANIC") != "" {
					fmt.Fprintln(os.Stderr, "panic:", e)
				}
			}
			done <- r
		}()
		if recorder.pass {
			recorder.mu.Lock()
			recorder.gid, recorder.evs, recorder.db = goid(), nil, mgr.CurrentDB
			recorder.mu.Unlock()
			defer func() {
				recorder.mu.Lock()
				r.ev = strings.Join(recorder.evs, ",")
				recorder.gid = -1
				recorder.mu.Unlock()
			}()
		}
		// the argument vector reaches the executor the way a client's does: framed as a RESP array and read back by the real parser
		// (slices cut out of the parser's own buffers, with whatever spare capacity it leaves behind them)
		argv = viaWire(argv)
		r.t0 = time.Now().Unix()
		var out resp.RedisData
		if clusterPath {
			// C14: the command goes through the cluster codec (proposal -> log bytes -> decoded proposal -> apply)
			out, _, _ = server.VerifClusterRoundTrip(context.Background(), mgr, argv)
		} else {
			out = mgr.ExecCommand(context.Background(), argv, nil)
		}
		r.t1 = time.Now().Unix()
		if out == nil || isNilData(out) {
			r.reply = "NIL"
		} else {
			r.reply = hx(out.ToBytes())
			r.rf = replyFloatAnn(out)
		}
	}()
	select {
	case r := <-done:
		return r
	case <-time.After(10 * time.Second):
		return execResult{reply: "HANG", t0: time.Now().Unix(), t1: time.Now().Unix()}
	}
}

// viaWire frames argv as a RESP array of bulk strings and decodes it with resp.ParseStream + ToCommand, exactly what
// Manager.Handle does with a client's bytes; on any decode problem the original vector is used (the parser has its own engine, C02).
func viaWire(argv [][]byte) [][]byte {
	if len(argv) == 0 || os.Getenv("VERIF_NOWIRE") != "" {
		return argv
	}
	var b bytes.Buffer
	fmt.Fprintf(&b, "*%d\r\n", len(argv))
	for _, a := range argv {
		fmt.Fprintf(&b, "$%d\r\n", len(a))
		b.Write(a)
		b.WriteString("\r\n")
	}
	ctx, cancel := context.WithCancel(context.Background())
	defer cancel()
	ch := resp.ParseStream(ctx, &b)
	select {
	case p := <-ch:
		if p == nil || p.Err != nil {
			return argv
		}
		arr, ok := p.Data.(*resp.ArrayData)
		if !ok {
			return argv
		}
		got := arr.ToCommand()
		if len(got) != len(argv) {
			return argv
		}
		for i := range got {
			if !bytes.Equal(got[i], argv[i]) {
				return argv
			}
		}
		return got
	case <-time.After(2 * time.Second):
		return argv
	}
}

// isNilData: a typed nil pointer inside the interface (executors return e.g. (*resp.ArrayData)(nil))
func isNilData(d resp.RedisData) (isnil bool) {
	defer func() {
		if recover() != nil {
			isnil = true
		}
	}()
	switch v := d.(type) {
	case *resp.ArrayData:
		return v == nil
	case *resp.BulkData:
		return v == nil
	case *resp.StringData:
		return v == nil
	case *resp.IntData:
		return v == nil
	case *resp.ErrorData:
		return v == nil
	case *resp.PlainData:
		return v == nil
	}
	return false
}

// dumpKeys: a full dump is repeated until two consecutive renderings agree (an expiry timer may fire in between); a rendering that
// shows a deadline without a value ("~@<deadline>") may be the middle of the timer goroutine's CheckTTL (value deleted, deadline not
// yet): it is retried for up to ~40 ms, so only a deadline that really stays behind is reported.
func dumpKeys(mgr *server.Manager, spec string) string {
	d := dumpKeysOnce(mgr, spec)
	for i := 0; i < 20 && strings.Contains(d, "#~@"); i++ {
		time.Sleep(2 * time.Millisecond)
		d = dumpKeysOnce(mgr, spec)
	}
	if spec != "*" {
		// "~@<deadline>" (deadline without value) is reported only when it persists: an expiry timer that fires between two
		// commands deletes the value and then the deadline in two steps
		for i := 0; i < 20 && strings.Contains(d, "#~@"); i++ {
			time.Sleep(time.Millisecond)
			d = dumpKeysOnce(mgr, spec)
		}
		return d
	}
	for i := 0; i < 10; i++ {
		d2 := dumpKeysOnce(mgr, spec)
		if d2 == d {
			return d
		}
		d = d2
	}
	return d
}

func dumpKeysOnce(mgr *server.Manager, spec string) string {
	db := mgr.CurrentDB
	var keys []string
	if spec == "-" {
		return "-"
	}
	full := spec == "*"
	if full {
		ks, count := db.VerifKeys()
		keys = ks
		seen := map[string]bool{}
		for _, k := range ks {
			seen[k] = true
		}
		for _, k := range db.VerifTTLKeys() {
			if !seen[k] {
				keys = append(keys, k)
			}
		}
		parts := []string{fmt.Sprintf("count=%d/%d", count, len(ks))}
		for _, k := range keys {
			parts = append(parts, "k="+hx([]byte(k))+"#"+db.VerifDumpKey(k))
		}
		return strings.Join(parts, "&")
	}
	var parts []string
	for _, kh := range strings.Split(spec, ",") {
		k := string(unhex(kh))
		parts = append(parts, "k="+kh+"#"+db.VerifDumpKey(k))
	}
	return strings.Join(parts, "&")
}

func floatAnn(argv [][]byte) string {
	var parts []string
	for i, a := range argv {
		if i == 0 || len(a) == 0 || len(a) > 40 {
			continue
		}
		if f, err := strconv.ParseFloat(string(a), 64); err == nil {
			parts = append(parts, fmt.Sprintf("%d:%016x", i, math.Float64bits(f)))
		}
	}
	if len(parts) == 0 {
		return "fl=-"
	}
	return "fl=" + strings.Join(parts, ",")
}

// replyFloatAnn: strconv.ParseFloat of every bulk string of the reply, "rf=<leaf index>:<bits>,..." (leaves numbered in flattened
// order; only bulk strings that parse are listed).  Lets the driver compare score-carrying reply positions by value.
func replyFloatAnn(d resp.RedisData) string {
	var parts []string
	idx := 0
	var walk func(d resp.RedisData, depth int)
	walk = func(d resp.RedisData, depth int) {
		if d == nil || isNilData(d) || depth > 8 {
			idx++
			return
		}
		switch v := d.(type) {
		case *resp.ArrayData:
			for _, e := range v.Data() {
				walk(e, depth+1)
			}
		case *resp.BulkData:
			b := v.Data()
			if len(b) > 0 && len(b) <= 400 {
				if f, err := strconv.ParseFloat(string(b), 64); err == nil {
					parts = append(parts, fmt.Sprintf("%d:%016x", idx, math.Float64bits(f)))
				}
			}
			idx++
		default:
			idx++
		}
	}
	walk(d, 0)
	if len(parts) == 0 {
		return "rf=-"
	}
	return "rf=" + strings.Join(parts, ",")
}

// runExec: "R [dbs]" starts a fresh server.Manager; "X <keys|*|-> <argv hex...>" executes one command on it and appends
//
//	=> <t0> <t1> <reply-hex|NIL|PANIC|HANG> <dump> fl=<float annotations of argv> rf=<float annotations of the reply>
//
// After a PANIC/HANG the rest of the program (until the next R) is answered with SKIP.
func runExec(args []string) {
	in := bufio.NewScanner(os.Stdin)
	in.Buffer(make([]byte, 1<<20), 1<<28)
	out := bufio.NewWriter(os.Stdout)
	defer out.Flush()
	var mgr *server.Manager
	dead := false
	hangs := 0
	if os.Getenv("VERIF_EVENTS") != "" {
		recorder.pass = true
		memdb.VerifEventHook = recorder.hook
	}
	evField := func(r execResult) string {
		if !recorder.pass {
			return ""
		}
		if r.ev == "" {
			return " ev=-"
		}
		return " ev=" + r.ev
	}
	// kp=<p1>,<p2>,...: the stripe position (Locks.GetKeyPos) of every argument after the command name, index-aligned with argv[1:]
	// (any of them may be a key); shipped with the event trace so that the driver can compare the locked stripes with the
	// stripes of the model footprint's keys
	kpField := func(mgr *server.Manager, argv [][]byte) string {
		if !recorder.pass {
			return ""
		}
		if len(argv) < 2 {
			return " kp=-"
		}
		parts := make([]string, 0, len(argv)-1)
		for _, a := range argv[1:] {
			parts = append(parts, strconv.Itoa(mgr.CurrentDB.VerifLockPos(string(a))))
		}
		return " kp=" + strings.Join(parts, ",")
	}
	for in.Scan() {
		line := in.Text()
		f := strings.Fields(line)
		if len(f) == 0 {
			continue
		}
		switch f[0] {
		case "R":
			dbs := 16
			if len(f) > 1 {
				dbs, _ = strconv.Atoi(f[1])
			}
			config.Configures.Databases = dbs
			mgr = server.NewManager(config.Configures)
			dead = false
			fmt.Fprintf(out, "%s\n", line)
		case "A":
			// align to a wall-clock millisecond offset within the second (next occurrence): used by the TTL batches
			want, _ := strconv.Atoi(f[1])
			now := time.Now()
			cur := int(now.UnixMilli() % 1000)
			wait := want - cur
			if wait <= 0 {
				wait += 1000
			}
			time.Sleep(time.Duration(wait) * time.Millisecond)
			if os.Getenv("VERIF_DEBUG_MS") != "" {
				fmt.Fprintf(os.Stderr, "A %d: asked at %d, now %d\n", want, now.UnixMilli()%100000, time.Now().UnixMilli()%100000)
			}
			fmt.Fprintf(out, "%s\n", line)
		case "X":
			// "@now+N" arguments are replaced by the decimal unix time + N (the echoed line carries the substituted value)
			for i := 2; i < len(f); i++ {
				a := string(unhex(f[i]))
				if strings.HasPrefix(a, "@now") {
					n, err := strconv.ParseInt(a[4:], 10, 64)
					if err == nil {
						f[i] = hx([]byte(strconv.FormatInt(time.Now().Unix()+n, 10)))
					}
				}
			}
			line = strings.Join(f, " ")
			if mgr == nil || dead || hangs >= 2 {
				// after two commands that never returned the run is cut short (each costs the 10 s watchdog): the rest is skipped
				fmt.Fprintf(out, "%s => SKIP\n", line)
				continue
			}
			argv := make([][]byte, 0, len(f)-2)
			for _, a := range f[2:] {
				argv = append(argv, unhex(a))
			}
			r := execOne(mgr, argv)
			if r.rf == "" {
				r.rf = "rf=-"
			}
			if r.reply == "PANIC" || r.reply == "HANG" {
				dead = true
				if r.reply == "HANG" {
					hangs++
				}
				fmt.Fprintf(out, "%s => %d %d %s - fl=- rf=-%s\n", line, r.t0, r.t1, r.reply, evField(r))
				out.Flush()
				continue
			}
			// the second clock reading is taken AFTER the dump: a deadline timer that fires between the command and the dump (the dump of a
			// thousand keys takes a while on a loaded machine) removes a key the model, judging at the earlier reading, still expects
			dump := dumpKeys(mgr, f[1])
			if t2 := time.Now().Unix(); t2 > r.t1 {
				r.t1 = t2
			}
			fmt.Fprintf(out, "%s => %d %d %s %s %s %s%s%s\n", line, r.t0, r.t1, r.reply, dump, floatAnn(argv), r.rf, evField(r), kpField(mgr, argv))
		case "G", "L", "LB":
			// keyspace snapshot (C08):
			//   G            => <t0> <t1> <hex of MemDb.GetSnapshot()>
			//   L            => <t0> <t1> <hex of the snapshot> ok|err <full dump>   the snapshot is loaded into a FRESH MemDb that
			//                   takes the place of the current database; the program continues on the restored keyspace
			//   LB <hex>     => <t0> <t1> ok|err <full dump>                         LoadSnapshot of arbitrary bytes into the CURRENT database
			if mgr == nil || dead || hangs >= 2 {
				fmt.Fprintf(out, "%s => SKIP\n", line)
				continue
			}
			fmt.Fprintf(out, "%s => %s\n", line, snapshotLine(mgr, f))
		}
	}
}

// snapshotLine runs one G / L / LB line; a panic inside the snapshot code is reported as PANIC (the program goes on)
func snapshotLine(mgr *server.Manager, f []string) (res string) {
	defer func() {
		if e := recover(); e != nil {
			res = fmt.Sprintf("%d %d PANIC", time.Now().Unix(), time.Now().Unix())
			if os.Getenv("VERIF_SHOWPANIC") != "" {
				fmt.Fprintln(os.Stderr, "panic:", e)
			}
		}
	}()
	t0 := time.Now().Unix()
	switch f[0] {
	case "G":
		snap, err := mgr.CurrentDB.GetSnapshot()
		t1 := time.Now().Unix()
		if err != nil {
			return fmt.Sprintf("%d %d ERR", t0, t1)
		}
		return fmt.Sprintf("%d %d %s", t0, t1, hx(snap))
	case "L":
		snap, err := mgr.CurrentDB.GetSnapshot()
		t1 := time.Now().Unix()
		if err != nil {
			return fmt.Sprintf("%d %d ERR", t0, t1)
		}
		fresh := memdb.NewMemDb()
		fresh.SubChans = mgr.DBs[0].SubChans
		verdict := "ok"
		if err := fresh.LoadSnapshot(snap); err != nil {
			verdict = "err"
		}
		for i := range mgr.DBs {
			if mgr.DBs[i] == mgr.CurrentDB {
				mgr.DBs[i] = fresh
			}
		}
		mgr.CurrentDB = fresh
		dump := dumpKeys(mgr, "*")
		if t2 := time.Now().Unix(); t2 > t1 {
			t1 = t2 // see the X line: the reading the dump is judged at is taken after the dump
		}
		return fmt.Sprintf("%d %d %s %s %s", t0, t1, hx(snap), verdict, dump)
	default:
		var data []byte
		if len(f) > 1 {
			data = unhex(f[1])
		}
		verdict := "ok"
		if err := mgr.CurrentDB.LoadSnapshot(data); err != nil {
			verdict = "err"
		}
		dump := dumpKeys(mgr, "*")
		t1 := time.Now().Unix()
		return fmt.Sprintf("%d %d %s %s", t0, t1, verdict, dump)
	}
}
