package main

import (
	"bufio"
	"context"
	"fmt"
	"math"
	"os"
	"strconv"
	"strings"
	"time"

	"github.com/innovationb1ue/RedisGO/config"
	"github.com/innovationb1ue/RedisGO/resp"
	"github.com/innovationb1ue/RedisGO/server"
)

type execResult struct {
	reply string
	t0    int64
	t1    int64
}

func execOne(mgr *server.Manager, argv [][]byte) (res execResult) {
	done := make(chan execResult, 1)
	go func() {
		var r execResult
		defer func() {
			if e := recover(); e != nil {
				r.reply = "PANIC"
				r.t1 = time.Now().Unix()
				if os.Getenv("VERIF_SHOWPANIC") != "" {
					fmt.Fprintln(os.Stderr, "panic:", e)
				}
			}
			done <- r
		}()
		r.t0 = time.Now().Unix()
		var out resp.RedisData = mgr.ExecCommand(context.Background(), argv, nil)
		r.t1 = time.Now().Unix()
		if out == nil || isNilData(out) {
			r.reply = "NIL"
		} else {
			r.reply = hx(out.ToBytes())
		}
	}()
	select {
	case r := <-done:
		return r
	case <-time.After(10 * time.Second):
		return execResult{reply: "HANG", t0: time.Now().Unix(), t1: time.Now().Unix()}
	}
}

// isNilData: a typed nil pointer inside the interface (executors return e.g. (*resp.ArrayData)(nil))
func isNilData(d resp.RedisData) (isnil bool) {
	defer func() {
		if recover() != nil {
			isnil = true
		}
	}()
	switch v := d.(type) {
	case *resp.ArrayData:
		return v == nil
	case *resp.BulkData:
		return v == nil
	case *resp.StringData:
		return v == nil
	case *resp.IntData:
		return v == nil
	case *resp.ErrorData:
		return v == nil
	case *resp.PlainData:
		return v == nil
	}
	return false
}

// dumpKeys: a full dump is repeated until two consecutive renderings agree (an expiry timer may fire in between)
func dumpKeys(mgr *server.Manager, spec string) string {
	d := dumpKeysOnce(mgr, spec)
	if spec != "*" {
		// "~@<deadline>" (deadline without value) is reported only when it persists: an expiry timer that fires between two
		// commands deletes the value and then the deadline in two steps
		for i := 0; i < 20 && strings.Contains(d, "#~@"); i++ {
			time.Sleep(time.Millisecond)
			d = dumpKeysOnce(mgr, spec)
		}
		return d
	}
	for i := 0; i < 10; i++ {
		d2 := dumpKeysOnce(mgr, spec)
		if d2 == d {
			return d
		}
		d = d2
	}
	return d
}

func dumpKeysOnce(mgr *server.Manager, spec string) string {
	db := mgr.CurrentDB
	var keys []string
	if spec == "-" {
		return "-"
	}
	full := spec == "*"
	if full {
		ks, count := db.VerifKeys()
		keys = ks
		seen := map[string]bool{}
		for _, k := range ks {
			seen[k] = true
		}
		for _, k := range db.VerifTTLKeys() {
			if !seen[k] {
				keys = append(keys, k)
			}
		}
		parts := []string{fmt.Sprintf("count=%d/%d", count, len(ks))}
		for _, k := range keys {
			parts = append(parts, "k="+hx([]byte(k))+"#"+db.VerifDumpKey(k))
		}
		return strings.Join(parts, "&")
	}
	var parts []string
	for _, kh := range strings.Split(spec, ",") {
		k := string(unhex(kh))
		parts = append(parts, "k="+kh+"#"+db.VerifDumpKey(k))
	}
	return strings.Join(parts, "&")
}

func floatAnn(argv [][]byte) string {
	var parts []string
	for i, a := range argv {
		if i == 0 || len(a) == 0 || len(a) > 40 {
			continue
		}
		if f, err := strconv.ParseFloat(string(a), 64); err == nil {
			parts = append(parts, fmt.Sprintf("%d:%016x", i, math.Float64bits(f)))
		}
	}
	if len(parts) == 0 {
		return "fl=-"
	}
	return "fl=" + strings.Join(parts, ",")
}

// runExec: "R [dbs]" starts a fresh server.Manager; "X <keys|*|-> <argv hex...>" executes one command on it and appends
//   => <t0> <t1> <reply-hex|NIL|PANIC|HANG> <dump> fl=<float annotations>
// After a PANIC/HANG the rest of the program (until the next R) is answered with SKIP.
func runExec(args []string) {
	in := bufio.NewScanner(os.Stdin)
	in.Buffer(make([]byte, 1<<20), 1<<28)
	out := bufio.NewWriter(os.Stdout)
	defer out.Flush()
	var mgr *server.Manager
	dead := false
	for in.Scan() {
		line := in.Text()
		f := strings.Fields(line)
		if len(f) == 0 {
			continue
		}
		switch f[0] {
		case "R":
			dbs := 16
			if len(f) > 1 {
				dbs, _ = strconv.Atoi(f[1])
			}
			config.Configures.Databases = dbs
			mgr = server.NewManager(config.Configures)
			dead = false
			fmt.Fprintf(out, "%s\n", line)
		case "X":
			if mgr == nil || dead {
				fmt.Fprintf(out, "%s => SKIP\n", line)
				continue
			}
			argv := make([][]byte, 0, len(f)-2)
			for _, a := range f[2:] {
				argv = append(argv, unhex(a))
			}
			r := execOne(mgr, argv)
			if r.reply == "PANIC" || r.reply == "HANG" {
				dead = true
				fmt.Fprintf(out, "%s => %d %d %s - fl=-\n", line, r.t0, r.t1, r.reply)
				out.Flush()
				continue
			}
			fmt.Fprintf(out, "%s => %d %d %s %s %s\n", line, r.t0, r.t1, r.reply, dumpKeys(mgr, f[1]), floatAnn(argv))
		}
	}
}
