package main

import (
	"fmt"
	"math"
	"sort"
	"strings"
	"time"

	"github.com/anishathalye/porcupine"
)

// Reporting only (the verdict is porcupine's on the whole key history): for a key whose history is not linearizable, find the
// FIRST reply that cannot be explained and print it with what was acknowledged just before it.
//
// The history is cut at the return instants T of the acknowledged operations: H(T) = the operations called before T, those still
// outstanding at T taken as operations with unknown outcome (reads among them dropped).  The smallest T with H(T) not linearizable
// names the culprit: the operation that returned at T.  For a stale read this is the read itself: everything before it has an
// explanation, its reply has none.

func clToOps(hist []clOp, cutoff int64) []porcupine.Operation {
	var ops []porcupine.Operation
	for _, o := range hist {
		if o.Call >= cutoff {
			continue
		}
		op := strings.ToLower(o.Cmd[0])
		arg := ""
		if len(o.Cmd) > 2 {
			arg = o.Cmd[2]
		}
		out, ret := o.Out, o.Ret
		if out != "?" && ret > cutoff {
			out, ret = "?", math.MaxInt64/2
		}
		if out == "?" && isReadOp(op) {
			continue
		}
		ops = append(ops, porcupine.Operation{ClientId: o.Client % 1000, Input: kvInput{Op: op, Arg: arg}, Call: o.Call, Output: out, Return: ret})
	}
	return ops
}

func clFmtOp(o clOp) string {
	out := strings.ReplaceAll(o.Out, "\r\n", " ")
	ret := fmt.Sprintf("%.3fs", float64(o.Ret)/1e9)
	if o.Out == "?" {
		out, ret = "(no reply: unknown outcome)", "never"
	}
	return fmt.Sprintf("client %d via node %d: %s -> %s [called %.3fs, returned %s]", o.Client, o.Node, strings.Join(o.Cmd, " "), strings.TrimSpace(out), float64(o.Call)/1e9, ret)
}

// clExplain returns a few lines: the first inexplicable reply of this key's history and its context
func clExplain(hist []clOp) []string {
	var rets []int64
	for _, o := range hist {
		if o.Out != "?" {
			rets = append(rets, o.Ret)
		}
	}
	sort.Slice(rets, func(i, j int) bool { return rets[i] < rets[j] })
	if len(rets) == 0 {
		return nil
	}
	illegal := func(i int) bool {
		return porcupine.CheckOperationsTimeout(clModel, clToOps(hist, rets[i]+1), 5*time.Second) == porcupine.Illegal
	}
	lo, hi := 0, len(rets)-1 // invariant aimed at: H(rets[hi]) illegal, H(rets[lo-1]) legal
	if !illegal(hi) {
		return nil
	}
	for lo < hi {
		mid := (lo + hi) / 2
		if illegal(mid) {
			hi = mid
		} else {
			lo = mid + 1
		}
	}
	var culprit *clOp
	for i := range hist {
		if hist[i].Out != "?" && hist[i].Ret == rets[hi] {
			culprit = &hist[i]
		}
	}
	if culprit == nil {
		return nil
	}
	lines := []string{"first reply without an explanation (the history up to the reply before it is linearizable): " + clFmtOp(*culprit)}
	var before, during []clOp
	for _, o := range hist {
		if o.Call == culprit.Call && o.Client == culprit.Client {
			continue
		}
		op := strings.ToLower(o.Cmd[0])
		if isReadOp(op) && o.Out == "?" {
			continue
		}
		switch {
		case o.Out != "?" && o.Ret < culprit.Call:
			if !isReadOp(op) {
				before = append(before, o)
			}
		case o.Call < culprit.Ret:
			during = append(during, o)
		}
	}
	sort.Slice(before, func(i, j int) bool { return before[i].Ret < before[j].Ret })
	if len(before) > 6 {
		before = before[len(before)-6:]
	}
	lines = append(lines, fmt.Sprintf("the last %d writes on this key acknowledged BEFORE it was called:", len(before)))
	for _, o := range before {
		lines = append(lines, "  "+clFmtOp(o))
	}
	sort.Slice(during, func(i, j int) bool { return during[i].Call < during[j].Call })
	if len(during) > 8 {
		during = during[len(during)-8:]
	}
	lines = append(lines, fmt.Sprintf("%d operations on this key outstanding while it ran (incl. commands that never got a reply):", len(during)))
	for _, o := range during {
		lines = append(lines, "  "+clFmtOp(o))
	}
	return lines
}
