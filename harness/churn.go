package main

import (
	"bufio"
	"encoding/json"
	"fmt"
	"math/rand"
	"net"
	"os"
	"os/exec"
	"path/filepath"
	"strconv"
	"sync"
	"sync/atomic"
	"syscall"
	"time"
)

// churn engine (C04): the REAL server binary (standalone mode) under connection churn - thousands of clients that connect and go away at once,
// with or without having sent anything, with or without reading their reply - while a few steady connections keep working.  The process
// must not exit and a fresh connection must still be served.  Added after a node of the cluster engine died with
// "panic: sync: negative WaitGroup counter" (server.Start registered a connection's worker with wg.Add(1) AFTER starting it: a worker that
// found its connection already closed called wg.Done() first).
//
//	harness churn <server-binary> <scratch-dir> <seed> <connections-per-worker> <workers>
type churnReport struct {
	Scenario string  `json:"scenario"`
	Seed     int64   `json:"seed"`
	Conns    int64   `json:"connections"`
	Steady   int64   `json:"steady_commands"`
	Result   string  `json:"result"` // ok | node-died | unavailable | start-failed
	Detail   string  `json:"detail,omitempty"`
	Seconds  float64 `json:"seconds"`
}

func runChurn(args []string) {
	bin, scratch := args[0], args[1]
	seed, _ := strconv.ParseInt(args[2], 10, 64)
	per, _ := strconv.Atoi(args[3])
	workers, _ := strconv.Atoi(args[4])
	rep := churnReport{Scenario: "connection-churn", Seed: seed}
	t0 := time.Now()
	defer func() {
		rep.Seconds = time.Since(t0).Seconds()
		json.NewEncoder(os.Stdout).Encode(rep)
	}()
	dir, err := os.MkdirTemp(scratch, "churn-")
	if err != nil {
		rep.Result, rep.Detail = "start-failed", err.Error()
		return
	}
	defer os.RemoveAll(dir)
	port := freePort()
	conf := fmt.Sprintf("host 127.0.0.1\n\nport %d\n\nlogdir %s\n\nloglevel error\n\nshardnum 64\n\ndatabases 16\n", port, dir)
	if err := os.WriteFile(filepath.Join(dir, "redis.conf"), []byte(conf), 0o644); err != nil {
		rep.Result, rep.Detail = "start-failed", err.Error()
		return
	}
	logf, _ := os.Create(filepath.Join(dir, "node.log"))
	cmd := exec.Command(bin, "--config=redis.conf")
	if cpu := os.Getenv("VERIF_CHURN_PIN"); cpu != "" {
		// all of the server's threads share ONE cpu: the kernel preempts the accept loop between any two statements far more often
		cmd = exec.Command("taskset", "-c", cpu, bin, "--config=redis.conf")
		cmd.Env = append(os.Environ(), "GOMAXPROCS=16")
	}
	cmd.Dir = dir
	cmd.Stdout, cmd.Stderr = logf, logf
	cmd.SysProcAttr = &syscall.SysProcAttr{Setpgid: true}
	if err := cmd.Start(); err != nil {
		rep.Result, rep.Detail = "start-failed", err.Error()
		return
	}
	exited := make(chan error, 1)
	go func() { exited <- cmd.Wait() }()
	defer func() {
		syscall.Kill(cmd.Process.Pid, syscall.SIGKILL)
		logf.Close()
	}()
	addr := fmt.Sprintf("127.0.0.1:%d", port)
	ping := func(timeout time.Duration) error {
		c, err := net.DialTimeout("tcp", addr, timeout)
		if err != nil {
			return err
		}
		defer c.Close()
		c.SetDeadline(time.Now().Add(timeout))
		if _, err := c.Write([]byte("*1\r\n$4\r\nPING\r\n")); err != nil {
			return err
		}
		line, err := bufio.NewReader(c).ReadString('\n')
		if err != nil {
			return err
		}
		if line != "+PONG\r\n" {
			return fmt.Errorf("PING answered %q", line)
		}
		return nil
	}
	up := false
	for try := 0; try < 100; try++ {
		if ping(time.Second) == nil {
			up = true
			break
		}
		time.Sleep(50 * time.Millisecond)
	}
	if !up {
		rep.Result, rep.Detail = "start-failed", "the server does not answer PING within 5 s: "+tailFile(filepath.Join(dir, "node.log"), 20, 3000)
		return
	}
	var conns, steady atomic.Int64
	var dead atomic.Bool
	var wg sync.WaitGroup
	stop := make(chan struct{})
	// steady connections: they must keep being served whatever the churn does
	for s := 0; s < 2; s++ {
		wg.Add(1)
		go func(s int) {
			defer wg.Done()
			c, err := net.DialTimeout("tcp", addr, 2*time.Second)
			if err != nil {
				return
			}
			defer c.Close()
			r := bufio.NewReader(c)
			for i := 0; ; i++ {
				select {
				case <-stop:
					return
				default:
				}
				c.SetDeadline(time.Now().Add(5 * time.Second))
				if _, err := fmt.Fprintf(c, "*2\r\n$4\r\nINCR\r\n$2\r\ns%d\r\n", s); err != nil {
					return
				}
				if _, err := r.ReadString('\n'); err != nil {
					return
				}
				steady.Add(1)
			}
		}(s)
	}
	var cw sync.WaitGroup
	for w := 0; w < workers; w++ {
		cw.Add(1)
		go func(w int) {
			defer cw.Done()
			rng := rand.New(rand.NewSource(seed*100 + int64(w)))
			for i := 0; i < per && !dead.Load(); i++ {
				c, err := net.DialTimeout("tcp", addr, 2*time.Second)
				if err != nil {
					time.Sleep(time.Millisecond)
					continue
				}
				conns.Add(1)
				switch rng.Intn(4) {
				case 0: // gone before anything was said
				case 1: // half a command
					c.Write([]byte("*2\r\n$3\r\nGET\r\n"))
				case 2: // a command whose reply nobody reads
					c.Write([]byte("*1\r\n$4\r\nPING\r\n"))
				default: // a full round trip
					c.SetDeadline(time.Now().Add(2 * time.Second))
					c.Write([]byte("*1\r\n$4\r\nPING\r\n"))
					bufio.NewReader(c).ReadString('\n')
				}
				if rng.Intn(3) == 0 {
					if tc, ok := c.(*net.TCPConn); ok {
						tc.SetLinger(0) // reset instead of an orderly close
					}
				}
				c.Close()
			}
		}(w)
	}
	churnDone := make(chan struct{})
	go func() { cw.Wait(); close(churnDone) }()
	select {
	case err := <-exited:
		dead.Store(true)
		close(stop)
		<-churnDone
		wg.Wait()
		rep.Conns, rep.Steady = conns.Load(), steady.Load()
		rep.Result = "node-died"
		rep.Detail = fmt.Sprintf("the server process exited on its own (%v) after %d connections had come and gone:\n%s", err, rep.Conns, tailFile(filepath.Join(dir, "node.log"), 25, 4000))
		return
	case <-churnDone:
	}
	close(stop)
	wg.Wait()
	rep.Conns, rep.Steady = conns.Load(), steady.Load()
	time.Sleep(100 * time.Millisecond)
	select {
	case err := <-exited:
		rep.Result = "node-died"
		rep.Detail = fmt.Sprintf("the server process exited on its own (%v) after %d connections had come and gone:\n%s", err, rep.Conns, tailFile(filepath.Join(dir, "node.log"), 25, 4000))
		return
	default:
	}
	if err := ping(3 * time.Second); err != nil {
		rep.Result, rep.Detail = "unavailable", "after the churn a fresh connection is not served: "+err.Error()
		return
	}
	rep.Result = "ok"
}
