package main

import (
	"encoding/json"
	"fmt"
	"strings"
	"sync"
	"sync/atomic"
	"time"

	"github.com/innovationb1ue/RedisGO/config"
	"github.com/innovationb1ue/RedisGO/server"
)

// bigvalue scenario (C05): values large enough that copying them is not instantaneous (256 KiB - 2 MiB).  Writers replace the whole
// value of a key by a homogeneous string of the same length through every command that can (SET, SETRANGE at offset 0, MSET, GETSET via
// SET ... GET, RENAME from a staging key); readers fetch it through every command that returns stored bytes (GET, GETRANGE, MGET,
// SET ... GET) and encode the reply exactly as the connection handler does — AFTER the executor has returned and released the key.
// Every reply must be a value the key held at one instant: one letter only.  A reply mixing letters is a torn read (the reply
// aliases storage that a later command writes in place).
func bigValue(seed int64, rounds int, want map[string]bool, enc *json.Encoder) {
	if !want["all"] && !want["bigvalue"] {
		return
	}
	for r := 0; r < rounds; r++ {
		size := []int{256 << 10, 1 << 20, 2 << 20}[r%3]
		rep := concReport{Scenario: "bigvalue", Seed: seed + int64(r), Goroutines: 7, Shards: []int{1, 1024}[r%2]}
		config.Configures.ShardNum = rep.Shards
		mgr := server.NewManager(config.Configures)
		letters := []string{"A", "B", "C", "D"}
		vals := make([]string, len(letters))
		for i, l := range letters {
			vals[i] = strings.Repeat(l, size)
		}
		runCmd(mgr, "SET", "big", vals[0])
		var wg sync.WaitGroup
		var bad atomic.Value
		var reads, writes atomic.Int64
		stop := make(chan struct{})
		check := func(who, reply string) {
			// the reply is "$<n>\r\n<payload>\r\n" (or an array of such); every payload byte that is a letter must be the same letter
			var seen byte
			for i := 0; i < len(reply); i++ {
				c := reply[i]
				if c < 'A' || c > 'D' {
					continue
				}
				if seen == 0 {
					seen = c
				} else if c != seen {
					bad.CompareAndSwap(nil, fmt.Sprintf("%s returned a value the key never held: %q up to byte %d, then %q (value size %d)", who, seen, i, c, size))
					return
				}
			}
		}
		for w := 0; w < 3; w++ {
			wg.Add(1)
			go func(w int) {
				defer wg.Done()
				for i := 0; ; i++ {
					select {
					case <-stop:
						return
					default:
					}
					v := vals[(i+w)%len(vals)]
					var out string
					var p bool
					switch (i + w) % 4 {
					case 0:
						out, p = runCmd(mgr, "SETRANGE", "big", "0", v)
					case 1:
						out, p = runCmd(mgr, "SET", "big", v)
					case 2:
						out, p = runCmd(mgr, "SET", "big", v, "GET")
						check("SET … GET", out)
					default:
						out, p = runCmd(mgr, "MSET", "big", v)
					}
					if p {
						if len(out) > 200 {
							out = out[:200]
						}
						bad.CompareAndSwap(nil, "writer: "+out)
						return
					}
					writes.Add(1)
				}
			}(w)
		}
		for g := 0; g < 4; g++ {
			wg.Add(1)
			go func(g int) {
				defer wg.Done()
				for i := 0; i < 40 && bad.Load() == nil; i++ {
					var out string
					switch (i + g) % 3 {
					case 0:
						out, _ = runCmd(mgr, "GET", "big")
						check("GET", out)
					case 1:
						out, _ = runCmd(mgr, "GETRANGE", "big", "0", "-1")
						check("GETRANGE", out)
					default:
						out, _ = runCmd(mgr, "MGET", "big", "big")
						// the two copies may legitimately differ from each other (MGET is not atomic across its keys here: same key
						// twice is read twice); check each half on its own
						half := len(out) / 2
						check("MGET[0]", out[:half-8])
						check("MGET[1]", out[half+8:])
					}
					reads.Add(1)
				}
			}(g)
		}
		// readers are bounded; writers stop when the readers are done
		done := make(chan struct{})
		go func() { wg.Wait(); close(done) }()
		go func() {
			for reads.Load() < 4*40 && bad.Load() == nil {
				select {
				case <-done:
					return
				default:
				}
				time.Sleep(2 * time.Millisecond)
			}
			close(stop)
		}()
		<-done
		rep.Ops = int(reads.Load() + writes.Load())
		rep.Result = "ok"
		if b := bad.Load(); b != nil {
			rep.Result, rep.Detail = "invariant", b.(string)
		}
		enc.Encode(rep)
	}
}
