//go:build !noapi

package main

import (
	"net"

	"github.com/innovationb1ue/RedisGO/memdb"
)

// The three methods of the Pub/Sub table that the API-level scenarios (handover, prune, paths) call directly.  They are the only calls of
// the harness into memdb that are not made through a command, a hook or a constructor; a change of their signatures would stop the whole
// harness from compiling.  The orchestrator then rebuilds with the tag `noapi` (psapi_reflect.go: the same calls through reflection, extra
// parameters zero), reports the broken tie and goes on to search for a failing input with every engine.
func psSubscribe(tab *memdb.ChanMap, ch string, c net.Conn) string { return tab.Subscribe(ch, c) }
func psUnSubscribe(tab *memdb.ChanMap, ch string, id string)       { tab.UnSubscribe(ch, id) }
func psSend(tab *memdb.ChanMap, ch string, msg string) int         { return tab.Send(ch, msg) }
