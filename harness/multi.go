package main

import (
	"bufio"
	"context"
	"encoding/json"
	"fmt"
	"io"
	"log"
	"net"
	"os"
	"strconv"
	"strings"
	"time"

	"github.com/innovationb1ue/RedisGO/config"
	"github.com/innovationb1ue/RedisGO/raftexample"
	"github.com/innovationb1ue/RedisGO/resp"
	"github.com/innovationb1ue/RedisGO/server"
	"go.etcd.io/etcd/raft/v3/raftpb"
)

// multi engine (C07, cross-node composition): M = 2..3 REAL Manager instances in one process - each with its own keyspace, its own
// callback map, its own proposeC / commitC, its own handleClusterCommits goroutine (hook H3 VerifHandleClusterCommits) and its own
// client connections served by the REAL Manager.HandleCluster (VerifHandleCluster, one goroutine per connection over net.Pipe) -
// sharing ONE replicated log that the harness owns.  The harness plays raft for all of them: it collects the proposals of all
// nodes, appends them to the shared log in the order the generator dictates (reordered across nodes, delayed) and hands the
// committed entries to every node's commit channel INDEPENDENTLY (different batch sizes, a node lagging far behind and catching
// up).  These are exactly the events of the Lean model Cluster/Multi.lean: submit at node i / (raft appends) / node i applies its
// next entry / client receives.  The proposal ids are the ones the real code generates (uuid.NewString).
//
//   MZ new <M>                       M fresh Managers (1 database each), channels, callback maps, apply loops
//   MZ w <node> <conn> <cmd> ...     the client of connection <conn> of node <node> (opened on first use) writes these commands in one
//                                    write (a pipeline); <cmd> = arguments in hex joined by ':' ("-" = empty argument)
//   MZ a <node>.<conn> ...           raft appends the outstanding proposals of these connections to the shared log, in this order
//   MZ d <node> <k> [| <k> ...]      node <node> is handed its next entries of the shared log: one RaftCommit of <k> entries per
//                                    '|'-separated group, back to back on its commitC; every ApplyDoneC is awaited.  Every entry
//                                    goes through RaftProposal.ToBytes and json.Unmarshal anew for every node (propose/publishEntries)
//   MZ k <node>                      full keyspace dump of the node (hook H1) and its applied count
//   MZ end                           quiescence: anything still arriving is collected; per node the number of registered ids
//
// Output: the line, " => ", then the events in the order the harness observed them (per connection that is the real order):
//   p:<node>.<conn>:<id>     node's raft received a proposal with this id; it is the next command of that connection
//   r:<node>.<conn> <hex>    the client received one complete RESP value (two fields)
//   dump:<node>:<applied> <dump>
//   reg:<node>:<n>           ids registered in the node's callback map
//   x:<what>                 the harness gave up: hang, nolabel:<item>, unmatched:<node>:<id>, closed:<conn>, short:<node>;
//                            broken = a reply arrived for a proposal whose entry its node was never handed (or the scenario hung):
//                            the remaining lines of the scenario are answered "x:skipped" without being run

type mzNode struct {
	id       int
	mgr      *server.Manager
	proposeC chan *raftexample.RaftProposal
	confC    chan raftpb.ConfChangeI
	commitC  chan *raftexample.RaftCommit
	errorC   chan error
	callback map[string]chan resp.RedisData
	applied  int
}

type mzConn struct {
	id       string // "<node>.<conn>"
	node     int
	cli      net.Conn
	writeQ   chan []byte
	fifo     [][][]byte
	inflight *raftexample.RaftProposal
	appended bool
}

type mzProp struct {
	node int
	p    *raftexample.RaftProposal
}

type mzEntry struct {
	p     *raftexample.RaftProposal
	owner string
}

type mzWorld struct {
	ctx    context.Context
	cancel context.CancelFunc
	nodes  []*mzNode
	conns  map[string]*mzConn
	order  []string
	msgs   chan rzMsg
	props  chan mzProp
	slog   []mzEntry
	stash  []mzProp
	await  map[string]bool
	broken bool // something arrived that cannot arrive (a reply for a proposal whose entry its node was not handed): the rest of the scenario is skipped
}

var mzHangs int // scenarios given up so far in this process; after a few, waiting is cut short

func mzNew(m int) *mzWorld {
	w := &mzWorld{conns: map[string]*mzConn{}, await: map[string]bool{}}
	config.Configures.Databases = 1
	w.ctx, w.cancel = context.WithCancel(context.Background())
	w.msgs = make(chan rzMsg, 4096)
	w.props = make(chan mzProp)
	for i := 1; i <= m; i++ {
		n := &mzNode{id: i}
		n.mgr = server.NewManager(config.Configures)
		n.proposeC = make(chan *raftexample.RaftProposal) // unbuffered, as in server.Start
		n.confC = make(chan raftpb.ConfChangeI)
		n.commitC = make(chan *raftexample.RaftCommit) // unbuffered, as in raftexample.NewRaftNode
		n.errorC = make(chan error)
		n.callback = make(map[string]chan resp.RedisData)
		w.nodes = append(w.nodes, n)
		go func() {
			defer func() { recover() }()
			server.VerifHandleClusterCommits(w.ctx, n.commitC, n.confC, n.mgr, n.callback, n.errorC, func() error { return nil })
		}()
		// the node's raft: takes the proposal off proposeC (serveChannels) and hands it to the harness
		props, ctx := w.props, w.ctx
		go func() {
			for {
				select {
				case p, ok := <-n.proposeC:
					if !ok {
						return
					}
					select {
					case props <- mzProp{n.id, p}:
					case <-ctx.Done():
						return
					}
				case <-ctx.Done():
					return
				}
			}
		}()
	}
	return w
}

func (w *mzWorld) close() {
	w.cancel()
	for _, c := range w.conns {
		c.cli.Close()
		close(c.writeQ)
	}
	for _, n := range w.nodes {
		close(n.commitC)
		close(n.errorC)
	}
}

func (w *mzWorld) node(s string) *mzNode {
	i, err := strconv.Atoi(s)
	if err != nil || i < 1 || i > len(w.nodes) {
		return nil
	}
	return w.nodes[i-1]
}

func (w *mzWorld) conn(n *mzNode, cid string) *mzConn {
	id := fmt.Sprintf("%d.%s", n.id, cid)
	if c, ok := w.conns[id]; ok {
		return c
	}
	cli, srv := net.Pipe()
	c := &mzConn{id: id, node: n.id, cli: cli, writeQ: make(chan []byte, 1024)}
	w.conns[id] = c
	w.order = append(w.order, id)
	go func() {
		defer func() { recover() }()
		server.VerifHandleCluster(w.ctx, n.mgr, srv, n.proposeC, n.confC, n.callback)
	}()
	go func() {
		for p := range c.writeQ {
			cli.SetWriteDeadline(time.Now().Add(30 * time.Second))
			if _, err := cli.Write(p); err != nil {
				return
			}
		}
	}()
	msgs := w.msgs
	go func() {
		r := bufio.NewReader(cli)
		for {
			v, err := rzReadValue(r)
			if err != nil {
				msgs <- rzMsg{conn: id}
				return
			}
			msgs <- rzMsg{conn: id, data: v}
		}
	}()
	return c
}

// attribute a proposal that arrived at node n's raft to the one idle connection OF THAT NODE whose next written command it is
func (w *mzWorld) attribute(mp mzProp, ev *[]string) bool {
	var cand []*mzConn
	for _, id := range w.order {
		c := w.conns[id]
		if c.node == mp.node && c.inflight == nil && len(c.fifo) > 0 && rzSameArgs(c.fifo[0], mp.p.Args) {
			cand = append(cand, c)
		}
	}
	if len(cand) != 1 {
		return false
	}
	c := cand[0]
	c.inflight = mp.p
	c.appended = false
	c.fifo = c.fifo[1:]
	*ev = append(*ev, "p:"+c.id+":"+mp.p.ID)
	return true
}

func (w *mzWorld) retryStash(ev *[]string) {
	var keep []mzProp
	for _, mp := range w.stash {
		if !w.attribute(mp, ev) {
			keep = append(keep, mp)
		}
	}
	w.stash = keep
}

func (w *mzWorld) onMsg(m rzMsg, ev *[]string) {
	c := w.conns[m.conn]
	if m.data == nil {
		*ev = append(*ev, "x:closed:"+m.conn)
		c.fifo = nil
		return
	}
	*ev = append(*ev, "r:"+m.conn+" "+hx(m.data))
	if c.inflight != nil && !w.await[c.id] {
		w.broken = true
	}
	if c.inflight != nil {
		c.inflight = nil
		delete(w.await, m.conn)
	} else if len(c.fifo) > 0 {
		c.fifo = c.fifo[1:] // answered without a proposal (refused by the cluster filter)
	}
	w.retryStash(ev)
}

func (w *mzWorld) settle(ev *[]string, applied <-chan struct{}, nbatches int) {
	wait := 6 * time.Second
	if mzHangs >= 3 {
		wait = 300 * time.Millisecond
	}
	deadline := time.After(wait)
	for {
		if w.broken {
			// collect what is on its way, then stop judging this scenario
			grace := time.After(20 * time.Millisecond)
			for {
				select {
				case m := <-w.msgs:
					w.onMsg(m, ev)
					continue
				case <-grace:
				}
				break
			}
			*ev = append(*ev, "x:broken")
			return
		}
		busy := nbatches > 0 || len(w.await) > 0 || len(w.stash) > 0
		if !busy {
			for _, id := range w.order {
				c := w.conns[id]
				if c.inflight == nil && len(c.fifo) > 0 {
					busy = true
				}
			}
		}
		if !busy {
			return
		}
		select {
		case mp := <-w.props:
			if !w.attribute(mp, ev) {
				w.stash = append(w.stash, mp)
			}
		case m := <-w.msgs:
			w.onMsg(m, ev)
		case <-applied:
			nbatches--
		case <-deadline:
			*ev = append(*ev, "x:hang")
			mzHangs++
			w.broken = true
			for _, mp := range w.stash {
				*ev = append(*ev, fmt.Sprintf("x:unmatched:%d:%s", mp.node, mp.p.ID))
			}
			w.stash = nil
			w.await = map[string]bool{}
			for _, c := range w.conns {
				c.fifo = nil
			}
			return
		}
	}
}

func runMultiNode(args []string) {
	log.SetOutput(io.Discard)
	in := bufio.NewScanner(os.Stdin)
	in.Buffer(make([]byte, 1<<20), 1<<26)
	out := bufio.NewWriter(os.Stdout)
	defer out.Flush()
	var w *mzWorld
	for in.Scan() {
		line := in.Text()
		f := strings.Fields(line)
		if len(f) < 2 || f[0] != "MZ" {
			continue
		}
		var ev []string
		if w != nil && w.broken && f[1] != "new" {
			fmt.Fprintf(out, "%s => x:skipped\n", line)
			out.Flush()
			continue
		}
		if w != nil {
			for drained := false; !drained; {
				select {
				case m := <-w.msgs:
					w.onMsg(m, &ev)
				default:
					drained = true
				}
			}
		}
		switch f[1] {
		case "new":
			if w != nil {
				w.close()
			}
			m, _ := strconv.Atoi(f[2])
			w = mzNew(m)
		case "w":
			n := w.node(f[2])
			if n == nil {
				ev = append(ev, "x:nolabel:"+f[2])
				break
			}
			c := w.conn(n, f[3])
			var payload []byte
			for _, tok := range f[4:] {
				argv := rzCmd(tok)
				c.fifo = append(c.fifo, argv)
				payload = append(payload, rzEncode(argv)...)
			}
			c.writeQ <- payload
			w.settle(&ev, nil, 0)
		case "a":
			for _, it := range f[2:] {
				c, ok := w.conns[it]
				if !ok || c.inflight == nil || c.appended {
					ev = append(ev, "x:nolabel:"+it)
					continue
				}
				c.appended = true
				w.slog = append(w.slog, mzEntry{p: c.inflight, owner: c.id})
			}
		case "d":
			n := w.node(f[2])
			if n == nil {
				ev = append(ev, "x:nolabel:"+f[2])
				break
			}
			var send []*raftexample.RaftCommit
			applied := make(chan struct{}, len(f))
			nb := 0
			for _, ks := range f[3:] {
				if ks == "|" {
					continue
				}
				k, _ := strconv.Atoi(ks)
				var batch []*raftexample.RaftProposal
				for ; k > 0; k-- {
					if n.applied >= len(w.slog) {
						ev = append(ev, fmt.Sprintf("x:short:%d", n.id))
						break
					}
					e := w.slog[n.applied]
					n.applied++
					// what raft does with it: the bytes of the log entry, decoded again by this node's publishEntries
					var q raftexample.RaftProposal
					if err := json.Unmarshal(e.p.ToBytes(), &q); err != nil {
						panic(err)
					}
					batch = append(batch, &q)
					if c := w.conns[e.owner]; c.node == n.id && c.inflight == e.p {
						w.await[c.id] = true
					}
				}
				if len(batch) == 0 {
					continue
				}
				nb++
				done := make(chan struct{}, 1)
				send = append(send, &raftexample.RaftCommit{Data: batch, ApplyDoneC: done})
				go func() { <-done; applied <- struct{}{} }()
			}
			commitC := n.commitC
			go func() {
				defer func() { recover() }()
				for _, rc := range send {
					commitC <- rc
				}
			}()
			w.settle(&ev, applied, nb)
		case "k":
			n := w.node(f[2])
			if n == nil {
				ev = append(ev, "x:nolabel:"+f[2])
				break
			}
			ev = append(ev, fmt.Sprintf("dump:%d:%d %s", n.id, n.applied, dumpKeys(n.mgr, "*")))
		case "end":
			grace := time.After(15 * time.Millisecond)
			for done := false; !done; {
				select {
				case m := <-w.msgs:
					w.onMsg(m, &ev)
				case mp := <-w.props:
					ev = append(ev, fmt.Sprintf("x:unmatched:%d:%s", mp.node, mp.p.ID))
				case <-grace:
					done = true
				}
			}
			for _, n := range w.nodes {
				ev = append(ev, fmt.Sprintf("reg:%d:%d", n.id, server.VerifCallbackRegistered(n.callback)))
			}
		}
		fmt.Fprintf(out, "%s => %s\n", line, strings.Join(ev, " "))
		out.Flush()
	}
	if w != nil {
		w.close()
	}
}
