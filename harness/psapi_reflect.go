//go:build noapi

package main

import (
	"fmt"
	"net"
	"reflect"

	"github.com/innovationb1ue/RedisGO/memdb"
)

// see psapi.go: the same three calls by name; parameters the harness does not know are passed as zero values, results are read by kind
func psCall(tab *memdb.ChanMap, name string, known ...interface{}) []reflect.Value {
	m := reflect.ValueOf(tab).MethodByName(name)
	if !m.IsValid() {
		panic(fmt.Sprintf("memdb.ChanMap has no method %s any more", name))
	}
	t := m.Type()
	args := make([]reflect.Value, 0, t.NumIn())
	k := 0
	for i := 0; i < t.NumIn(); i++ {
		if k < len(known) && reflect.TypeOf(known[k]).AssignableTo(t.In(i)) {
			args = append(args, reflect.ValueOf(known[k]))
			k++
		} else if k < len(known) && reflect.TypeOf(known[k]).ConvertibleTo(t.In(i)) && t.In(i).Kind() != reflect.Interface {
			args = append(args, reflect.ValueOf(known[k]).Convert(t.In(i)))
			k++
		} else {
			args = append(args, reflect.Zero(t.In(i)))
		}
	}
	return m.Call(args)
}

func psSubscribe(tab *memdb.ChanMap, ch string, c net.Conn) string {
	for _, r := range psCall(tab, "Subscribe", ch, c) {
		if r.Kind() == reflect.String {
			return r.String()
		}
	}
	return ""
}

func psUnSubscribe(tab *memdb.ChanMap, ch string, id string) { psCall(tab, "UnSubscribe", ch, id) }

func psSend(tab *memdb.ChanMap, ch string, msg string) int {
	for _, r := range psCall(tab, "Send", ch, msg) {
		if r.Kind() == reflect.Int {
			return int(r.Int())
		}
	}
	return -1
}
