package main

import (
	"encoding/json"
	"fmt"
	"strings"
	"sync"
	"sync/atomic"
	"time"

	"github.com/innovationb1ue/RedisGO/config"
	"github.com/innovationb1ue/RedisGO/server"
)

// counters (C10, C01, C05): numeric values that oscillate across a digit or sign boundary while other clients read them in bulk.  A hash of 3000 fields and 600 string
// keys each hold a number from a two-element orbit (99 <-> 100, -1 <-> 0, 9.5 <-> 10 for HINCRBYFLOAT); writers step every counter up and down, each step acknowledged
// before the next, so at every instant a counter holds one of its two values; readers list them all (HVALS / HGETALL / HMGET of hundreds of fields / MGET of hundreds of
// keys).  Every value a reader is given must be one of the two the counter ever held - read "as of" some instant - and nothing may crash.  A reply that refers to the
// stored bytes, rewritten in place by a later increment while the reply is being encoded (seeded change C10-hincrby-inplace-buffer-reader-race: 99 -> 100 read as "10",
// 100 -> 99 as "990"), is a value the field never held.
func counters(seed int64, rounds int, want map[string]bool, enc *json.Encoder) {
	if !want["all"] && !want["counters"] {
		return
	}
	type orbit struct {
		lo, hi string
		up, dn []string // command tails after the key/field
	}
	orbits := []orbit{
		{"99", "100", []string{"1"}, []string{"-1"}},
		{"-1", "0", []string{"1"}, []string{"-1"}},
		{"999", "1000", []string{"1"}, []string{"-1"}},
		{"9", "10", []string{"1"}, []string{"-1"}},
	}
	for r := 0; r < rounds; r++ {
		rep := concReport{Scenario: "counters", Seed: seed + int64(r), Goroutines: 6, Shards: []int{1024, 1}[r%2]}
		config.Configures.ShardNum = rep.Shards
		mgr := server.NewManager(config.Configures)
		const nf, nk = 3000, 600
		valid := map[string]map[string]bool{}
		args := []string{"HSET", "cnt"}
		for i := 0; i < nf; i++ {
			o := orbits[i%len(orbits)]
			f := fmt.Sprintf("f%04d", i)
			args = append(args, f, o.lo)
			valid[f] = map[string]bool{o.lo: true, o.hi: true}
		}
		runCmd(mgr, args...)
		var keys []string
		for i := 0; i < nk; i++ {
			o := orbits[i%len(orbits)]
			k := fmt.Sprintf("n%04d", i)
			runCmd(mgr, "SET", k, o.lo)
			keys = append(keys, k)
			valid[k] = map[string]bool{o.lo: true, o.hi: true}
		}
		runCmd(mgr, "HSET", "fl", "x", "9.5")
		var bad atomic.Value
		var reads atomic.Int64
		stop := make(chan struct{})
		var wg sync.WaitGroup
		writer := func(body func(up bool, i int) (string, bool)) {
			wg.Add(1)
			go func() {
				defer wg.Done()
				for pass := 0; ; pass++ {
					for i := 0; i < nf; i++ {
						select {
						case <-stop:
							return
						default:
						}
						if out, p := body(pass%2 == 0, i); p || strings.HasPrefix(out, "-") {
							bad.CompareAndSwap(nil, "a counter step was refused or panicked: "+out)
							return
						}
					}
				}
			}()
		}
		writer(func(up bool, i int) (string, bool) {
			d := "1"
			if !up {
				d = "-1"
			}
			return runCmd(mgr, "HINCRBY", "cnt", fmt.Sprintf("f%04d", i), d)
		})
		writer(func(up bool, i int) (string, bool) {
			k := keys[i%nk]
			if i >= nk {
				return "+skip", false // one step per key and pass
			}
			if up {
				return runCmd(mgr, "INCR", k)
			}
			return runCmd(mgr, "DECR", k)
		})
		flUp := true // 9.5 -> 10 -> 9.5 ...: one writer, alternating
		writer(func(_ bool, i int) (string, bool) {
			if i%50 != 0 {
				return "+skip", false
			}
			d := "0.5"
			if !flUp {
				d = "-0.5"
			}
			flUp = !flUp
			return runCmd(mgr, "HINCRBYFLOAT", "fl", "x", d)
		})
		check := func(who string, names []string, vals []string) {
			for j, v := range vals {
				if !valid[names[j]][v] {
					var both []string
					for x := range valid[names[j]] {
						both = append(both, x)
					}
					bad.CompareAndSwap(nil, fmt.Sprintf("%s returned %q for %s, which only ever held one of %v (each step acknowledged before the next)", who, v, names[j], both))
					return
				}
			}
		}
		for g := 0; g < 3; g++ {
			wg.Add(1)
			go func(g int) {
				defer wg.Done()
				for i := 0; i < 25 && bad.Load() == nil; i++ {
					switch (i + g) % 4 {
					case 0:
						out, p := runCmd(mgr, "HGETALL", "cnt")
						items, ok := flatBulks(out)
						if p || !ok || len(items) != 2*nf {
							bad.CompareAndSwap(nil, fmt.Sprintf("HGETALL cnt: panic=%v, %d items (%d expected)", p, len(items), 2*nf))
							return
						}
						names, vals := make([]string, nf), make([]string, nf)
						for j := 0; j < nf; j++ {
							names[j], vals[j] = items[2*j], items[2*j+1]
						}
						check("HGETALL cnt", names, vals)
					case 1:
						out, p := runCmd(mgr, "HVALS", "cnt")
						items, ok := flatBulks(out)
						if p || !ok || len(items) != nf {
							bad.CompareAndSwap(nil, fmt.Sprintf("HVALS cnt: panic=%v, %d items (%d expected)", p, len(items), nf))
							return
						}
						for _, v := range items {
							if v != "99" && v != "100" && v != "-1" && v != "0" && v != "999" && v != "1000" && v != "9" && v != "10" {
								bad.CompareAndSwap(nil, fmt.Sprintf("HVALS cnt returned %q, a value no field ever held", v))
								return
							}
						}
					case 2:
						names := make([]string, 0, 500)
						for j := 0; j < 500; j++ {
							names = append(names, fmt.Sprintf("f%04d", (j*7+i*13)%nf))
						}
						out, p := runCmd(mgr, append([]string{"HMGET", "cnt"}, names...)...)
						items, ok := flatBulks(out)
						if p || !ok || len(items) != len(names) {
							bad.CompareAndSwap(nil, fmt.Sprintf("HMGET cnt <500 fields>: panic=%v, %d items", p, len(items)))
							return
						}
						check("HMGET cnt", names, items)
					default:
						out, p := runCmd(mgr, append([]string{"MGET"}, keys...)...)
						items, ok := flatBulks(out)
						if p || !ok || len(items) != nk {
							bad.CompareAndSwap(nil, fmt.Sprintf("MGET <600 keys>: panic=%v, %d items", p, len(items)))
							return
						}
						check("MGET", keys, items)
					}
					if out, _ := runCmd(mgr, "HGET", "fl", "x"); out != "$3\r\n9.5\r\n" && out != "$2\r\n10\r\n" {
						bad.CompareAndSwap(nil, fmt.Sprintf("HGET fl x answered %q; the field only ever held 9.5 or 10", out))
						return
					}
					reads.Add(1)
				}
			}(g)
		}
		go func() {
			for reads.Load() < 75 && bad.Load() == nil {
				select {
				case <-stop:
					return
				default:
				}
				time.Sleep(2 * time.Millisecond)
			}
			close(stop)
		}()
		wg.Wait()
		rep.Ops = int(reads.Load())
		rep.Result = "ok"
		if b := bad.Load(); b != nil {
			rep.Result, rep.Detail = "not-linearizable", b.(string)
		}
		enc.Encode(rep)
	}
}
