package main

// raftsim — lock-step tie between etcd's raft.RawNode and the Lean handler RS.handle (property C15).
//
// n RawNodes over MemoryStorage with raftexample's Config are driven by a seeded adversarial scheduler
// (tick / campaign / propose / deliver-any-message-of-the-pool / drop / duplicate / partition / crash / restart /
// compact).  After every RawNode call the Ready is drained the way raftexample does (persist HardState, snapshot,
// entries; collect messages; Advance).  One trace line per event:
//
//   E <kind> <node> <inputs> <term> <vote> <role> <lead> <commit> <log> <match> <votes> <out>
//
// <inputs> is the list (';'-separated) of MODEL inputs the event amounts to, in the order etcd performs them
// (hup | prop:<v> | selfAck | beat | restart | noop | recv:<msg> | recvprop:<msg> | recvhbresp:<msg>),
// the next eight fields are the node's projection after the event, <out> every message emitted during it.
// Index shift: the storage starts from a snapshot (index 1, term 0) carrying only the ConfState, so
// model index = etcd index - 1 in logs and in every message field.
//
// The four safety predicates of C15 are also evaluated directly on the RawNodes' states after every event
// (`SAFETY-VIOLATION ...`); that is the failing-schedule search.

import (
	"bufio"
	"errors"
	"flag"
	"fmt"
	"io"
	"log"
	"math"
	"math/rand"
	"os"
	"reflect"
	"sort"
	"strconv"
	"strings"
	"sync"
	_ "unsafe"

	"go.etcd.io/etcd/raft/v3"
	"go.etcd.io/etcd/raft/v3/quorum"
	pb "go.etcd.io/etcd/raft/v3/raftpb"
	"go.etcd.io/etcd/raft/v3/tracker"
)

// etcd draws the randomised election timeout from a package-level PRNG seeded with the wall clock; the harness
// re-seeds it (linkname, no etcd source change) so that a schedule is reproducible from its seed.
type lockedRand struct {
	mu   sync.Mutex
	rand *rand.Rand
}

//go:linkname raftGlobalRand go.etcd.io/etcd/raft/v3.globalRand
var raftGlobalRand *lockedRand

type ent struct{ term, pid uint64 }

type simNode struct {
	id      uint64
	rn      *raft.RawNode
	ms      *raft.MemoryStorage
	shadow  []ent // the full log (model index k+1 = shadow[k]); survives Storage.Compact
	applied uint64
	down    bool
	removed bool         // Stage D: applied its own removal (raftexample shuts the node down)
	pendRd  *raft.Ready  // profile deferAdv: a Ready that was handled (persisted, messages collected, entries applied) and not yet Advance()d
	pendAck bool         // ... whose Advance will step the leader's self-acknowledgement
	conf    pb.ConfState // Stage D: result of the last ApplyConfChange
	hist    []confRec    // Stage D: the ConfState after every applied conf change, by index (a snapshot at index c carries the ConfState as of c)
	// history for the safety predicates
	hTerm, hCommit, hVoteTerm, hVote uint64
	hPrefix                          []ent
}

type confRec struct {
	idx uint64
	cs  pb.ConfState
}

// the configuration as of index c
func (nd *simNode) confAt(c uint64) pb.ConfState {
	cs := nd.hist[0].cs
	for _, r := range nd.hist {
		if r.idx <= c {
			cs = r.cs
		}
	}
	return cs
}

func (nd *simNode) recordConf(idx uint64, cs pb.ConfState) {
	k := 0
	for k < len(nd.hist) && nd.hist[k].idx < idx {
		k++
	}
	nd.hist = append(nd.hist[:k:k], confRec{idx, cs})
}

type profile struct {
	name                                                          string
	wTick, wDeliver, wDrop, wPropose, wCampaign, wCrash, wCompact int
	pDup                                                          float64
	partition                                                     int // re-draw the partition every this many events (0: never)
	pHeal                                                         float64
	lag                                                           bool // keep one follower cut off for long stretches (forces MsgSnap after compaction)
	paged                                                         bool // MaxSizePerMsg = 0: at most one entry per MsgApp (acks of old-term indexes, partial appends)
	member                                                        int  // Stage D: weight of add/remove/promote events; such schedules are checked by the safety predicates only
	lazy                                                          bool // Stage D only: an event handles ONE Ready/Advance cycle with probability 1/2 and leaves the rest pending (the application's
	// ticks and steps interleave with its apply pages, as raftexample's select loop does); never used for lock-step profiles
	applyPaged bool // Config.MaxCommittedSizePerReady = 1 byte: committed entries are handed to the application one per Ready (replication itself unpaged)
	batch      bool // Stage D only: every membership proposal is one MsgProp carrying 2-3 conf-change entries
	mlock      bool // Stage D: the schedule is replayed event by event on the config-aware handler RHC.handleC (lean/RaftDriver.lean)
	grow       bool // Stage D only: the cluster starts with node 1 as its only voter and grows by AddNode (the usual way a cluster is built)
	deferAdv   bool // lock-step profiles: with probability 1/3 a handled Ready is NOT advanced at once - the next input of that node (message, tick,
	// proposal, campaign) is stepped first and Advance follows it, as etcd's node.run does between `readyc <- rd` and `<-advancec` (the application is
	// still persisting while the node goroutine keeps receiving).  Added after the seeded change C15-unstable-inplace-truncate: a conflicting append that
	// arrives in that window rewrote the outstanding Ready's entries in place.
	sized bool // entries of very different sizes (payload left-padded with zeros) under MaxSizePerMsg = 64 bytes: the size cut of a catch-up append falls between
	// a small and a large stable entry while a freshly proposed entry is still unstable (seeded change C15-slice-hole-after-maxsize-cut); with deferAdv the
	// LEADER's handled Ready may also stay un-advanced across deliveries that cannot grow its log (anything but a proposal)
	script  bool // deferAdv only, 5 nodes: the schedule starts with a scripted prologue (scriptConflictInsideReady), then continues at random
	prevote bool // Config.PreVote (+CheckQuorum): library features raftexample leaves off; outside the model, safety predicates only
	report int // step 8: weight of transport reports on a leader's RawNode - ReportSnapshot(id, SnapshotFinish | SnapshotFailure) and ReportUnreachable(id), as
	// rafthttp makes them; besides, a MsgSnap that was just emitted is reported (finished or failed) BEFORE it is delivered with probability 0.6, half of the
	// time followed at once by a heartbeat that overtakes it; half of the schedules with n >= 3 start with the prologue scriptSnapReport.  Replayed on
	// RS.handle's inputs snapStatus / unreachable (Match must not move) and RS.reportProg (the whole Progress record before/after the report)
	joint   bool // Stage D step 7 (with mlock): membership proposals are ConfChangeV2 of every shape (single change, EnterJoint explicit / with automatic
	// leave, LeaveJoint) next to the legacy ConfChange; the schedule is replayed event by event on the joint handler RHJ.handleJ (header RJ)
}

var profiles = []profile{
	{name: "calm", wTick: 25, wDeliver: 60, wDrop: 1, wPropose: 10, wCampaign: 1, wCrash: 1, wCompact: 2, pDup: 0.02},
	{name: "lossy", wTick: 25, wDeliver: 45, wDrop: 15, wPropose: 8, wCampaign: 2, wCrash: 1, wCompact: 2, pDup: 0.25},
	{name: "partition", wTick: 30, wDeliver: 50, wDrop: 3, wPropose: 8, wCampaign: 2, wCrash: 1, wCompact: 2, pDup: 0.1, partition: 40, pHeal: 0.35},
	{name: "churn", wTick: 22, wDeliver: 45, wDrop: 5, wPropose: 8, wCampaign: 8, wCrash: 8, wCompact: 2, pDup: 0.1},
	{name: "snap", wTick: 22, wDeliver: 50, wDrop: 2, wPropose: 14, wCampaign: 1, wCrash: 2, wCompact: 9, pDup: 0.05, lag: true},
	{name: "paged", wTick: 22, wDeliver: 52, wDrop: 4, wPropose: 12, wCampaign: 4, wCrash: 3, wCompact: 2, pDup: 0.15, paged: true},
	{name: "paged-partition", wTick: 25, wDeliver: 50, wDrop: 3, wPropose: 12, wCampaign: 3, wCrash: 2, wCompact: 2, pDup: 0.1, partition: 35, pHeal: 0.4, paged: true},
	{name: "member", wTick: 22, wDeliver: 55, wDrop: 3, wPropose: 8, wCampaign: 3, wCrash: 2, wCompact: 2, pDup: 0.1, member: 6, mlock: true},
	{name: "member-partition", wTick: 24, wDeliver: 50, wDrop: 4, wPropose: 8, wCampaign: 3, wCrash: 2, wCompact: 2, pDup: 0.15, partition: 40, pHeal: 0.4, member: 6, mlock: true},
	{name: "member-paged", wTick: 15, wDeliver: 70, wDrop: 1, wPropose: 12, wCampaign: 2, wCrash: 4, wCompact: 0, pDup: 0.05, applyPaged: true, member: 6, lazy: true, grow: true},
	{name: "member-paged-partition", wTick: 18, wDeliver: 62, wDrop: 2, wPropose: 12, wCampaign: 3, wCrash: 4, wCompact: 0, pDup: 0.1, partition: 40, pHeal: 0.4, applyPaged: true, member: 6, lazy: true, grow: true},
	{name: "member-batch-partition", wTick: 22, wDeliver: 50, wDrop: 4, wPropose: 8, wCampaign: 6, wCrash: 2, wCompact: 1, pDup: 0.1, partition: 25, pHeal: 0.35, member: 12, batch: true},
	{name: "defer-churn", wTick: 20, wDeliver: 48, wDrop: 5, wPropose: 12, wCampaign: 8, wCrash: 3, wCompact: 2, pDup: 0.15, deferAdv: true},
	{name: "defer-partition", wTick: 24, wDeliver: 50, wDrop: 3, wPropose: 14, wCampaign: 4, wCrash: 2, wCompact: 2, pDup: 0.1, partition: 30, pHeal: 0.4, deferAdv: true},
	{name: "defer-sized", wTick: 20, wDeliver: 55, wDrop: 3, wPropose: 16, wCampaign: 2, wCrash: 2, wCompact: 1, pDup: 0.05, lag: true, deferAdv: true, sized: true},
	{name: "defer-script", wTick: 22, wDeliver: 52, wDrop: 3, wPropose: 12, wCampaign: 3, wCrash: 2, wCompact: 2, pDup: 0, partition: 45, pHeal: 0.4, deferAdv: true, script: true},
	{name: "reorder", wTick: 12, wDeliver: 40, wDrop: 2, wPropose: 10, wCampaign: 5, wCrash: 2, wCompact: 2, pDup: 0.5},
	{name: "prevote-reorder", wTick: 14, wDeliver: 38, wDrop: 3, wPropose: 8, wCampaign: 10, wCrash: 2, wCompact: 1, pDup: 0.5, prevote: true},
	{name: "prevote-partition", wTick: 25, wDeliver: 45, wDrop: 4, wPropose: 8, wCampaign: 8, wCrash: 2, wCompact: 1, pDup: 0.3, partition: 30, pHeal: 0.4, prevote: true},
}

// profiles selected by name only (-profile): they do not take part in the round-robin of runRaftsim
var soloProfiles = []profile{
	{name: "snap-report", wTick: 22, wDeliver: 48, wDrop: 2, wPropose: 14, wCampaign: 1, wCrash: 3, wCompact: 9, pDup: 0.05, lag: true, report: 8},
	{name: "snap-report-partition", wTick: 24, wDeliver: 46, wDrop: 3, wPropose: 14, wCampaign: 3, wCrash: 3, wCompact: 9, pDup: 0.1, partition: 40, pHeal: 0.4, report: 8},
	{name: "member-joint", wTick: 22, wDeliver: 55, wDrop: 3, wPropose: 8, wCampaign: 3, wCrash: 2, wCompact: 2, pDup: 0.1, member: 8, mlock: true, joint: true},
	{name: "member-joint-partition", wTick: 24, wDeliver: 50, wDrop: 4, wPropose: 8, wCampaign: 3, wCrash: 2, wCompact: 2, pDup: 0.15, partition: 40, pHeal: 0.4, member: 8, mlock: true, joint: true},
}

func profileByName(name string) (profile, bool) {
	for _, p := range profiles {
		if p.name == name {
			return p, true
		}
	}
	for _, p := range soloProfiles {
		if p.name == name {
			return p, true
		}
	}
	return profile{}, false
}

type poolMsg struct {
	m   pb.Message
	key string
}

type sim struct {
	n        int
	rng      *rand.Rand
	nodes    []*simNode
	pool     []poolMsg
	inPool   map[string]bool
	w        *bufio.Writer
	nextPid  uint64
	group    []int // partition group per node
	lagNode  int
	prof     profile
	stats    map[string]int
	leaders  map[uint64]uint64 // term -> leader id ever observed
	global   []ent             // every entry some node has ever committed, by index
	evNo     int
	bad      bool
	ids      []uint64
	propNext bool   // the event about to run delivers a forwarded proposal (it can grow a leader's log)
	snapSent [][2]int // profiles with report: (leader, follower) of every MsgSnap just emitted and not yet looked at by the scheduler
	forced   string // profile deferAdv: key of the pool message to deliver next (a newer-term append that conflicts inside a Ready just left un-advanced)
}

func discardLogger() raft.Logger {
	return &raft.DefaultLogger{Logger: log.New(io.Discard, "", 0)}
}

func (s *sim) newRawNode(nd *simNode) *raft.RawNode {
	// the Config raftexample's startRaft uses (PreVote and CheckQuorum off)
	c := &raft.Config{
		ID:                        nd.id,
		ElectionTick:              10,
		HeartbeatTick:             1,
		Storage:                   nd.ms,
		MaxSizePerMsg:             1024 * 1024,
		MaxInflightMsgs:           256,
		MaxUncommittedEntriesSize: 1 << 30,
		Logger:                    discardLogger(),
	}
	if s.prof.paged {
		c.MaxSizePerMsg = 0 // "0 for at most one entry per message"; every other setting stays raftexample's
	}
	if s.prof.sized {
		c.MaxSizePerMsg = 64
	}
	if s.prof.applyPaged {
		c.MaxCommittedSizePerReady = 1
	}
	if s.prof.prevote {
		c.PreVote = true // the library's pre-vote phase (raftexample leaves it off): delayed / duplicated pre-vote responses
	}
	if s.prof.joint {
		// a restart finds the storage as raftexample rebuilds it (ApplySnapshot, then the WAL entries after it): nothing at or below the snapshot
		// index is handed to the application again.  This harness keeps the MemoryStorage object, whose first index may lie BELOW its snapshot
		// index (Compact(ci) with ci < snapshot index), and raftLog.applied starts at firstIndex-1: the entries in between would be applied a second
		// time on top of the snapshot's ConfState - harmless for single changes (idempotent), a Changer refusal ("config is already joint")
		// for an EnterJoint.  Config.Applied is the library's way to say where the application stands.
		if snap, err := nd.ms.Snapshot(); err == nil {
			c.Applied = snap.Metadata.Index
		}
	}
	rn, err := raft.NewRawNode(c)
	if err != nil {
		panic(err)
	}
	return rn
}

func newSim(n int, seed int64, prof profile, w *bufio.Writer) *sim {
	s := &sim{n: n, rng: rand.New(rand.NewSource(seed)), w: w, prof: prof, inPool: map[string]bool{}, stats: map[string]int{},
		leaders: map[uint64]uint64{}, nextPid: 1, lagNode: -1}
	raftGlobalRand.mu.Lock()
	raftGlobalRand.rand = rand.New(rand.NewSource(seed ^ 0x5eed))
	raftGlobalRand.mu.Unlock()
	for i := 0; i < n; i++ {
		s.ids = append(s.ids, uint64(i+1))
	}
	s.group = make([]int, n)
	voters := s.ids
	if prof.member > 0 && n > 3 {
		voters = s.ids[:3] // Stage D: the other nodes start outside the configuration and are added later
	}
	if prof.grow {
		voters = s.ids[:1]
	}
	for i := 0; i < n; i++ {
		ms := raft.NewMemoryStorage()
		// an EMPTY log with a known membership: a snapshot that carries only the ConfState (etcd needs index >= 1)
		if err := ms.ApplySnapshot(pb.Snapshot{Metadata: pb.SnapshotMetadata{Index: 1, Term: 0, ConfState: pb.ConfState{Voters: voters}}}); err != nil {
			panic(err)
		}
		nd := &simNode{id: uint64(i + 1), ms: ms, applied: 1, hCommit: 1, conf: pb.ConfState{Voters: voters}, hist: []confRec{{1, pb.ConfState{Voters: voters}}}}
		nd.rn = s.newRawNode(nd)
		s.nodes = append(s.nodes, nd)
	}
	if prof.mlock {
		m := map[uint64]struct{}{}
		for _, v := range voters {
			m[v] = struct{}{}
		}
		if prof.joint {
			fmt.Fprintf(w, "RJ %s\n", idsCsv(m))
		} else {
			fmt.Fprintf(w, "RC %s\n", idsCsv(m))
		}
	}
	return s
}

// ---------------------------------------------------------------------------------------- formatting

func sat1(x uint64) uint64 {
	if x == 0 {
		return 0
	}
	return x - 1
}

func pidOf(data []byte) uint64 {
	if len(data) == 0 {
		return 0
	}
	v, err := strconv.ParseUint(string(data), 10, 64)
	if err != nil {
		return math.MaxUint32
	}
	return v
}

func fmtEnts(es []ent) string {
	if len(es) == 0 {
		return "-"
	}
	var b strings.Builder
	for i, e := range es {
		if i > 0 {
			b.WriteByte('/')
		}
		fmt.Fprintf(&b, "%d.%d", e.term, e.pid)
	}
	return b.String()
}

func parseEnts(s string) []ent {
	if s == "-" || s == "" {
		return nil
	}
	var out []ent
	for _, f := range strings.Split(s, "/") {
		p := strings.SplitN(f, ".", 2)
		t, _ := strconv.ParseUint(p[0], 10, 64)
		d, _ := strconv.ParseUint(p[1], 10, 64)
		out = append(out, ent{t, d})
	}
	return out
}

func conv(es []pb.Entry) []ent {
	out := make([]ent, 0, len(es))
	for _, e := range es {
		p := pidOf(e.Data)
		if e.Type == pb.EntryConfChange {
			var cc pb.ConfChange
			_ = cc.Unmarshal(e.Data)
			p = 1<<40 | uint64(cc.Type)<<8 | cc.NodeID
		} else if e.Type == pb.EntryConfChangeV2 {
			var cc pb.ConfChangeV2
			_ = cc.Unmarshal(e.Data)
			p = encV2(cc)
		} else if e.Type != pb.EntryNormal {
			p = math.MaxUint32 - 1
		}
		out = append(out, ent{e.Term, p})
	}
	return out
}

// a ConfChangeV2 as a number: 2<<40 | transition<<36 | len(changes)<<32 | up to four changes, one byte each (type<<6 | id), first change highest
func encV2(cc pb.ConfChangeV2) uint64 {
	if len(cc.Changes) > 4 {
		panic("harness: ConfChangeV2 with more than four changes has no trace encoding")
	}
	p := uint64(2)<<40 | uint64(cc.Transition)<<36 | uint64(len(cc.Changes))<<32
	for k, c := range cc.Changes {
		if c.NodeID > 63 {
			panic("harness: node id too large for the trace encoding")
		}
		p |= (uint64(c.Type)<<6 | c.NodeID) << (8 * uint(3-k))
	}
	return p
}

func fmtMsg(m pb.Message) string {
	f, t := m.From-1, m.To-1
	rej := 0
	if m.Reject {
		rej = 1
	}
	switch m.Type {
	case pb.MsgVote:
		return fmt.Sprintf("vote,%d,%d,%d,%d,%d", m.Term, f, t, sat1(m.Index), m.LogTerm)
	case pb.MsgVoteResp:
		return fmt.Sprintf("voteResp,%d,%d,%d,%d", m.Term, f, t, rej)
	case pb.MsgApp:
		return fmt.Sprintf("app,%d,%d,%d,%d,%d,%d,%s", m.Term, f, t, sat1(m.Index), m.LogTerm, sat1(m.Commit), fmtEnts(conv(m.Entries)))
	case pb.MsgAppResp:
		return fmt.Sprintf("appResp,%d,%d,%d,%d,%d", m.Term, f, t, sat1(m.Index), rej)
	case pb.MsgHeartbeat:
		return fmt.Sprintf("hb,%d,%d,%d,%d", m.Term, f, t, sat1(m.Commit))
	case pb.MsgHeartbeatResp:
		return fmt.Sprintf("hbResp,%d,%d,%d", m.Term, f, t)
	case pb.MsgSnap:
		// the snapshot's state-machine image stands for a log prefix (ghost, carried in Data)
		return fmt.Sprintf("snap,%d,%d,%d,%d,%s", m.Term, f, t, sat1(m.Snapshot.Metadata.Index), fmtEnts(parseEnts(string(m.Snapshot.Data))))
	case pb.MsgProp:
		if len(m.Entries) == 1 && m.Entries[0].Type == pb.EntryNormal {
			return fmt.Sprintf("propFwd,%d,%d,%d,%d", m.Term, f, t, pidOf(m.Entries[0].Data))
		}
		var ps []string // Stage D: a forwarded proposal carrying conf changes (possibly several)
		for _, e := range conv(m.Entries) {
			ps = append(ps, strconv.FormatUint(e.pid, 10))
		}
		return fmt.Sprintf("propFwd,%d,%d,%d,%s", m.Term, f, t, strings.Join(ps, "+"))
	}
	return fmt.Sprintf("other:%s,%d,%d,%d", m.Type, m.Term, f, t)
}

func readVotes(rn *raft.RawNode) map[uint64]bool {
	out := map[uint64]bool{}
	v := reflect.ValueOf(rn).Elem().FieldByName("raft").Elem().FieldByName("prs").FieldByName("Votes")
	it := v.MapRange()
	for it.Next() {
		out[it.Key().Uint()] = it.Value().Bool()
	}
	return out
}

// ---- Stage D tie (member-* profiles): what the model Raft/RSC.lean must reproduce (CF / GT / HP lines, judged by lean/RaftDriver.lean)

func raftField(rn *raft.RawNode, names ...string) reflect.Value {
	v := reflect.ValueOf(rn).Elem().FieldByName("raft").Elem()
	for _, n := range names {
		v = v.FieldByName(n)
		if v.Kind() == reflect.Ptr {
			v = v.Elem()
		}
	}
	return v
}

func pendingConfIndexOf(rn *raft.RawNode) uint64 { return raftField(rn, "pendingConfIndex").Uint() }

// raftLog.lastIndex(): the unstable part first
func (nd *simNode) lastIndex() uint64 {
	u := raftField(nd.rn, "raftLog", "unstable")
	if ents := u.FieldByName("entries"); ents.Len() > 0 {
		return u.FieldByName("offset").Uint() + uint64(ents.Len()) - 1
	}
	if sp := u.FieldByName("snapshot"); !sp.IsNil() {
		return sp.Elem().FieldByName("Metadata").FieldByName("Index").Uint()
	}
	li, _ := nd.ms.LastIndex()
	return li
}

// is the entry at etcd index idx a conf change? (unstable entries first, then the persisted log as the shadow remembers it)
func (nd *simNode) isConfAt(idx uint64) bool {
	u := raftField(nd.rn, "raftLog", "unstable")
	ents, off := u.FieldByName("entries"), u.FieldByName("offset").Uint()
	if ents.Len() > 0 && idx >= off && idx < off+uint64(ents.Len()) {
		return pb.EntryType(ents.Index(int(idx-off)).FieldByName("Type").Int()) != pb.EntryNormal
	}
	if idx >= 2 && int(idx-2) < len(nd.shadow) {
		return nd.shadow[idx-2].pid>>40 == 1 || nd.shadow[idx-2].pid>>40 == 2 || nd.shadow[idx-2].pid == math.MaxUint32-1
	}
	return false
}

func idsCsv(m map[uint64]struct{}) string {
	if len(m) == 0 {
		return "-"
	}
	ids := make([]uint64, 0, len(m))
	for id := range m {
		ids = append(ids, id)
	}
	sort.Slice(ids, func(a, b int) bool { return ids[a] < ids[b] })
	parts := make([]string, len(ids))
	for i, id := range ids {
		parts[i] = strconv.FormatUint(id, 10)
	}
	return strings.Join(parts, ",")
}

// voters, learners, outgoing voters of the node's tracker config
func cfgSets(rn *raft.RawNode) (string, string, string) {
	c := rn.Status().Config
	return idsCsv(c.Voters[0]), idsCsv(c.Learners), idsCsv(c.Voters[1])
}

// the model input of a conf-change proposal: the proposed payloads, or `noop` when raft dropped the proposal (no leader known / the leader
// has no Progress of its own) - the observed outcome is an input, as for Propose
func (s *sim) propsInput(nd *simNode, ents []pb.Entry, err error) string {
	if err != nil {
		return "noop"
	}
	var ps []string
	for _, e := range conv(ents) {
		ps = append(ps, strconv.FormatUint(e.pid, 10))
	}
	return "props:" + strings.Join(ps, "+")
}

// gateProbe steps a proposal message with n conf-change entries and, when the node is the leader and the proposal is taken, reports which
// entries were appended as conf changes (1) or replaced by empty entries (0) and what pendingConfIndex became
func (s *sim) gateProbe(nd *simNode, n int, step func() error) error {
	if s.prof.member == 0 || s.prof.joint { // joint schedules: the three-reason gate is judged through the E lines (log and pendingConfIndex)
		return step()
	}
	bs := nd.rn.BasicStatus()
	pend, last := pendingConfIndexOf(nd.rn), nd.lastIndex()
	err := step()
	if bs.RaftState == raft.StateLeader && err == nil {
		var kinds strings.Builder
		for idx := last + 1; idx <= nd.lastIndex(); idx++ {
			if nd.isConfAt(idx) {
				kinds.WriteByte('1')
			} else {
				kinds.WriteByte('0')
			}
		}
		k := kinds.String()
		if k == "" {
			k = "-"
		}
		fmt.Fprintf(s.w, "GT %d %d %d %d %d %s %d\n", nd.id, bs.Applied, pend, last, n, k, pendingConfIndexOf(nd.rn))
		s.stats["tie-GT"]++
	}
	return err
}

// log projection: what Compact discarded comes from the shadow, everything else from the storage itself
func (s *sim) logOf(nd *simNode) []ent {
	fi, _ := nd.ms.FirstIndex()
	li, _ := nd.ms.LastIndex()
	var real []ent
	if li >= fi {
		es, err := nd.ms.Entries(fi, li+1, math.MaxUint64)
		if err != nil {
			panic(fmt.Sprintf("storage entries [%d,%d]: %v", fi, li, err))
		}
		real = conv(es)
	}
	if int(fi)-2 > len(nd.shadow) {
		panic(fmt.Sprintf("harness: shadow too short on node %d: first index %d, shadow %d", nd.id, fi, len(nd.shadow)))
	}
	l := append(append([]ent{}, nd.shadow[:fi-2]...), real...)
	// the shadow above the compaction point must be what the storage holds
	if len(nd.shadow) != len(l) {
		panic(fmt.Sprintf("harness: shadow length %d != log length %d on node %d", len(nd.shadow), len(l), nd.id))
	}
	for k := range l {
		if l[k] != nd.shadow[k] {
			panic(fmt.Sprintf("harness: shadow differs from storage at %d on node %d", k+1, nd.id))
		}
	}
	return l
}

func roleStr(st raft.StateType) string {
	switch st {
	case raft.StateFollower:
		return "F"
	case raft.StateCandidate:
		return "C"
	case raft.StateLeader:
		return "L"
	}
	return "?" + st.String()
}

func optID(x uint64) string {
	if x == 0 {
		return "-"
	}
	return strconv.FormatUint(x-1, 10)
}

func (s *sim) projection(nd *simNode) (string, raft.Status, []ent) {
	st := nd.rn.Status()
	lg := s.logOf(nd)
	match := "-"
	if st.RaftState == raft.StateLeader {
		var ms []string
		for _, id := range s.ids {
			ms = append(ms, strconv.FormatUint(sat1(st.Progress[id].Match), 10))
		}
		match = strings.Join(ms, ",")
	}
	votes := "-"
	if st.RaftState == raft.StateCandidate {
		vm := readVotes(nd.rn)
		var vs []string
		for _, id := range s.ids {
			if v, ok := vm[id]; !ok {
				vs = append(vs, "n")
			} else if v {
				vs = append(vs, "1")
			} else {
				vs = append(vs, "0")
			}
		}
		votes = strings.Join(vs, ",")
	}
	return fmt.Sprintf("%d %s %s %s %d %s %s %s", st.Term, optID(st.Vote), roleStr(st.RaftState), optID(st.Lead), sat1(st.Commit),
		fmtEnts(lg), match, votes), st, lg
}

// ---------------------------------------------------------------------------------------- the Ready cycle

// drain persists and advances every pending Ready (as raftexample's serveChannels does); returns the messages
// emitted and how many times `advance` stepped the leader's self-MsgAppResp.
func (s *sim) drain(nd *simNode) (out []pb.Message, post []string) {
	for cycles := 0; nd.rn.HasReady(); cycles++ {
		if cycles > 20000 {
			// a node that never stops producing Readys without any input (seen under a broken membership gate): report, do not spin
			panic(fmt.Sprintf("ready-livelock: node %d produced %d Readys in one event without coming to rest", nd.id, cycles))
		}
		rd := nd.rn.Ready()
		if !raft.IsEmptyHardState(rd.HardState) {
			_ = nd.ms.SetHardState(rd.HardState)
		}
		if !raft.IsEmptySnap(rd.Snapshot) {
			if err := nd.ms.ApplySnapshot(rd.Snapshot); err != nil {
				panic(fmt.Sprintf("ApplySnapshot: %v", err))
			}
			nd.conf = rd.Snapshot.Metadata.ConfState
			nd.hist = []confRec{{rd.Snapshot.Metadata.Index, nd.conf}}
			nd.shadow = parseEnts(string(rd.Snapshot.Data))
			if uint64(len(nd.shadow))+1 != rd.Snapshot.Metadata.Index {
				panic("harness: snapshot ghost prefix has the wrong length")
			}
			if rd.Snapshot.Metadata.Index > nd.applied {
				nd.applied = rd.Snapshot.Metadata.Index
			}
			s.stats["snap-restored"]++
		}
		if len(rd.Entries) > 0 {
			f := rd.Entries[0].Index
			if int(f)-2 > len(nd.shadow) {
				panic(fmt.Sprintf("harness: gap before appended entries (first %d, shadow %d)", f, len(nd.shadow)))
			}
			if int(f)-2 < len(nd.shadow) {
				s.stats["truncations"]++
			}
			nd.shadow = append(nd.shadow[:f-2:f-2], conv(rd.Entries)...)
			if err := nd.ms.Append(rd.Entries); err != nil {
				panic(err)
			}
		}
		out = append(out, rd.Messages...)
		if k := len(rd.CommittedEntries); k > 0 && rd.CommittedEntries[k-1].Index > nd.applied {
			nd.applied = rd.CommittedEntries[k-1].Index
		}
		if k := len(rd.CommittedEntries); k > 0 && s.prof.mlock {
			post = append(post, fmt.Sprintf("apply:%d", rd.CommittedEntries[k-1].Index-1))
		}
		for _, e := range rd.CommittedEntries {
			if e.Type == pb.EntryConfChangeV2 { // Stage D step 7
				var cc pb.ConfChangeV2
				if err := cc.Unmarshal(e.Data); err != nil {
					panic("harness: conf change v2 does not unmarshal")
				}
				nd.conf = *nd.rn.ApplyConfChange(cc)
				nd.recordConf(e.Index, nd.conf)
				s.stats["confchange-applied"]++
				s.stats["confchangev2-applied"]++
				if len(nd.conf.VotersOutgoing) > 0 {
					s.stats["confchangev2-now-joint"]++
				}
				if !s.hasProgress(nd) {
					nd.removed = true
				}
			}
			if e.Type == pb.EntryConfChange { // Stage D: apply before Advance, as raftexample's publishEntries does
				var cc pb.ConfChange
				if err := cc.Unmarshal(e.Data); err != nil {
					panic("harness: conf change does not unmarshal")
				}
				var vb, lb, ob string
				if s.prof.member > 0 {
					vb, lb, ob = cfgSets(nd.rn)
				}
				nd.conf = *nd.rn.ApplyConfChange(cc)
				nd.recordConf(e.Index, nd.conf)
				if s.prof.member > 0 {
					va, la, oa := cfgSets(nd.rn)
					fmt.Fprintf(s.w, "CF %d %d %d %d %s %s %s %s %s %s\n", nd.id, e.Index, int(cc.Type), cc.NodeID, vb, lb, ob, va, la, oa)
					s.stats["tie-CF"]++
				}
				s.stats["confchange-applied"]++
				if cc.Type == pb.ConfChangeRemoveNode && cc.NodeID == nd.id {
					nd.removed = true
				}
			}
		}
		// `advance` steps MsgAppResp{From: self} when entries were appended and r.id == r.lead
		ack := len(rd.Entries) > 0 && nd.rn.BasicStatus().Lead == nd.id
		// only a follower's Ready is held back: the model's `selfAck` acknowledges the leader's whole log, the real Advance of an OLDER Ready only that
		// Ready's last index (a follower cannot become leader within the one input that precedes the deferred Advance unless it is alone); a Ready that
		// carries a snapshot is advanced at once: until then etcd refuses to campaign (hasPendingSnapshot), a state the model does not have
		force := ""
		if s.prof.deferAdv && len(rd.Entries) >= 2 {
			// is an append of a newer term waiting whose previous index lies inside the entries just handed out (it will truncate strictly inside them)?
			first, last := rd.Entries[0].Index, rd.Entries[len(rd.Entries)-1]
			for k, pm := range s.pool {
				if m := pm.m; m.To == nd.id && m.Type == pb.MsgApp && len(m.Entries) > 0 && m.Term > last.Term && m.Index >= first && m.Index < last.Index && s.deliverable(k) {
					force = pm.key
					break
				}
			}
		}
		st := nd.rn.BasicStatus().RaftState
		ldr := s.prof.sized && st == raft.StateLeader && len(rd.Entries) > 0 && len(rd.CommittedEntries) == 0
		if s.prof.deferAdv && s.n > 1 && (st == raft.StateFollower || ldr) && raft.IsEmptySnap(rd.Snapshot) && (force != "" || len(rd.Entries) >= 2 || s.rng.Intn(3) == 0 || ldr) {
			if force != "" {
				s.forced = force
				s.stats["conflicting-append-forced-into-pending-ready"]++
			}
			rdc := rd
			nd.pendRd, nd.pendAck = &rdc, ack
			break
		}
		if ack {
			post = append(post, "selfAck")
		}
		if s.prof.joint && (len(rd.CommittedEntries) > 0 || !raft.IsEmptySnap(rd.Snapshot)) {
			// `advance` moves raftLog.applied and, on a leader whose configuration has AutoLeave, may append the empty ConfChangeV2 itself
			post = append(post, fmt.Sprintf("adv:%d", sat1(nd.rn.BasicStatus().Applied)))
			last := nd.lastIndex()
			nd.rn.Advance(rd)
			if nd.lastIndex() > last {
				s.stats["autoleave-appended"]++
			}
			continue
		}
		nd.rn.Advance(rd)
		if s.prof.lazy && s.rng.Intn(2) == 0 {
			break
		}
	}
	return out, post
}

func (s *sim) addToPool(ms []pb.Message) []string {
	var outs []string
	for _, m := range ms {
		txt := fmtMsg(m)
		outs = append(outs, txt)
		if m.Type == pb.MsgSnap {
			s.stats["snap-sent"]++
			if s.prof.report > 0 {
				s.snapSent = append(s.snapSent, [2]int{int(m.From - 1), int(m.To - 1)})
			}
		}
		key := fmt.Sprintf("%s|%d|%d", txt, m.RejectHint, m.LogTerm)
		if s.inPool[key] {
			continue
		}
		s.inPool[key] = true
		s.pool = append(s.pool, poolMsg{m, key})
	}
	// bound the pool: the oldest messages are lost
	for len(s.pool) > 160 {
		k := s.rng.Intn(len(s.pool) / 2)
		s.removeFromPool(k)
		s.stats["lost-overflow"]++
	}
	return outs
}

func (s *sim) removeFromPool(k int) {
	delete(s.inPool, s.pool[k].key)
	s.pool = append(s.pool[:k], s.pool[k+1:]...)
}

// event runs one RawNode call on node i and writes its trace line. `inputs` may be extended by the observed effects.
func (s *sim) event(kind string, i int, call func() []string) {
	nd := s.nodes[i]
	s.evNo++
	s.stats["ev-"+kind]++
	var line string
	func() {
		defer func() {
			if r := recover(); r != nil {
				msg := strings.ReplaceAll(fmt.Sprint(r), "\n", " ")
				if strings.Contains(msg, "removed all voters") {
					// Stage D: the application proposed removals from stale views until no voter was left; etcd panics by design
					// (applyConfChange: "TODO return the error to the caller") — an application error, not a C15 violation
					line = fmt.Sprintf("# APP-ERROR event=%d kind=%s node=%d %s", s.evNo, kind, i, msg)
					s.stats["app-error"]++
				} else if strings.HasPrefix(msg, "harness:") {
					line = fmt.Sprintf("HARNESS-BUG event=%d kind=%s node=%d %s", s.evNo, kind, i, msg)
				} else {
					line = fmt.Sprintf("SAFETY-VIOLATION panic event=%d kind=%s node=%d :: %s", s.evNo, kind, i, msg)
				}
				s.bad = true
			}
		}()
		var pre []string
		var early []pb.Message
		if nd.pendRd != nil && nd.rn != nil && kind != "restart" && ((kind != "deliver" && kind != "tick") || s.propNext) && nd.rn.BasicStatus().RaftState == raft.StateLeader {
			// a LEADER's un-advanced Ready is advanced BEFORE an input that can grow its log (proposal, campaign, membership change, compaction): the model's
			// selfAck acknowledges the whole log, the real Advance only that Ready's last index - they coincide while the log has not grown in between
			rd := nd.pendRd
			ack := len(rd.Entries) > 0 && nd.rn.BasicStatus().Lead == nd.id
			nd.pendRd, nd.pendAck = nil, false
			nd.rn.Advance(*rd)
			s.stats["deferred-advance-leader-flushed"]++
			if ack {
				pre = append(pre, "selfAck")
			}
			o, post := s.drain(nd)
			pre = append(pre, post...)
			early = o
		}
		inputs := append(pre, call()...)
		if nd.pendRd != nil && nd.rn != nil && kind != "restart" {
			// the Ready handed out before this input is advanced only now
			rd := nd.pendRd
			ack := len(rd.Entries) > 0 && nd.rn.BasicStatus().Lead == nd.id
			nd.pendRd, nd.pendAck = nil, false
			nd.rn.Advance(*rd)
			s.stats["deferred-advance"]++
			if ack {
				inputs = append(inputs, "selfAck")
			}
		}
		out, post := s.drain(nd)
		inputs = append(inputs, post...)
		out = append(early, out...)
		proj, _, _ := s.projection(nd)
		outs := s.addToPool(out)
		o := "-"
		if len(outs) > 0 {
			o = strings.Join(outs, ";")
		}
		line = fmt.Sprintf("E %s %d %s %s %s", kind, i, strings.Join(inputs, ";"), proj, o)
		if s.prof.mlock {
			vs, ls, _ := cfgSets(nd.rn)
			line += fmt.Sprintf(" %d %s %s", sat1(nd.rn.BasicStatus().Applied), vs, ls)
			if s.prof.joint {
				c := nd.rn.Status().Config
				line += fmt.Sprintf(" %s %s %s %d", idsCsv(c.Voters[1]), idsCsv(c.LearnersNext), b01(jAutoLeave(nd.rn)), sat1(pendingConfIndexOf(nd.rn)))
			}
		}
	}()
	if (s.prof.member > 0 || s.prof.prevote) && !s.prof.mlock && strings.HasPrefix(line, "E ") {
		line = "# " + line // Stage D schedules are outside the lock-step: the driver skips them
	}
	fmt.Fprintln(s.w, line)
	if !s.bad {
		s.checkSafety(kind, i)
	}
}

// ---------------------------------------------------------------------------------------- safety predicates on the implementation

func (s *sim) violation(what string) {
	fmt.Fprintf(s.w, "SAFETY-VIOLATION %s event=%d n=%d profile=%s\n", what, s.evNo, s.n, s.prof.name)
	s.bad = true
}

func (s *sim) checkSafety(kind string, i int) {
	type view struct {
		st raft.BasicStatus
		lg []ent
	}
	vs := make([]view, s.n)
	for k, nd := range s.nodes {
		vs[k] = view{nd.rn.BasicStatus(), nd.shadow}
	}
	// (4) persisted term, vote and commit never regress (across restarts too); one vote per term
	for k, nd := range s.nodes {
		st := vs[k].st
		if st.Term < nd.hTerm {
			s.violation(fmt.Sprintf("term-regressed node=%d %d->%d", k, nd.hTerm, st.Term))
		}
		if st.Commit < nd.hCommit {
			s.violation(fmt.Sprintf("commit-regressed node=%d %d->%d", k, nd.hCommit-1, st.Commit-1))
		}
		if st.Term == nd.hVoteTerm && nd.hVote != 0 && st.Vote != nd.hVote {
			s.violation(fmt.Sprintf("vote-changed-within-term node=%d term=%d %d->%d", k, st.Term, nd.hVote-1, int64(st.Vote)-1))
		}
		if st.Commit-1 > uint64(len(vs[k].lg)) {
			s.violation(fmt.Sprintf("commit-beyond-log node=%d commit=%d len=%d", k, st.Commit-1, len(vs[k].lg)))
			return
		}
		// (3) a committed entry is never removed or rewritten
		for x := 0; x < len(nd.hPrefix); x++ {
			if x >= len(vs[k].lg) || vs[k].lg[x] != nd.hPrefix[x] {
				s.violation(fmt.Sprintf("committed-entry-rewritten node=%d index=%d", k, x+1))
				break
			}
		}
		nd.hTerm, nd.hCommit = st.Term, st.Commit
		if st.Vote != 0 || st.Term != nd.hVoteTerm {
			nd.hVoteTerm, nd.hVote = st.Term, st.Vote
		}
		nd.hPrefix = append(nd.hPrefix[:0], vs[k].lg[:st.Commit-1]...)
		// every entry any node ever committed, by index: never two different ones (state-machine safety over the whole history)
		for x := 0; x < int(st.Commit-1); x++ {
			if x < len(s.global) {
				if s.global[x] != vs[k].lg[x] {
					s.violation(fmt.Sprintf("two-entries-committed-at-index index=%d node=%d has %d.%d, earlier %d.%d", x+1, k,
						vs[k].lg[x].term, vs[k].lg[x].pid, s.global[x].term, s.global[x].pid))
					break
				}
			} else {
				s.global = append(s.global, vs[k].lg[x])
			}
		}
	}
	// (1) election safety: at most one leader per term, over the whole history
	for k := range s.nodes {
		st := vs[k].st
		if st.RaftState == raft.StateLeader {
			if old, ok := s.leaders[st.Term]; ok && old != st.ID {
				s.violation(fmt.Sprintf("two-leaders-in-term term=%d nodes=%d,%d", st.Term, old-1, st.ID-1))
			}
			if _, ok := s.leaders[st.Term]; !ok {
				s.leaders[st.Term] = st.ID
				s.stats["leaders-elected"]++
			}
		}
	}
	// (2) state-machine safety on the current states
	for a := 0; a < s.n; a++ {
		for b := a + 1; b < s.n; b++ {
			m := vs[a].st.Commit
			if vs[b].st.Commit < m {
				m = vs[b].st.Commit
			}
			for x := 0; x < int(m-1); x++ {
				if vs[a].lg[x] != vs[b].lg[x] {
					s.violation(fmt.Sprintf("logs-differ-at-committed-index index=%d nodes=%d,%d", x+1, a, b))
					break
				}
			}
		}
	}
	// (5) leader completeness: a leader holds everything a node of no higher term has committed
	for a := 0; a < s.n; a++ {
		if vs[a].st.RaftState != raft.StateLeader {
			continue
		}
		for b := 0; b < s.n; b++ {
			if vs[b].st.Term > vs[a].st.Term {
				continue
			}
			c := int(vs[b].st.Commit - 1)
			if c > len(vs[a].lg) {
				s.violation(fmt.Sprintf("leader-lacks-committed-entry leader=%d term=%d node=%d commit=%d leaderlen=%d", a, vs[a].st.Term, b, c, len(vs[a].lg)))
				continue
			}
			for x := 0; x < c; x++ {
				if vs[a].lg[x] != vs[b].lg[x] {
					s.violation(fmt.Sprintf("leader-lacks-committed-entry leader=%d term=%d node=%d index=%d", a, vs[a].st.Term, b, x+1))
					break
				}
			}
		}
	}
	// log matching: same index and term => same prefix
	for a := 0; a < s.n; a++ {
		for b := a + 1; b < s.n; b++ {
			k := len(vs[a].lg)
			if len(vs[b].lg) < k {
				k = len(vs[b].lg)
			}
			for ; k >= 1; k-- {
				if vs[a].lg[k-1].term == vs[b].lg[k-1].term {
					break
				}
			}
			for x := 0; x < k; x++ {
				if vs[a].lg[x] != vs[b].lg[x] {
					s.violation(fmt.Sprintf("log-matching nodes=%d,%d same term at index %d but differ at %d", a, b, k, x+1))
					break
				}
			}
		}
	}
}

// ---------------------------------------------------------------------------------------- the scheduler

func (s *sim) upNodes() []int {
	var u []int
	for i, nd := range s.nodes {
		if !nd.down && !nd.removed {
			u = append(u, i)
		}
	}
	return u
}

func (s *sim) doTick(i int) {
	nd := s.nodes[i]
	s.event("tick", i, func() []string {
		pre := nd.rn.BasicStatus()
		nd.rn.Tick()
		post := nd.rn.BasicStatus()
		switch {
		case pre.RaftState == raft.StateLeader:
			return []string{"beat"} // HeartbeatTick = 1: every tick of a leader steps MsgBeat
		case post.Term == pre.Term+1 && post.RaftState != raft.StateFollower:
			s.stats["tick-hup"]++
			s.stats["elections"]++
			return []string{"hup"} // the election timeout fired: MsgHup
		default:
			return []string{"noop"}
		}
	})
}

func (s *sim) doCampaign(i int) {
	nd := s.nodes[i]
	s.event("campaign", i, func() []string {
		if nd.rn.BasicStatus().RaftState != raft.StateLeader {
			s.stats["elections"]++
		}
		if s.prof.member > 0 {
			bs := nd.rn.BasicStatus()
			vs, ls, _ := cfgSets(nd.rn)
			var flags strings.Builder
			for idx := bs.Applied + 1; idx <= bs.Commit; idx++ {
				if nd.isConfAt(idx) {
					flags.WriteByte('1')
				} else {
					flags.WriteByte('0')
				}
			}
			f := flags.String()
			if f == "" {
				f = "-"
			}
			pendingSnap := !raftField(nd.rn, "raftLog", "unstable").FieldByName("snapshot").IsNil()
			jcfg := ""
			if s.prof.joint {
				jcfg = jCfg(nd.rn)
			}
			_ = nd.rn.Campaign()
			if pendingSnap {
				return []string{"hup"} // promotable() also refuses while a snapshot is waiting to be applied: outside the model
			}
			camp := 0
			if nd.rn.BasicStatus().Term > bs.Term {
				camp = 1
			}
			if s.prof.joint {
				role := 0
				switch bs.RaftState {
				case raft.StateCandidate, raft.StatePreCandidate:
					role = 1
				case raft.StateLeader:
					role = 2
				}
				fmt.Fprintf(s.w, "JH %d %d %s %s %d\n", nd.id, role, jcfg, f, camp)
				s.stats["tie-JH"]++
				return []string{"hup"}
			}
			fmt.Fprintf(s.w, "HP %d %d %s %s %s %d\n", nd.id, int(bs.RaftState), vs, ls, f, camp)
			s.stats["tie-HP"]++
			return []string{"hup"}
		}
		_ = nd.rn.Campaign()
		return []string{"hup"}
	})
}

func (s *sim) doPropose(i int) {
	nd := s.nodes[i]
	p := s.nextPid
	s.nextPid++
	s.event("propose", i, func() []string {
		payload := []byte(strconv.FormatUint(p, 10))
		if s.prof.sized && s.rng.Intn(3) == 0 {
			payload = []byte(fmt.Sprintf("%050d", p)) // a large entry: the same proposal id, left-padded
		}
		err := nd.rn.Propose(payload)
		if err != nil && !errors.Is(err, raft.ErrProposalDropped) {
			panic(fmt.Sprintf("harness: Propose: %v", err))
		}
		if err != nil && nd.rn.BasicStatus().RaftState == raft.StateLeader {
			return []string{"noop"} // refused by the uncommitted-size quota (the observed outcome is an input)
		}
		return []string{fmt.Sprintf("prop:%d", p)}
	})
}

func (s *sim) deliverable(k int) bool {
	m := s.pool[k].m
	a, b := int(m.From-1), int(m.To-1)
	if s.nodes[b].down || s.nodes[b].removed {
		return false
	}
	return s.group[a] == s.group[b]
}

func (s *sim) doDeliver() bool {
	var cand []int
	for k := range s.pool {
		if s.deliverable(k) {
			cand = append(cand, k)
		}
	}
	if len(cand) == 0 {
		return false
	}
	// mostly recent messages (progress), sometimes any (reordering, long delay)
	var k int
	var hot []int
	if s.prof.deferAdv {
		// an append for a node that is still holding an un-advanced Ready: the window the profile exists for
		for _, c := range cand {
			if m := s.pool[c].m; m.Type == pb.MsgApp && len(m.Entries) > 0 && s.nodes[m.To-1].pendRd != nil {
				hot = append(hot, c)
			}
		}
	}
	if len(hot) > 0 && s.rng.Float64() < 0.7 {
		k = hot[s.rng.Intn(len(hot))]
		s.stats["append-into-pending-ready"]++
	} else if s.rng.Float64() < 0.6 {
		lo := len(cand) - 6
		if lo < 0 {
			lo = 0
		}
		k = cand[lo+s.rng.Intn(len(cand)-lo)]
	} else {
		k = cand[s.rng.Intn(len(cand))]
	}
	s.deliverAt(k)
	return true
}

// deliverAt delivers the pool message with index k (which must be deliverable)
func (s *sim) deliverAt(k int) {
	pm := s.pool[k]
	if s.rng.Float64() < s.prof.pDup {
		s.stats["duplicated"]++ // stays in the pool: it can be delivered again
	} else {
		s.removeFromPool(k)
	}
	i := int(pm.m.To - 1)
	nd := s.nodes[i]
	txt := fmtMsg(pm.m)
	s.stats["recv-"+strings.SplitN(txt, ",", 2)[0]]++
	s.propNext = pm.m.Type == pb.MsgProp
	defer func() { s.propNext = false }()
	s.event("deliver", i, func() []string {
		m := pm.m
		if m.Type == pb.MsgProp {
			// stepLeader's conf-change gate rewrites refused entries IN PLACE; a duplicate of the message still in the pool must not see that
			m.Entries = append([]pb.Entry(nil), m.Entries...)
		}
		err := nd.rn.Step(m)
		if err != nil && !errors.Is(err, raft.ErrProposalDropped) && !(s.prof.member > 0 && errors.Is(err, raft.ErrStepPeerNotFound)) {
			panic(fmt.Sprintf("harness: Step: %v", err))
		}
		switch pm.m.Type {
		case pb.MsgProp:
			return []string{"recvprop:" + txt}
		case pb.MsgHeartbeatResp:
			return []string{"recvhbresp:" + txt}
		}
		return []string{"recv:" + txt}
	})
}

func (s *sim) doRestart(i int) {
	nd := s.nodes[i]
	s.event("restart", i, func() []string {
		nd.rn = s.newRawNode(nd) // term, vote, commit from the HardState; log from the storage; follower, no leader
		nd.down = false
		nd.pendRd, nd.pendAck = nil, false
		if s.prof.lazy {
			// a commit index that was only in memory (its Ready still pending when the node crashed) is legitimately lost
			if hs, _, err := nd.ms.InitialState(); err == nil && hs.Commit < nd.hCommit {
				nd.hCommit = hs.Commit
			}
		}
		if s.prof.mlock {
			snap, _ := nd.ms.Snapshot()
			return []string{fmt.Sprintf("restart:%d", snap.Metadata.Index-1)}
		}
		return []string{"restart"}
	})
}

func (s *sim) doCompact(i int) bool {
	nd := s.nodes[i]
	snap, _ := nd.ms.Snapshot()
	if nd.applied <= snap.Metadata.Index {
		return false
	}
	c := snap.Metadata.Index + 1 + uint64(s.rng.Int63n(int64(nd.applied-snap.Metadata.Index)))
	s.event("compact", i, func() []string {
		cs := nd.confAt(c)
		if _, err := nd.ms.CreateSnapshot(c, &cs, []byte(fmtEnts(nd.shadow[:c-1]))); err != nil {
			panic(fmt.Sprintf("harness: CreateSnapshot(%d): %v", c, err))
		}
		fi, _ := nd.ms.FirstIndex()
		ci := fi + uint64(s.rng.Int63n(int64(c-fi+1)))
		if ci > fi-1 {
			if err := nd.ms.Compact(ci); err != nil {
				panic(fmt.Sprintf("harness: Compact(%d): %v", ci, err))
			}
		}
		return []string{"noop"}
	})
	return true
}

// Stage D: propose one simple membership change (add a voter, add a learner, promote = add a learner as voter, remove)
func (s *sim) doConfChange(i int) {
	nd := s.nodes[i]
	if s.prof.joint && s.rng.Intn(4) != 0 {
		s.doConfChangeV2(i)
		return
	}
	x := uint64(1 + s.rng.Intn(s.n))
	isVoter := false
	for _, v := range nd.conf.Voters {
		if v == x {
			isVoter = true
		}
	}
	var cc pb.ConfChange
	r := s.rng.Intn(10)
	if s.prof.grow && r >= 4 && r < 8 {
		r = 0 // mostly additions
	}
	switch {
	case r < 4:
		cc = pb.ConfChange{Type: pb.ConfChangeAddNode, NodeID: x} // also promotes a learner
	case r < 6 && !isVoter:
		cc = pb.ConfChange{Type: pb.ConfChangeAddLearnerNode, NodeID: x}
	case len(nd.conf.Voters) >= 3:
		cc = pb.ConfChange{Type: pb.ConfChangeRemoveNode, NodeID: x}
	default:
		cc = pb.ConfChange{Type: pb.ConfChangeAddNode, NodeID: x}
	}
	s.stats["confchange-"+cc.Type.String()]++
	if s.prof.batch || s.rng.Intn(4) == 0 {
		// one proposal message carrying several membership changes (a client library that batches, a forwarded MsgProp): raft must let
		// only ONE of them through as a membership change (one change at a time) and turn the others into empty entries
		ents := []pb.Entry{}
		for k := 0; k < 2+s.rng.Intn(2); k++ {
			c2 := cc
			if k > 0 {
				c2 = pb.ConfChange{Type: pb.ConfChangeAddNode, NodeID: uint64(1 + s.rng.Intn(s.n))}
				if s.rng.Intn(3) == 0 && len(nd.conf.Voters) >= 3 {
					c2.Type = pb.ConfChangeRemoveNode
				}
			}
			data, err := c2.Marshal()
			if err != nil {
				panic("harness: conf change does not marshal")
			}
			ents = append(ents, pb.Entry{Type: pb.EntryConfChange, Data: data})
		}
		s.stats["confchange-batched"]++
		s.event("confchange", i, func() []string {
			err := s.gateProbe(nd, len(ents), func() error { return nd.rn.Step(pb.Message{Type: pb.MsgProp, From: nd.id, Entries: ents}) })
			if err != nil && !errors.Is(err, raft.ErrProposalDropped) {
				panic(fmt.Sprintf("harness: Step(MsgProp with %d conf changes): %v", len(ents), err))
			}
			if s.prof.mlock {
				return []string{s.propsInput(nd, ents, err)}
			}
			return []string{"confchange"}
		})
		return
	}
	s.event("confchange", i, func() []string {
		err := s.gateProbe(nd, 1, func() error { return nd.rn.ProposeConfChange(cc) })
		if err != nil && !errors.Is(err, raft.ErrProposalDropped) {
			panic(fmt.Sprintf("harness: ProposeConfChange: %v", err))
		}
		if s.prof.mlock {
			data, _ := cc.Marshal()
			return []string{s.propsInput(nd, []pb.Entry{{Type: pb.EntryConfChange, Data: data}}, err)}
		}
		return []string{"confchange"}
	})
}

// does the node's own id have a Progress in its tracker?
func (s *sim) hasProgress(nd *simNode) bool {
	c := nd.rn.Status().Config
	for _, m := range []map[uint64]struct{}{c.Voters[0], c.Voters[1], c.Learners, c.LearnersNext} {
		if _, in := m[nd.id]; in {
			return true
		}
	}
	return false
}

// Stage D step 7: propose a ConfChangeV2 of a random shape, as the node's application sees its configuration (nd.conf, possibly stale):
// one change with Transition=Auto (Simple), 2-3 changes with Auto (EnterJoint, automatic leave), JointImplicit / JointExplicit with 1-3 changes,
// the empty ConfChangeV2 (LeaveJoint); a quarter of them inside one proposal message with 2-3 conf-change entries.  Never JointExplicit /
// JointImplicit WITHOUT changes (passes the gate while joint and panics at apply: RSJ.enter_empty_passes_gate_and_is_refused_by_changer, suite
// joint-through-rawnode); a proposal removes / demotes voters only as long as two of the proposer's view remain (the Changer must not be asked for a
// zero-voter config: etcd panics, an application error) - in a five-node cluster up to three voters are replaced at once, so that the two halves of a
// joint configuration have DIFFERENT quorums (a tally or commit decision that looked at one half only is then wrong).
func (s *sim) randomV2(nd *simNode) pb.ConfChangeV2 {
	voters := map[uint64]bool{}
	for _, v := range nd.conf.Voters {
		voters[v] = true
	}
	shrunk, maxShrink := 0, len(voters)-2 // voters removed / demoted by this proposal: at least two remain (in the proposer's view)
	one := func(allowUpdate bool) pb.ConfChangeSingle {
		for {
			id := uint64(1 + s.rng.Intn(s.n))
			switch x := s.rng.Intn(100); {
			case x < 45:
				return pb.ConfChangeSingle{Type: pb.ConfChangeAddNode, NodeID: id}
			case x < 62:
				if voters[id] && shrunk >= maxShrink {
					continue
				}
				if voters[id] {
					shrunk++
					delete(voters, id)
				}
				return pb.ConfChangeSingle{Type: pb.ConfChangeAddLearnerNode, NodeID: id}
			case x < 92:
				if voters[id] && shrunk >= maxShrink {
					continue
				}
				if voters[id] {
					shrunk++
					delete(voters, id)
				}
				return pb.ConfChangeSingle{Type: pb.ConfChangeRemoveNode, NodeID: id}
			default:
				if !allowUpdate {
					continue
				}
				return pb.ConfChangeSingle{Type: pb.ConfChangeUpdateNode, NodeID: id}
			}
		}
	}
	many := func(n int) []pb.ConfChangeSingle {
		var out []pb.ConfChangeSingle
		for k := 0; k < n; k++ {
			out = append(out, one(true))
		}
		return out
	}
	joint := len(nd.conf.VotersOutgoing) > 0
	switch x := s.rng.Intn(100); {
	case joint && !nd.conf.AutoLeave && x < 55:
		return pb.ConfChangeV2{} // LeaveJoint
	case x < 25:
		return pb.ConfChangeV2{Transition: pb.ConfChangeTransitionAuto, Changes: []pb.ConfChangeSingle{one(false)}}
	case x < 50:
		return pb.ConfChangeV2{Transition: pb.ConfChangeTransitionAuto, Changes: many(2 + s.rng.Intn(2))}
	case x < 65:
		return pb.ConfChangeV2{Transition: pb.ConfChangeTransitionJointImplicit, Changes: many(1 + s.rng.Intn(3))}
	case x < 88:
		return pb.ConfChangeV2{Transition: pb.ConfChangeTransitionJointExplicit, Changes: many(1 + s.rng.Intn(3))}
	default:
		return pb.ConfChangeV2{} // LeaveJoint (refused while not joint)
	}
}

func v2Kind(cc pb.ConfChangeV2) string {
	if cc.LeaveJoint() {
		return "leave"
	}
	if al, ok := cc.EnterJoint(); ok {
		if al {
			return "enter-autoleave"
		}
		return "enter-explicit"
	}
	return "simple"
}

func (s *sim) doConfChangeV2(i int) {
	nd := s.nodes[i]
	cc := s.randomV2(nd)
	s.stats["confchangev2-"+v2Kind(cc)]++
	if s.rng.Intn(4) == 0 {
		ents := []pb.Entry{v2Entry(cc)}
		for k := 0; k < 1+s.rng.Intn(2); k++ {
			if s.rng.Intn(3) == 0 {
				data, _ := (&pb.ConfChange{Type: pb.ConfChangeAddNode, NodeID: uint64(1 + s.rng.Intn(s.n))}).Marshal()
				ents = append(ents, pb.Entry{Type: pb.EntryConfChange, Data: data})
			} else {
				ents = append(ents, v2Entry(s.randomV2(nd)))
			}
		}
		s.stats["confchange-batched"]++
		s.event("confchange", i, func() []string {
			err := nd.rn.Step(pb.Message{Type: pb.MsgProp, From: nd.id, Entries: ents})
			if err != nil && !errors.Is(err, raft.ErrProposalDropped) {
				panic(fmt.Sprintf("harness: Step(MsgProp with %d conf changes): %v", len(ents), err))
			}
			return []string{s.propsInput(nd, ents, err)}
		})
		return
	}
	s.event("confchange", i, func() []string {
		err := nd.rn.ProposeConfChange(cc)
		if err != nil && !errors.Is(err, raft.ErrProposalDropped) {
			panic(fmt.Sprintf("harness: ProposeConfChange(v2): %v", err))
		}
		return []string{s.propsInput(nd, []pb.Entry{v2Entry(cc)}, err)}
	})
}

// ---- step 8: transport reports (what rafthttp tells the leader about a peer)

// the leader's whole Progress record for `id` in etcd's own index space: state, Match, Next, PendingSnapshot, ProbeSent, number of inflights ("-": no tracker)
func progOf(rn *raft.RawNode, id uint64) string {
	st := rn.Status()
	pr, ok := st.Progress[id]
	if !ok {
		return "-"
	}
	c := 0
	if pr.Inflights != nil {
		c = pr.Inflights.Count()
	}
	return fmt.Sprintf("%s,%d,%d,%d,%s,%d", map[tracker.StateType]string{tracker.StateProbe: "P", tracker.StateReplicate: "R", tracker.StateSnapshot: "S"}[pr.State],
		pr.Match, pr.Next, pr.PendingSnapshot, b01(pr.ProbeSent), c)
}

// doReport: kind 0 ReportSnapshot(SnapshotFinish), 1 ReportSnapshot(SnapshotFailure), 2 ReportUnreachable - on node i's RawNode about node f
func (s *sim) doReport(i, f, kind int) {
	nd := s.nodes[i]
	id := uint64(f + 1)
	s.event("report", i, func() []string {
		pre := progOf(nd.rn, id)
		isS := strings.HasPrefix(pre, "S")
		switch kind {
		case 0:
			nd.rn.ReportSnapshot(id, raft.SnapshotFinish)
		case 1:
			nd.rn.ReportSnapshot(id, raft.SnapshotFailure)
		default:
			nd.rn.ReportUnreachable(id)
		}
		post := progOf(nd.rn, id)
		if kind == 2 {
			s.stats["report-unreachable"]++
			if strings.HasPrefix(pre, "R") {
				s.stats["report-unreachable-replicating"]++
			}
			return []string{fmt.Sprintf("unreach:%d:%s:%s", f, pre, post)}
		}
		s.stats["report-snapshot"]++
		if isS {
			s.stats[[]string{"report-snapshot-finish-pending", "report-snapshot-failure-pending"}[kind]]++
		}
		return []string{fmt.Sprintf("snapst:%d:%d:%s:%s", f, kind, pre, post)}
	})
}

// a random report: mostly at a leader, mostly about a follower it is sending a snapshot to / replicating to
func (s *sim) doRandomReport() {
	up := s.upNodes()
	if len(up) == 0 || s.n < 2 {
		return
	}
	var ls []int
	for _, i := range up {
		if s.nodes[i].rn.BasicStatus().RaftState == raft.StateLeader {
			ls = append(ls, i)
		}
	}
	i := up[s.rng.Intn(len(up))]
	if len(ls) > 0 && s.rng.Float64() < 0.9 {
		i = ls[s.rng.Intn(len(ls))]
	} else if len(ls) == 0 && s.rng.Float64() < 0.7 {
		s.doTick(i) // nobody leads: mostly let time pass instead (a report to a non-leader is ignored)
		return
	}
	kind := s.rng.Intn(3)
	var want []int
	for f := 0; f < s.n; f++ {
		if p := progOf(s.nodes[i].rn, uint64(f+1)); f != i && ((kind < 2 && strings.HasPrefix(p, "S")) || (kind == 2 && strings.HasPrefix(p, "R"))) {
			want = append(want, f)
		}
	}
	f := (i + 1 + s.rng.Intn(s.n-1)) % s.n
	if len(want) > 0 && s.rng.Float64() < 0.85 {
		f = want[s.rng.Intn(len(want))]
	}
	s.doReport(i, f, kind)
}

// a MsgSnap from l to f was just emitted: the transport reports on it before it arrives (rafthttp reports SnapshotFinish when the POST returned - the
// receiver has stepped the message in memory at best, persisted nothing), and the leader's next heartbeat may overtake the snapshot
func (s *sim) reportFreshSnap(l, f int) {
	if s.nodes[l].down || s.nodes[l].removed || s.rng.Float64() >= 0.6 {
		return
	}
	kind := 0
	if s.rng.Float64() < 0.35 {
		kind = 1
	}
	s.doReport(l, f, kind)
	s.stats["report-before-snapshot-delivered"]++
	if !s.bad && s.rng.Intn(2) == 0 {
		s.doTick(l)
		if !s.bad && s.deliverMatch(func(m pb.Message) bool { return m.Type == pb.MsgHeartbeat && m.From == uint64(l+1) && m.To == uint64(f+1) }) {
			s.stats["heartbeat-overtakes-snapshot"]++
		}
	}
}

func (s *sim) compactTo(i int, c uint64) {
	nd := s.nodes[i]
	s.event("compact", i, func() []string {
		cs := nd.confAt(c)
		if _, err := nd.ms.CreateSnapshot(c, &cs, []byte(fmtEnts(nd.shadow[:c-1]))); err != nil {
			panic(fmt.Sprintf("harness: CreateSnapshot(%d): %v", c, err))
		}
		if err := nd.ms.Compact(c); err != nil {
			panic(fmt.Sprintf("harness: Compact(%d): %v", c, err))
		}
		return []string{"noop"}
	})
}

// scriptSnapReport (profiles with report, n >= 3) builds, with ordinary events only, the situation in which a leader's belief about a follower it sends a
// snapshot to matters.  Node 0 leads term 1, is cut off and keeps accepting proposals: an uncommitted tail of term 1.  Node 1 wins term 2 with the others,
// commits as many entries as that tail is long (its own empty entry included), applies and COMPACTS them away.  The partition heals; 1's heartbeat makes 0 a follower of term 2, the
// heartbeat response makes 1 send a MsgSnap (the entries 0 needs are gone).  BEFORE the snapshot is delivered the transport reports SnapshotFinish (or
// Failure), 1 ticks, and the heartbeat reaches 0 first - variant B: the MsgSnap is lost and 0 crashes and restarts from its disk before the heartbeat.
// The heartbeat's Commit must stay min(Match, committed) with the Match 0 has really acknowledged (nothing): 0 must not commit its stale tail.
// Then the snapshot is delivered (variant A) and the schedule continues at random.
func (s *sim) scriptSnapReport() {
	const A, B = 0, 1
	any := func(pb.Message) bool { return true }
	s.doCampaign(A)
	s.settle(any)
	if s.bad || s.nodes[A].rn.BasicStatus().RaftState != raft.StateLeader {
		return
	}
	s.group[A] = 1
	tail := 3 + s.rng.Intn(3)
	for k := 0; k < tail && !s.bad; k++ {
		s.doPropose(A)
	}
	s.dropMatch(func(m pb.Message) bool { return m.From == uint64(A+1) || m.To == uint64(A+1) })
	s.doCampaign(B)
	s.settle(any)
	if s.bad || s.nodes[B].rn.BasicStatus().RaftState != raft.StateLeader {
		s.group[A] = 0
		return
	}
	for k := 0; k < tail-1 && !s.bad; k++ { // with B's empty entry: exactly as long as A's tail - the snapshot index lies inside it
		s.doPropose(B)
		s.settle(any)
	}
	s.dropMatch(func(m pb.Message) bool { return m.From == uint64(A+1) || m.To == uint64(A+1) })
	nb := s.nodes[B]
	if s.bad || nb.applied < uint64(tail)+2 {
		s.group[A] = 0
		return
	}
	s.compactTo(B, nb.applied-uint64(s.rng.Intn(2)))
	s.group[A] = 0
	hbToA := func(m pb.Message) bool { return m.Type == pb.MsgHeartbeat && m.From == uint64(B+1) && m.To == uint64(A+1) }
	s.doTick(B)
	s.dropMatch(func(m pb.Message) bool { return m.To == uint64(A+1) && !hbToA(m) })
	s.deliverMatch(hbToA)
	s.snapSent = nil
	s.deliverMatch(func(m pb.Message) bool { return m.Type == pb.MsgHeartbeatResp && m.From == uint64(A+1) && m.To == uint64(B+1) })
	if s.bad || len(s.snapSent) == 0 {
		return // (a duplicated delivery or an early election timeout changed the course: the random part takes over)
	}
	s.snapSent = nil
	kind := 0
	if s.rng.Intn(4) == 0 {
		kind = 1
	}
	variantB := s.rng.Intn(2) == 0
	s.doReport(B, A, kind)
	if variantB && !s.bad {
		s.dropMatch(func(m pb.Message) bool { return m.Type == pb.MsgSnap && m.To == uint64(A+1) })
		s.stats["restarts"]++
		s.doRestart(A)
	}
	if !s.bad {
		s.doTick(B)
	}
	if !s.bad && s.deliverMatch(hbToA) {
		s.stats["heartbeat-overtakes-snapshot"]++
	}
	if !s.bad && !variantB {
		s.deliverMatch(func(m pb.Message) bool { return m.Type == pb.MsgSnap && m.To == uint64(A+1) })
	}
	s.snapSent = nil
	s.stats["scripted-snap-report"]++
}

func (s *sim) repartition() {
	if s.rng.Float64() < s.prof.pHeal || s.n == 1 {
		for i := range s.group {
			s.group[i] = 0
		}
		return
	}
	for i := range s.group {
		s.group[i] = s.rng.Intn(2)
	}
	s.stats["partitions"]++
}

// ---- scripted prologue of profile defer-script

func (s *sim) deliverMatch(f func(m pb.Message) bool) bool {
	for k := range s.pool {
		if f(s.pool[k].m) && s.deliverable(k) {
			s.deliverAt(k)
			return true
		}
	}
	return false
}

func (s *sim) dropMatch(f func(m pb.Message) bool) {
	for k := len(s.pool) - 1; k >= 0; k-- {
		if f(s.pool[k].m) {
			s.removeFromPool(k)
		}
	}
}

func (s *sim) settle(f func(m pb.Message) bool) {
	for n := 0; n < 400 && !s.bad && s.deliverMatch(f); n++ {
	}
}

// scriptConflictInsideReady builds, with ordinary events only (campaign, propose, deliver, drop), the situation the deferred-Advance profiles
// exist for: follower F (id 1) holds an un-advanced Ready with two entries [A, B] of term 1, B being known to nobody else, when the first append
// of the leader of term 2 (elected by 3, 4, 5, none of which has B) arrives: previous index = A, entry = its no-op in B's place - a truncation
// strictly inside the entries the application is still holding.  The deferral and the forced delivery themselves are decided by drain().
func (s *sim) scriptConflictInsideReady() {
	const L1, F, L2 = 1, 0, 2 // node indexes: ids 2, 1, 3
	any := func(pb.Message) bool { return true }
	toF := func(m pb.Message) bool { return m.To == uint64(F+1) }
	s.doCampaign(L1)
	s.settle(any) // elected, no-op replicated and committed everywhere
	if s.bad || s.nodes[L1].rn.BasicStatus().RaftState != raft.StateLeader {
		return
	}
	s.doPropose(L1)                                                                // entry A
	s.settle(func(m pb.Message) bool { return !toF(m) })                           // A reaches 3, 4, 5 and is committed ...
	s.dropMatch(toF)                                                               // ... F misses it and the commit notice
	s.doPropose(L1)                                                                // entry B
	s.dropMatch(func(m pb.Message) bool { return !toF(m) && m.Type == pb.MsgApp }) // B is sent to F only ...
	s.settle(func(m pb.Message) bool { return toF(m) && m.Type == pb.MsgApp })     // ... which rejects it (A is missing)
	s.settle(func(m pb.Message) bool { return m.From == uint64(F+1) && m.Type == pb.MsgAppResp })
	// the leader's retry [A, B] for F is now in the pool; before it is delivered, node 3 wins term 2 with the votes of 4 and 5
	s.doCampaign(L2)
	s.dropMatch(func(m pb.Message) bool { return m.Type == pb.MsgVote && (m.To == uint64(F+1) || m.To == uint64(L1+1)) })
	s.settle(func(m pb.Message) bool { return m.Type == pb.MsgVote || m.Type == pb.MsgVoteResp })
	// deliver the old leader's [A, B] to F: drain() finds the new leader's conflicting append in the pool, leaves the Ready un-advanced and forces it next
	s.deliverMatch(func(m pb.Message) bool {
		return toF(m) && m.Type == pb.MsgApp && m.From == uint64(L1+1) && len(m.Entries) >= 2
	})
	s.stats["scripted-prologue"]++
}

// scriptJointSplit (joint profiles, five nodes) builds, with ordinary events only, a joint configuration whose halves have DIFFERENT quorums and lets
// only one half answer.  (1 2 3) at the start; leader 1 is given JointExplicit [add 4, add 5, remove 2]: (1 3 4 5)&&(1 2 3), applied everywhere.
// Then 2 and 3 are cut off.  A proposal is acknowledged by 4 and 5 - a majority of the incoming half, not of the outgoing one: it must NOT be
// committed.  Node 4 campaigns: 5 and 1 grant - again a majority of the incoming half only: it must NOT win.  The partition is healed and the
// schedule continues at random (the votes of 2 and 3 and the acknowledgements are still on their way).
func (s *sim) scriptJointSplit() {
	any := func(pb.Message) bool { return true }
	s.doCampaign(0)
	s.settle(any)
	if s.bad || s.nodes[0].rn.BasicStatus().RaftState != raft.StateLeader {
		return
	}
	nd := s.nodes[0]
	cc := pb.ConfChangeV2{Transition: pb.ConfChangeTransitionJointExplicit, Changes: []pb.ConfChangeSingle{
		{Type: pb.ConfChangeAddNode, NodeID: 4}, {Type: pb.ConfChangeAddNode, NodeID: 5}, {Type: pb.ConfChangeRemoveNode, NodeID: 2}}}
	s.stats["confchangev2-"+v2Kind(cc)]++
	s.event("confchange", 0, func() []string {
		err := nd.rn.ProposeConfChange(cc)
		if err != nil && !errors.Is(err, raft.ErrProposalDropped) {
			panic(fmt.Sprintf("harness: ProposeConfChange(v2): %v", err))
		}
		return []string{s.propsInput(nd, []pb.Entry{v2Entry(cc)}, err)}
	})
	s.settle(any) // replicated, committed under (1 2 3), applied; 4 and 5 catch up and apply it too
	if s.bad || len(nd.rn.Status().Config.Voters[1]) == 0 || len(s.nodes[3].rn.Status().Config.Voters[1]) == 0 {
		return
	}
	s.group[1], s.group[2] = 1, 1 // ids 2 and 3 hear nothing from now on
	s.doPropose(0)
	s.settle(any) // acknowledged by 4 and 5 only
	if s.bad {
		return
	}
	s.doCampaign(3) // id 4, a voter of the incoming half only
	s.settle(any)   // granted by 5 and 1 only
	for i := range s.group {
		s.group[i] = 0
	}
	s.stats["scripted-joint-split"]++
}

func (s *sim) run(events int) {
	if s.prof.script && s.n == 5 {
		s.scriptConflictInsideReady()
	} else if s.prof.joint && s.n == 5 && s.rng.Intn(2) == 0 {
		s.scriptJointSplit()
	} else if s.prof.report > 0 && s.n >= 3 && s.rng.Intn(2) == 0 {
		s.scriptSnapReport()
	} else if s.rng.Float64() < 0.7 {
		s.doCampaign(s.rng.Intn(s.n))
	}
	p := s.prof
	total := p.wTick + p.wDeliver + p.wDrop + p.wPropose + p.wCampaign + p.wCrash + p.wCompact + p.member + p.report
	idle, lastEv := 0, -1
	for s.evNo < events && !s.bad {
		if s.evNo == lastEv {
			if idle++; idle > 200000 {
				// nothing can happen any more (every node has applied its own removal): the schedule is over
				fmt.Fprintf(s.w, "# END-OF-CLUSTER event=%d: no node is left to take an event\n", s.evNo)
				break
			}
		} else {
			idle, lastEv = 0, s.evNo
		}
		if p.partition > 0 && s.evNo%p.partition == p.partition-1 {
			s.repartition()
		}
		if p.lag && s.n > 1 && s.evNo%60 == 10 {
			// cut one node off (its own group) for a stretch, reconnect it later
			if s.lagNode >= 0 {
				s.group[s.lagNode] = 0
				s.lagNode = -1
			} else {
				s.lagNode = s.rng.Intn(s.n)
				s.group[s.lagNode] = 1
			}
		}
		if len(s.snapSent) > 0 {
			ss := s.snapSent
			s.snapSent = nil
			for _, lf := range ss {
				if !s.bad {
					s.reportFreshSnap(lf[0], lf[1])
				}
			}
			continue
		}
		if s.forced != "" {
			key := s.forced
			s.forced = ""
			done := false
			for k, pm := range s.pool {
				if pm.key == key && s.deliverable(k) {
					s.deliverAt(k)
					done = true
					break
				}
			}
			if done {
				continue
			}
		}
		up := s.upNodes()
		r := s.rng.Intn(total)
		switch {
		case r < p.wTick:
			if len(up) > 0 {
				s.doTick(up[s.rng.Intn(len(up))])
			}
		case r < p.wTick+p.wDeliver:
			if !s.doDeliver() && len(up) > 0 {
				s.doTick(up[s.rng.Intn(len(up))])
			}
		case r < p.wTick+p.wDeliver+p.wDrop:
			if len(s.pool) > 0 {
				s.removeFromPool(s.rng.Intn(len(s.pool)))
				s.stats["dropped"]++
			}
		case r < p.wTick+p.wDeliver+p.wDrop+p.wPropose:
			// usually at a node that believes it is the leader
			var ls []int
			for _, i := range up {
				if s.nodes[i].rn.BasicStatus().RaftState == raft.StateLeader {
					ls = append(ls, i)
				}
			}
			if len(ls) > 0 && s.rng.Float64() < 0.75 {
				s.doPropose(ls[s.rng.Intn(len(ls))])
			} else if len(up) > 0 {
				s.doPropose(up[s.rng.Intn(len(up))])
			}
		case r < p.wTick+p.wDeliver+p.wDrop+p.wPropose+p.wCampaign:
			if len(up) > 0 {
				s.doCampaign(up[s.rng.Intn(len(up))])
			}
		case r < p.wTick+p.wDeliver+p.wDrop+p.wPropose+p.wCampaign+p.wCrash:
			i := s.rng.Intn(s.n)
			if s.nodes[i].removed {
				break
			}
			if s.nodes[i].down || s.rng.Float64() < 0.5 {
				s.stats["restarts"]++
				s.doRestart(i) // crash (if it was up) and restart from the persisted state
				if s.prof.lazy && !s.bad && s.rng.Intn(2) == 0 {
					// a restarted node whose election timer fires while it is still replaying its log (pages pending)
					for k := s.rng.Intn(3); k > 0 && !s.bad; k-- {
						s.doTick(i)
					}
					if !s.bad {
						s.doCampaign(i)
					}
				}
			} else {
				s.nodes[i].down = true // crash now, restart later; nothing reaches it meanwhile
				s.stats["crashes"]++
			}
		case r < p.wTick+p.wDeliver+p.wDrop+p.wPropose+p.wCampaign+p.wCrash+p.wCompact:
			if len(up) > 0 {
				s.doCompact(up[s.rng.Intn(len(up))])
			}
		case r < p.wTick+p.wDeliver+p.wDrop+p.wPropose+p.wCampaign+p.wCrash+p.wCompact+p.report:
			s.doRandomReport()
		default:
			if len(up) > 0 {
				s.doConfChange(up[s.rng.Intn(len(up))])
			}
		}
	}
	// summary of what the schedule actually did
	maxc, maxl := uint64(0), 0
	for _, nd := range s.nodes {
		if c := nd.hCommit - 1; c > maxc {
			maxc = c
		}
		if len(nd.shadow) > maxl {
			maxl = len(nd.shadow)
		}
	}
	keys := make([]string, 0, len(s.stats))
	for k := range s.stats {
		keys = append(keys, k)
	}
	sort.Strings(keys)
	var b strings.Builder
	for _, k := range keys {
		fmt.Fprintf(&b, " %s=%d", k, s.stats[k])
	}
	fmt.Fprintf(s.w, "# STATS n=%d profile=%s events=%d leader-terms=%d max-commit=%d max-log=%d%s\n", s.n, s.prof.name, s.evNo, len(s.leaders), maxc, maxl, b.String())
}

// ---------------------------------------------------------------------------------------- Stage A: quorum functions, differentially

func stageA(w *bufio.Writer, rng *rand.Rand, cases int) {
	for c := 0; c < cases; c++ {
		n := 1 + rng.Intn(7)
		cfg := quorum.MajorityConfig{}
		for id := 1; id <= n; id++ {
			cfg[uint64(id)] = struct{}{}
		}
		hi := []int{2, 4, 10, 1000}[rng.Intn(4)]
		acked := map[uint64]quorum.Index{}
		vals := make([]string, n)
		for id := 1; id <= n; id++ {
			v := rng.Intn(hi)
			acked[uint64(id)] = quorum.Index(v)
			vals[id-1] = strconv.Itoa(v)
		}
		ci := cfg.CommittedIndex(ackIdx(acked))
		fmt.Fprintf(w, "Q %d %s %d\n", n, strings.Join(vals, ","), uint64(ci))
		votes := map[uint64]bool{}
		vs := make([]string, n)
		for id := 1; id <= n; id++ {
			switch rng.Intn(3) {
			case 0:
				vs[id-1] = "n"
			case 1:
				votes[uint64(id)] = true
				vs[id-1] = "1"
			default:
				votes[uint64(id)] = false
				vs[id-1] = "0"
			}
		}
		res := cfg.VoteResult(votes)
		r := map[quorum.VoteResult]string{quorum.VoteWon: "won", quorum.VoteLost: "lost", quorum.VotePending: "pending"}[res]
		fmt.Fprintf(w, "V %d %s %s\n", n, strings.Join(vs, ","), r)
	}
}

type ackIdx map[uint64]quorum.Index

func (m ackIdx) AckedIndex(id uint64) (quorum.Index, bool) { i, ok := m[id]; return i, ok }

// ---------------------------------------------------------------------------------------- entry point

func runRaftsim(args []string) {
	fs := flag.NewFlagSet("raftsim", flag.ExitOnError)
	schedules := fs.Int("schedules", 10, "number of schedules")
	events := fs.Int("events", 250, "events per schedule")
	seed := fs.Int64("seed", 1, "seed")
	onlyN := fs.Int("n", 0, "cluster size (0: mix of 1,3,5)")
	onlyP := fs.String("profile", "", "scheduler profile (default: all in turn)")
	qa := fs.Int("stageA", 0, "random cases for CommittedIndex / VoteResult")
	qd := fs.Int("stageD", 0, "random cases for JointConfig.CommittedIndex / VoteResult and confchange.Changer sequences (quorum.go)")
	qj := fs.Int("stageJ", 0, "scenarios of joint configuration changes through RawNode (raftjoint.go)")
	one := fs.Int64("one", 0, "run exactly one schedule with this schedule seed (replay; give -n and -profile)")
	_ = fs.Parse(args)
	if v := os.Getenv("VERIF_SEED"); v != "" && *seed == 1 {
		if x, err := strconv.ParseInt(v, 10, 64); err == nil {
			*seed = x
		}
	}
	w := bufio.NewWriterSize(os.Stdout, 1<<20)
	defer w.Flush()
	master := rand.New(rand.NewSource(*seed))
	if *one != 0 {
		prof := profiles[0]
		if p, ok := profileByName(*onlyP); ok {
			prof = p
		}
		n := 3
		if *onlyN > 0 {
			n = *onlyN
		}
		if prof.script {
			n = 5
		}
		fmt.Fprintf(w, "R %d %d %s %d\n", n, *one, prof.name, *events)
		newSim(n, *one, prof, w).run(*events)
		return
	}
	sizes := []int{3, 5, 3, 1, 5, 3, 3, 5}
	for k := 0; k < *schedules; k++ {
		n := sizes[(k/len(profiles))%len(sizes)]
		if *onlyN > 0 {
			n = *onlyN
		}
		prof := profiles[k%len(profiles)]
		if *onlyP != "" {
			if p, ok := profileByName(*onlyP); ok {
				prof = p
			}
		}
		if prof.joint && *onlyN == 0 {
			n = []int{5, 3, 5, 5, 3, 5, 4, 5}[k%8] // mostly clusters in which nodes can be added: 3 voters out of 4 or 5 nodes at the start
		}
		if prof.script {
			n = 5
		}
		sd := master.Int63()
		fmt.Fprintf(w, "R %d %d %s %d\n", n, sd, prof.name, *events)
		s := newSim(n, sd, prof, w)
		s.run(*events)
	}
	if *qa > 0 {
		stageA(w, master, *qa)
	}
	if *qd > 0 {
		stageD(w, master, *qd)
	}
	if *qj > 0 {
		stageJ(w, master, *qj)
	}
}
