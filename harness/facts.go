package main

import (
	"encoding/json"
	"fmt"
	"go/ast"
	"go/parser"
	"go/token"
	"os"
	"path/filepath"
	"sort"
	"strings"
)

// facts engine: plain facts regenerated from the repository's SOURCE on every run (go/parser + go/ast, standard library only).
//   F1  registered command names and their executor functions (RegisterCommand("name", fn) calls in memdb)
//   F2  per executor: the syntactic order of CheckTTL / locks.* calls (with `defer`) in its body
//   F4  the order of the calls in raftexample.serveChannels' `case rd := <-rc.Node.Ready():` arm
//   F5  selected constants / literals

type factsOut struct {
	Commands     map[string]string   `json:"commands"`  // name -> executor
	Skeletons    map[string][]string `json:"skeletons"` // executor -> tokens
	ReadyArm     []string            `json:"ready_arm"`
	Consts       map[string]string   `json:"consts"`
	Sites        []siteOut           `json:"sites"` // F3: panic-capable expressions (sites.go)
	SitesErr     string              `json:"sites_error,omitempty"`
	ExecCalls    []execCall          `json:"exec_calls"`     // every call of a registered executor, with the guaranteed len of the command passed
	ReplySites   []replySite         `json:"reply_sites"`    // F6: line-reply constructor calls with a non-constant payload
	NilSites     []nilSite           `json:"nil_sites"`      // F3 (second part): non-`,ok` assertions and dereferences of possibly-nil lookup results
	ReplyLiteral int                 `json:"reply_literal"`  // … and how many have a compile-time constant payload
	ExecEntryMin int                 `json:"exec_entry_min"` // what the analysis of an executor assumes about len(cmd) on entry
	AliasSites   []aliasSite         `json:"alias_sites"`    // F7: in-place writes to byte slices and values installed in the keyspace, with the provenance class of the slice
}

func callName(e ast.Expr) string {
	switch v := e.(type) {
	case *ast.SelectorExpr:
		return callName(v.X) + "." + v.Sel.Name
	case *ast.Ident:
		return v.Name
	case *ast.CallExpr:
		return callName(v.Fun) + "()"
	}
	return "?"
}

func lockToken(name string) string {
	switch {
	case strings.HasSuffix(name, ".CheckTTL"):
		return "TTL"
	case strings.HasSuffix(name, "locks.Lock"):
		return "L"
	case strings.HasSuffix(name, "locks.UnLock"):
		return "U"
	case strings.HasSuffix(name, "locks.RLock"):
		return "RL"
	case strings.HasSuffix(name, "locks.RUnLock"):
		return "RU"
	case strings.HasSuffix(name, "locks.LockMulti"):
		return "LM"
	case strings.HasSuffix(name, "locks.UnLockMulti"):
		return "UM"
	case strings.HasSuffix(name, "locks.RLockMulti"):
		return "RLM"
	case strings.HasSuffix(name, "locks.RUnLockMulti"):
		return "RUM"
	}
	return ""
}

func skeleton(fn *ast.FuncDecl) []string {
	var toks []string
	ast.Inspect(fn.Body, func(n ast.Node) bool {
		switch v := n.(type) {
		case *ast.DeferStmt:
			if t := lockToken(callName(v.Call.Fun)); t != "" {
				toks = append(toks, "defer:"+t)
			}
			return false
		case *ast.CallExpr:
			if t := lockToken(callName(v.Fun)); t != "" {
				toks = append(toks, t)
			}
		case *ast.ForStmt, *ast.RangeStmt:
			toks = append(toks, "loop{")
			// children are visited next; the closing brace is appended when Inspect leaves the node (nil callback below)
		}
		return true
	})
	return toks
}

func runFacts(args []string) {
	repo := "/repo"
	if len(args) > 0 {
		repo = args[0]
	}
	out := factsOut{Commands: map[string]string{}, Skeletons: map[string][]string{}, Consts: map[string]string{}}
	fset := token.NewFileSet()
	funcs := map[string]*ast.FuncDecl{}
	memdbFiles, _ := filepath.Glob(filepath.Join(repo, "memdb", "*.go"))
	sort.Strings(memdbFiles)
	for _, f := range memdbFiles {
		if strings.HasSuffix(f, "_test.go") || strings.Contains(filepath.Base(f), "verif_") {
			continue
		}
		file, err := parser.ParseFile(fset, f, nil, 0)
		if err != nil {
			fmt.Fprintln(os.Stderr, err)
			os.Exit(1)
		}
		for _, d := range file.Decls {
			if fn, ok := d.(*ast.FuncDecl); ok && fn.Body != nil && fn.Recv == nil {
				funcs[fn.Name.Name] = fn
			}
		}
		ast.Inspect(file, func(n ast.Node) bool {
			if c, ok := n.(*ast.CallExpr); ok && callName(c.Fun) == "RegisterCommand" && len(c.Args) == 2 {
				if lit, ok := c.Args[0].(*ast.BasicLit); ok {
					out.Commands[strings.Trim(lit.Value, "\"")] = callName(c.Args[1])
				}
			}
			return true
		})
	}
	for _, fn := range out.Commands {
		if d, ok := funcs[fn]; ok {
			out.Skeletons[fn] = skeleton(d)
		}
	}
	// F4: the Ready arm of serveChannels
	if file, err := parser.ParseFile(fset, filepath.Join(repo, "raftexample", "raft.go"), nil, 0); err == nil {
		for _, d := range file.Decls {
			fn, ok := d.(*ast.FuncDecl)
			if !ok || fn.Name.Name != "serveChannels" {
				continue
			}
			ast.Inspect(fn.Body, func(n ast.Node) bool {
				cc, ok := n.(*ast.CommClause)
				if !ok || cc.Comm == nil {
					return true
				}
				as, ok := cc.Comm.(*ast.AssignStmt)
				if !ok || len(as.Rhs) != 1 || !strings.Contains(callName(as.Rhs[0].(*ast.UnaryExpr).X), "Ready") {
					return true
				}
				for _, st := range cc.Body {
					ast.Inspect(st, func(m ast.Node) bool {
						if c, ok := m.(*ast.CallExpr); ok {
							name := callName(c.Fun)
							for _, want := range []string{"saveSnap", "wal.Save", "ApplySnapshot", "wal.Sync", "publishSnapshot", "raftStorage.Append", "transport.Send",
								"publishEntries", "maybeTriggerSnapshot", "Node.Advance"} {
								if strings.HasSuffix(name, want) {
									out.ReadyArm = append(out.ReadyArm, want)
								}
							}
						}
						return true
					})
				}
				return false
			})
		}
		// F5: startRaft's Config literal fields
		ast.Inspect(file, func(n ast.Node) bool {
			cl, ok := n.(*ast.CompositeLit)
			if !ok || callName(cl.Type) != "raft.Config" {
				return true
			}
			for _, el := range cl.Elts {
				if kv, ok := el.(*ast.KeyValueExpr); ok {
					out.Consts["raft.Config."+callName(kv.Key)] = exprText(fset, kv.Value)
				}
			}
			return true
		})
	}
	// F3: index / slice / assertion / make / division sites with the guaranteed minimum length at each (sites.go)
	if sites, x, err := extractSites(repo); err != nil {
		out.SitesErr = err.Error()
	} else {
		out.Sites, out.ExecCalls, out.ExecEntryMin = sites, x.calls, execEntryMin
		out.ReplySites, out.ReplyLiteral = x.replies, x.literal
		out.NilSites = x.nils
		out.AliasSites = x.alias
		if out.AliasSites == nil {
			out.AliasSites = []aliasSite{}
		}
		if out.ReplySites == nil {
			out.ReplySites = []replySite{}
		}
	}
	enc := json.NewEncoder(os.Stdout)
	enc.SetIndent("", " ")
	enc.SetEscapeHTML(false)
	enc.Encode(out)
}

func exprText(fset *token.FileSet, e ast.Expr) string {
	switch v := e.(type) {
	case *ast.BasicLit:
		return v.Value
	case *ast.Ident:
		return v.Name
	case *ast.BinaryExpr:
		return exprText(fset, v.X) + v.Op.String() + exprText(fset, v.Y)
	case *ast.CallExpr:
		return callName(v.Fun) + "(…)"
	case *ast.SelectorExpr:
		return callName(v)
	}
	return "?"
}
