package main

import (
	"encoding/json"
	"fmt"
	"runtime"
	"sync"
	"sync/atomic"
	"time"

	"github.com/innovationb1ue/RedisGO/config"
	"github.com/innovationb1ue/RedisGO/server"
)

// perturb: yield at every lock release (hook H2 event) so that the window between two critical sections of one command is wide
var perturb atomic.Bool

// rearm scenario (C05/C06, real clock): keys are given a 1 s deadline late in a second; right after the deadline second begins
// (only the lazy check and the not-yet-fired timers can expire them) readers probe each key while a writer re-arms it with a
// fresh value and a long deadline. Whatever the interleaving, the acknowledged re-arming write must survive: a reader (or timer)
// that judged the OLD deadline may only ever delete the old value.
func rearm(seed int64, rounds int, want map[string]bool, enc *json.Encoder) {
	if !want["all"] && !want["rearm"] {
		return
	}
	for r := 0; r < rounds; r++ {
		rep := concReport{Scenario: "rearm", Seed: seed + int64(r), Goroutines: 9, Shards: []int{2, 1024}[r%2]}
		config.Configures.ShardNum = rep.Shards
		mgr := server.NewManager(config.Configures)
		const nkeys = 60
		// attach the deadlines at ~0.82 s into the second
		now := time.Now()
		wait := 820 - int(now.UnixMilli()%1000)
		if wait <= 0 {
			wait += 1000
		}
		time.Sleep(time.Duration(wait) * time.Millisecond)
		for i := 0; i < nkeys; i++ {
			runCmd(mgr, "SETEX", fmt.Sprintf("r%d", i), "1", "old")
		}
		// the deadline second has begun ~30 ms ago: expired, physically present
		now = time.Now()
		time.Sleep(time.Duration(1030-int(now.UnixMilli()%1000)) * time.Millisecond)
		perturb.Store(true)
		var wg sync.WaitGroup
		var bad atomic.Value
		for i := 0; i < nkeys; i++ {
			k := fmt.Sprintf("r%d", i)
			for g := 0; g < 8; g++ {
				wg.Add(1)
				go func(g int) {
					defer wg.Done()
					if g%2 == 0 {
						runCmd(mgr, "GET", k)
					} else {
						runCmd(mgr, "EXISTS", k)
					}
				}(g)
			}
			wg.Add(1)
			go func() {
				defer wg.Done()
				runtime.Gosched()
				if out, _ := runCmd(mgr, "SETEX", k, "100", "new"); out != "+OK\r\n" {
					bad.CompareAndSwap(nil, fmt.Sprintf("SETEX %s 100 new -> %q", k, out))
				}
			}()
		}
		wg.Wait()
		perturb.Store(false)
		rep.Ops = nkeys * 9
		lost := 0
		detail := ""
		for i := 0; i < nkeys; i++ {
			k := fmt.Sprintf("r%d", i)
			if out, _ := runCmd(mgr, "GET", k); out != "$3\r\nnew\r\n" {
				lost++
				if detail == "" {
					ttl, _ := runCmd(mgr, "TTL", k)
					detail = fmt.Sprintf("SETEX %s 1 old; <deadline passes>; {GET/EXISTS %s x8 || SETEX %s 100 new -> +OK}; GET %s -> %q (TTL %q): the acknowledged write was deleted by a stale expiry verdict", k, k, k, k, out, ttl)
				}
			}
		}
		if b := bad.Load(); b != nil {
			rep.Result, rep.Detail = "invariant", b.(string)
		} else if lost > 0 {
			rep.Result, rep.Detail = "invariant", fmt.Sprintf("%d of %d re-armed keys lost: %s", lost, nkeys, detail)
		} else {
			rep.Result = "ok"
		}
		enc.Encode(rep)
	}
}
