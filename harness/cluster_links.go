package main

import (
	"fmt"
	"io"
	"net"
	"sync"
	"time"
)

// Proxied links of the cluster engine (scenario field "proxied"): network partitions between LIVE node processes.
//
// Every directed link i→j is a TCP forwarder Q(i→j) owned by the harness: it listens on a fresh loopback port and pipes bytes both
// ways to node j's real raft port.  Node i's PeerAddrs names its own real raft URL at position i and Q(i→j) at every other
// position j; rafthttp only dials the URLs of its own list and listens on its own URL, so a per-node view of the peer URLs is all
// it needs.  rafthttp's stream for the messages j→i is a long GET that i dials (through Q(i→j)); the messages i→j travel on the
// stream j dialled (through Q(j→i)), snapshots and the fallback pipeline are POSTs of the sender.  cut(i,j) therefore severs BOTH
// forwarders: every open piped connection is closed and every new one is accepted and closed at once, so nothing flows between i
// and j in either direction while both processes run and keep serving their clients.  heal(i,j) lets new connections through
// again (rafthttp redials every 100 ms).  A partition is NOT a crash: nothing is lost on disk, both sides keep their state.

type clLink struct {
	from, to int
	ln       net.Listener
	port     int
	target   string
	mu       sync.Mutex
	cut      bool
	closed   bool
	conns    map[net.Conn]struct{}
	wg       sync.WaitGroup
	piped    int // connections piped so far
	refused  int // connections closed on arrival (link cut)
	severed  int // open connections closed by a cut
}

func newLink(from, to int, target string) (*clLink, error) {
	var lastErr error
	for try := 0; try < 50; try++ {
		p := freePort()
		ln, err := net.Listen("tcp", fmt.Sprintf("127.0.0.1:%d", p))
		if err != nil {
			lastErr = err
			continue
		}
		l := &clLink{from: from, to: to, ln: ln, port: p, target: target, conns: map[net.Conn]struct{}{}}
		l.wg.Add(1)
		go l.serve()
		return l, nil
	}
	return nil, fmt.Errorf("no port for the forwarder %d->%d: %v", from, to, lastErr)
}

func (l *clLink) url() string { return fmt.Sprintf("http://127.0.0.1:%d", l.port) }

func (l *clLink) serve() {
	defer l.wg.Done()
	for {
		conn, err := l.ln.Accept()
		if err != nil {
			return // listener closed
		}
		l.mu.Lock()
		if l.cut || l.closed {
			l.refused++
			l.mu.Unlock()
			abort(conn)
			continue
		}
		l.conns[conn] = struct{}{}
		l.piped++
		l.wg.Add(1)
		l.mu.Unlock()
		go l.pipe(conn)
	}
}

// abort closes a connection without lingering (RST): the dialler sees the failure at once, as with an unreachable peer
func abort(c net.Conn) {
	if t, ok := c.(*net.TCPConn); ok {
		t.SetLinger(0)
	}
	c.Close()
}

func (l *clLink) drop(cs ...net.Conn) {
	l.mu.Lock()
	for _, c := range cs {
		if c != nil {
			delete(l.conns, c)
		}
	}
	l.mu.Unlock()
	for _, c := range cs {
		if c != nil {
			abort(c)
		}
	}
}

func (l *clLink) pipe(down net.Conn) {
	defer l.wg.Done()
	up, err := net.DialTimeout("tcp", l.target, time.Second)
	if err != nil {
		l.drop(down) // the target process is down: the same as a refused connection
		return
	}
	l.mu.Lock()
	if l.cut || l.closed {
		l.mu.Unlock()
		l.drop(down, up)
		return
	}
	l.conns[up] = struct{}{}
	l.mu.Unlock()
	done := make(chan struct{}, 2)
	cp := func(dst, src net.Conn) {
		io.Copy(dst, src)
		// one direction ended (EOF, or a cut closed the sockets): end the other one as well
		dst.Close()
		src.Close()
		done <- struct{}{}
	}
	go cp(up, down)
	go cp(down, up)
	<-done
	<-done
	l.drop(down, up)
}

func (l *clLink) setCut(cut bool) (severed int) {
	l.mu.Lock()
	l.cut = cut
	var cs []net.Conn
	if cut {
		for c := range l.conns {
			cs = append(cs, c)
		}
		l.severed += len(cs)
	}
	l.mu.Unlock()
	for _, c := range cs {
		abort(c)
	}
	return len(cs)
}

func (l *clLink) isCut() bool {
	l.mu.Lock()
	defer l.mu.Unlock()
	return l.cut
}

func (l *clLink) close() {
	l.mu.Lock()
	l.closed = true
	var cs []net.Conn
	for c := range l.conns {
		cs = append(cs, c)
	}
	l.mu.Unlock()
	l.ln.Close()
	for _, c := range cs {
		abort(c)
	}
	l.wg.Wait()
}

// setupLinks creates the forwarders for every ordered pair of the nodes added so far (before the nodes are started)
func (c *cluster) setupLinks() error {
	c.links = map[[2]int]*clLink{}
	for _, a := range c.nodes {
		for _, b := range c.nodes {
			if a == b {
				continue
			}
			l, err := newLink(a.id, b.id, fmt.Sprintf("127.0.0.1:%d", b.raftPort))
			if err != nil {
				return err
			}
			c.links[[2]int{a.id, b.id}] = l
		}
	}
	return nil
}

// peersFor: the peer URL list node n is configured with (its own view when the links are proxied)
func (c *cluster) peersFor(n *clNode) []string {
	if c.links == nil {
		return c.peers
	}
	out := make([]string, len(c.peers))
	for i := range c.peers {
		if l, ok := c.links[[2]int{n.id, i + 1}]; ok {
			out[i] = l.url()
		} else {
			out[i] = c.peers[i]
		}
	}
	return out
}

// cut severs both directions between nodes a and b; returns the number of open connections it closed
func (c *cluster) cut(a, b int) int {
	n := 0
	for _, k := range [][2]int{{a, b}, {b, a}} {
		if l, ok := c.links[k]; ok {
			n += l.setCut(true)
		}
	}
	return n
}

func (c *cluster) heal(a, b int) {
	for _, k := range [][2]int{{a, b}, {b, a}} {
		if l, ok := c.links[k]; ok {
			l.setCut(false)
		}
	}
}

// partition cuts every link between the group and the rest of the cluster
func (c *cluster) partition(group []*clNode) int {
	in := map[int]bool{}
	for _, g := range group {
		in[g.id] = true
	}
	n := 0
	for _, g := range group {
		for _, o := range c.nodes {
			if !in[o.id] {
				n += c.cut(g.id, o.id)
			}
		}
	}
	return n
}

func (c *cluster) isolate(n *clNode) int { return c.partition([]*clNode{n}) }

func (c *cluster) healAll() {
	for _, l := range c.links {
		l.setCut(false)
	}
}

func (c *cluster) anyCut() bool {
	for _, l := range c.links {
		if l.isCut() {
			return true
		}
	}
	return false
}

func (c *cluster) closeLinks() {
	for _, l := range c.links {
		l.close()
	}
}

// linkStats: totals over all forwarders (evidence that the raft traffic really went through them and that cuts closed something)
func (c *cluster) linkStats() (piped, refused, severed int) {
	for _, l := range c.links {
		l.mu.Lock()
		piped += l.piped
		refused += l.refused
		severed += l.severed
		l.mu.Unlock()
	}
	return
}
