package main

import (
	"context"
	"encoding/json"
	"fmt"
	"math/rand"
	"os"
	"runtime"
	"sort"
	"strconv"
	"strings"
	"sync"
	"sync/atomic"
	"time"

	"github.com/anishathalye/porcupine"
	"github.com/innovationb1ue/RedisGO/config"
	"github.com/innovationb1ue/RedisGO/memdb"
	"github.com/innovationb1ue/RedisGO/server"
)

// conc engine: many goroutines issue commands against one server.Manager; histories are checked for linearizability with
// porcupine against small sequential models, invariants are checked at quiescence, a watchdog reports stuck commands, and
// (hook H2) every goroutine's lock/access events are checked for the lockset discipline.  This is exploration in support of
// the generic Lean theorems (Conc/*.lean); it is not a proof.

type concOp struct {
	Cmd  []string
	Key  string
	Out  string
	Call int64
	Ret  int64
	G    int
}

type concReport struct {
	Scenario   string   `json:"scenario"`
	Seed       int64    `json:"seed"`
	Goroutines int      `json:"goroutines"`
	Ops        int      `json:"ops"`
	Shards     int      `json:"shards"`
	Result     string   `json:"result"` // ok | not-linearizable | invariant | stuck | panic | lockset
	Detail     string   `json:"detail,omitempty"`
	History    []concOp `json:"history,omitempty"`
	// pubsub scenarios: number of hook H2b events fed to the model's operation automaton (conc_pubsub_trace.go)
	TraceEvents int64 `json:"trace_events,omitempty"`
	// small pubsub scenarios: every goroutine's whole event sequence, judged again by the Lean automaton PSC.TA.ok (driver engine PST)
	Traces map[string]string `json:"traces,omitempty"`
	// pubsub-stall: the observed history (confirmations, stall / resume / close of the slow subscriber, PUBLISH written / answered, final holdings), judged by the
	// Lean model PSS (Conc/PubSubSlow.lean) through the driver engine PSH
	Hist string `json:"hist,omitempty"`
}

func runCmd(mgr *server.Manager, argv ...string) (out string, panicked bool) {
	defer func() {
		if e := recover(); e != nil {
			out, panicked = fmt.Sprintf("PANIC %v", e), true
		}
	}()
	b := make([][]byte, len(argv))
	for i, a := range argv {
		b[i] = []byte(a)
	}
	r := mgr.ExecCommand(context.Background(), b, nil)
	if r == nil || isNilData(r) {
		return "NIL", false
	}
	return string(r.ToBytes()), false
}

// ---- per-goroutine lockset check (Eraser style) over hook H2 events

type lockset struct {
	held map[int]bool // pos -> write mode
}

var (
	lsMu   sync.Mutex
	lsByG  = map[int64]*lockset{}
	lsBad  atomic.Value // first violation text
	lsDB   *memdb.MemDb
	lsOn   atomic.Bool
	lsSeen atomic.Int64
)

func locksetHook(kind string, cm *memdb.ConcurrentMap, key string, pos int) {
	if perturb.Load() && (kind == "RU" || kind == "U") {
		runtime.Gosched() // schedule perturbation between the critical sections of one command
	}
	if !lsOn.Load() {
		return
	}
	g := goid()
	lsMu.Lock()
	ls := lsByG[g]
	if ls == nil {
		ls = &lockset{held: map[int]bool{}}
		lsByG[g] = ls
	}
	db := lsDB
	lsMu.Unlock()
	lsSeen.Add(1)
	bad := func(s string) {
		if lsBad.Load() == nil {
			buf := make([]byte, 2048)
			n := runtime.Stack(buf, false)
			lsBad.Store(s + "\n" + string(buf[:n]))
		}
	}
	switch kind {
	case "L", "RL":
		for p := range ls.held {
			if p >= pos {
				bad(fmt.Sprintf("acquires stripe %d while holding stripe %d (not ascending)", pos, p))
			}
		}
		ls.held[pos] = kind == "L"
	case "U", "RU":
		if _, ok := ls.held[pos]; !ok {
			bad(fmt.Sprintf("releases stripe %d it does not hold", pos))
		}
		delete(ls.held, pos)
	default:
		if db == nil {
			return
		}
		name := db.VerifMapName(cm)
		if name != "db" && name != "ttl" {
			return
		}
		p := db.VerifLockPos(key)
		w, ok := ls.held[p]
		if !ok {
			bad(fmt.Sprintf("%s on %s[%q] without holding stripe %d", kind, name, key, p))
		} else if kind != "get" && !w {
			bad(fmt.Sprintf("%s on %s[%q] under a read lock", kind, name, key))
		}
	}
}

// ---- porcupine models

type kvInput struct {
	Op  string // get set setnx append strlen incr incrby decr del exists rpush lpop llen sadd srem sismember scard
	Arg string
}

func parseInt(s string) (int64, bool) {
	v, err := strconv.ParseInt(s, 10, 64)
	return v, err == nil
}

// state: "~" missing | "s:<bytes>" string | "l:<a,b,c>" list | "t:<sorted members>" set
func kvStep(state string, in kvInput, out string) (bool, string) {
	missing := state == "~"
	isStr := strings.HasPrefix(state, "s:")
	str := strings.TrimPrefix(state, "s:")
	if missing {
		str = ""
	}
	bulk := func(s string) string { return fmt.Sprintf("$%d\r\n%s\r\n", len(s), s) }
	integer := func(n int64) string { return fmt.Sprintf(":%d\r\n", n) }
	var list []string
	if strings.HasPrefix(state, "l:") && len(state) > 2 {
		list = strings.Split(state[2:], ",")
	}
	var set []string
	if strings.HasPrefix(state, "t:") && len(state) > 2 {
		set = strings.Split(state[2:], ",")
	}
	wrong := strings.HasPrefix(out, "-")
	switch in.Op {
	case "get":
		if missing {
			return out == "$-1\r\n", state
		}
		if isStr {
			return out == bulk(str), state
		}
		return wrong, state
	case "set":
		if missing || isStr {
			return out == "+OK\r\n", "s:" + in.Arg
		}
		return wrong, state
	case "setnx":
		if missing {
			return out == integer(1), "s:" + in.Arg
		}
		return out == integer(0), state
	case "setgone":
		// SET k v EXAT 1: acknowledged, and expired at once — from then on the key is missing for every observer
		if missing || isStr {
			return out == "+OK\r\n", "~"
		}
		return wrong, state
	case "expirenow":
		// EXPIRE k -1: the deadline is in the past, the key is gone for every observer from here on
		if missing {
			return out == integer(0), "~"
		}
		return out == integer(1), "~"
	case "setex":
		return out == "+OK\r\n", "s:" + in.Arg
	case "append":
		if missing || isStr {
			n := str + in.Arg
			return out == integer(int64(len(n))), "s:" + n
		}
		return wrong, state
	case "strlen":
		if missing {
			return out == integer(0), state
		}
		if isStr {
			return out == integer(int64(len(str))), state
		}
		return wrong, state
	case "incr", "decr", "incrby":
		d := int64(1)
		if in.Op == "decr" {
			d = -1
		}
		if in.Op == "incrby" {
			d, _ = parseInt(in.Arg)
		}
		cur := int64(0)
		if !missing {
			if !isStr {
				return wrong, state
			}
			v, ok := parseInt(str)
			if !ok {
				return wrong, state
			}
			cur = v
		}
		return out == integer(cur+d), "s:" + strconv.FormatInt(cur+d, 10)
	case "del":
		if missing {
			return out == integer(0), "~"
		}
		return out == integer(1), "~"
	case "exists":
		if missing {
			return out == integer(0), state
		}
		return out == integer(1), state
	case "rpush":
		if !missing && !strings.HasPrefix(state, "l:") {
			return wrong, state
		}
		list = append(list, in.Arg)
		return out == integer(int64(len(list))), "l:" + strings.Join(list, ",")
	case "lpop":
		if missing {
			return out == "$-1\r\n", state
		}
		if !strings.HasPrefix(state, "l:") {
			return wrong, state
		}
		head := list[0]
		rest := list[1:]
		ns := "~"
		if len(rest) > 0 {
			ns = "l:" + strings.Join(rest, ",")
		}
		return out == bulk(head), ns
	case "blpop":
		// blocking pop with a short timeout: the head element if the list is non-empty at its linearization point, the nil
		// array if the list was missing when it gave up
		if missing {
			return out == "*-1\r\n", state
		}
		if !strings.HasPrefix(state, "l:") {
			return wrong, state
		}
		head := list[0]
		rest := list[1:]
		ns := "~"
		if len(rest) > 0 {
			ns = "l:" + strings.Join(rest, ",")
		}
		return out == fmt.Sprintf("*2\r\n$%d\r\n%s\r\n$%d\r\n%s\r\n", len(in.Arg), in.Arg, len(head), head), ns
	case "llen":
		if missing {
			return out == integer(0), state
		}
		if !strings.HasPrefix(state, "l:") {
			return wrong, state
		}
		return out == integer(int64(len(list))), state
	case "sadd":
		if !missing && !strings.HasPrefix(state, "t:") {
			return wrong, state
		}
		for _, m := range set {
			if m == in.Arg {
				return out == integer(0), state
			}
		}
		set = append(set, in.Arg)
		sort.Strings(set)
		return out == integer(1), "t:" + strings.Join(set, ",")
	case "srem":
		if missing {
			return out == integer(0), state
		}
		if !strings.HasPrefix(state, "t:") {
			return wrong, state
		}
		for i, m := range set {
			if m == in.Arg {
				set = append(set[:i:i], set[i+1:]...)
				ns := "~"
				if len(set) > 0 {
					ns = "t:" + strings.Join(set, ",")
				}
				return out == integer(1), ns
			}
		}
		return out == integer(0), state
	case "sismember":
		for _, m := range set {
			if m == in.Arg {
				return out == integer(1), state
			}
		}
		if !missing && !strings.HasPrefix(state, "t:") {
			return wrong, state
		}
		return out == integer(0), state
	case "scard":
		if missing {
			return out == integer(0), state
		}
		if !strings.HasPrefix(state, "t:") {
			return wrong, state
		}
		return out == integer(int64(len(set))), state
	}
	return false, state
}

var kvModel = porcupine.Model{
	Init: func() interface{} { return "~" },
	Step: func(state, input, output interface{}) (bool, interface{}) {
		ok, ns := kvStep(state.(string), input.(kvInput), output.(string))
		return ok, ns
	},
	Equal: func(a, b interface{}) bool { return a.(string) == b.(string) },
}

// ---- scenarios

type scenario struct {
	name string
	keys []string
	gen  func(rng *rand.Rand, g, i int, keys []string) (argv []string, key string, in kvInput)
}

func pick(rng *rand.Rand, xs []string) string { return xs[rng.Intn(len(xs))] }

var scenarios = []scenario{
	{"counter", []string{"c1", "c2"}, func(rng *rand.Rand, g, i int, keys []string) ([]string, string, kvInput) {
		k := pick(rng, keys)
		switch rng.Intn(5) {
		case 0:
			return []string{"GET", k}, k, kvInput{"get", ""}
		case 1:
			return []string{"DECR", k}, k, kvInput{"decr", ""}
		case 2:
			return []string{"INCRBY", k, "3"}, k, kvInput{"incrby", "3"}
		default:
			return []string{"INCR", k}, k, kvInput{"incr", ""}
		}
	}},
	{"register", []string{"r1", "r2", "R1"}, func(rng *rand.Rand, g, i int, keys []string) ([]string, string, kvInput) {
		k := pick(rng, keys)
		v := fmt.Sprintf("v%d_%d", g, i)
		switch rng.Intn(8) {
		case 0, 1:
			return []string{"SET", k, v}, k, kvInput{"set", v}
		case 2:
			return []string{"SETNX", k, v}, k, kvInput{"setnx", v}
		case 3:
			return []string{"APPEND", k, "x"}, k, kvInput{"append", "x"}
		case 4:
			return []string{"DEL", k}, k, kvInput{"del", ""}
		case 5:
			return []string{"EXISTS", k}, k, kvInput{"exists", ""}
		case 6:
			return []string{"STRLEN", k}, k, kvInput{"strlen", ""}
		default:
			return []string{"GET", k}, k, kvInput{"get", ""}
		}
	}},
	{"setnx", []string{"n1"}, func(rng *rand.Rand, g, i int, keys []string) ([]string, string, kvInput) {
		k := keys[0]
		v := fmt.Sprintf("w%d_%d", g, i)
		if i%7 == 6 {
			return []string{"DEL", k}, k, kvInput{"del", ""}
		}
		return []string{"SETNX", k, v}, k, kvInput{"setnx", v}
	}},
	// lazy expiry racing with re-arming writes: a key is stored already expired (the timer goroutine and every reader run CheckTTL
	// on it) while other clients give it a fresh value and deadline; an acknowledged SETEX must never be deleted by a stale verdict
	{"expiry", []string{"x1"}, func(rng *rand.Rand, g, i int, keys []string) ([]string, string, kvInput) {
		k := keys[0]
		v := fmt.Sprintf("f%d_%d", g, i)
		switch rng.Intn(6) {
		case 0:
			if os.Getenv("VERIF_NO_SETGONE") == "" {
				return []string{"SET", k, "old", "EXAT", "1"}, k, kvInput{"setgone", ""}
			}
			return []string{"EXPIRE", k, "-1"}, k, kvInput{"expirenow", ""}
		case 1:
			return []string{"EXPIRE", k, "-1"}, k, kvInput{"expirenow", ""}
		case 2, 3:
			return []string{"SETEX", k, "100", v}, k, kvInput{"setex", v}
		case 4:
			return []string{"EXISTS", k}, k, kvInput{"exists", ""}
		default:
			return []string{"GET", k}, k, kvInput{"get", ""}
		}
	}},
	{"queue", []string{"q1", "q2"}, func(rng *rand.Rand, g, i int, keys []string) ([]string, string, kvInput) {
		k := pick(rng, keys)
		v := fmt.Sprintf("e%d_%d", g, i)
		switch rng.Intn(5) {
		case 0, 1:
			return []string{"RPUSH", k, v}, k, kvInput{"rpush", v}
		case 2, 3:
			return []string{"LPOP", k}, k, kvInput{"lpop", ""}
		default:
			return []string{"LLEN", k}, k, kvInput{"llen", ""}
		}
	}},
	// blocking pops against pushes and deletes of the same list (a blocked popper re-examines the key on every poll)
	{"bqueue", []string{"b1"}, func(rng *rand.Rand, g, i int, keys []string) ([]string, string, kvInput) {
		k := keys[0]
		v := fmt.Sprintf("e%d_%d", g, i)
		switch rng.Intn(7) {
		case 0, 1:
			return []string{"RPUSH", k, v}, k, kvInput{"rpush", v}
		case 2, 3:
			return []string{"BLPOP", k, "0.05"}, k, kvInput{"blpop", k}
		case 4:
			return []string{"DEL", k}, k, kvInput{"del", ""}
		case 5:
			return []string{"LLEN", k}, k, kvInput{"llen", ""}
		default:
			return []string{"LPOP", k}, k, kvInput{"lpop", ""}
		}
	}},
	{"set", []string{"s1", "s2"}, func(rng *rand.Rand, g, i int, keys []string) ([]string, string, kvInput) {
		k := pick(rng, keys)
		m := pick(rng, []string{"a", "b", "c"})
		switch rng.Intn(6) {
		case 0, 1:
			return []string{"SADD", k, m}, k, kvInput{"sadd", m}
		case 2:
			return []string{"SREM", k, m}, k, kvInput{"srem", m}
		case 3:
			return []string{"SISMEMBER", k, m}, k, kvInput{"sismember", m}
		default:
			return []string{"SCARD", k}, k, kvInput{"scard", ""}
		}
	}},
}

func runScenario(sc scenario, seed int64, ngo, nops, shards int, rep *concReport) {
	config.Configures.ShardNum = shards
	mgr := server.NewManager(config.Configures)
	lsMu.Lock()
	lsDB = mgr.CurrentDB
	lsByG = map[int64]*lockset{}
	lsMu.Unlock()
	lsBad = atomic.Value{}
	lsOn.Store(true)
	defer lsOn.Store(false)
	var mu sync.Mutex
	var hist []concOp
	var wg sync.WaitGroup
	var panicked atomic.Value
	clock := func() int64 { return time.Now().UnixNano() }
	var inflight sync.Map
	for g := 0; g < ngo; g++ {
		wg.Add(1)
		go func(g int) {
			defer wg.Done()
			rng := rand.New(rand.NewSource(seed*1000 + int64(g)))
			for i := 0; i < nops; i++ {
				argv, key, _ := sc.gen(rng, g, i, sc.keys)
				inflight.Store(g, strings.Join(argv, " "))
				call := clock()
				out, p := runCmd(mgr, argv...)
				ret := clock()
				if p {
					panicked.Store(strings.Join(argv, " ") + " -> " + out)
					return
				}
				mu.Lock()
				hist = append(hist, concOp{Cmd: argv, Key: key, Out: out, Call: call, Ret: ret, G: g})
				mu.Unlock()
				if rng.Intn(4) == 0 {
					runtime.Gosched()
				}
			}
			inflight.Delete(g)
		}(g)
	}
	done := make(chan struct{})
	go func() { wg.Wait(); close(done) }()
	select {
	case <-done:
	case <-time.After(20 * time.Second):
		var stuck []string
		inflight.Range(func(k, v interface{}) bool { stuck = append(stuck, fmt.Sprintf("g%d: %s", k, v)); return true })
		buf := make([]byte, 1<<16)
		n := runtime.Stack(buf, true)
		rep.Result, rep.Detail = "stuck", strings.Join(stuck, "; ")+"\n"+string(buf[:n])
		return
	}
	rep.Ops = len(hist)
	if p := panicked.Load(); p != nil {
		rep.Result, rep.Detail = "panic", p.(string)
		return
	}
	if b := lsBad.Load(); b != nil {
		rep.Result, rep.Detail = "lockset", b.(string)
		return
	}
	// linearizability per key
	byKey := map[string][]porcupine.Operation{}
	for _, o := range hist {
		_, _, in := parseBack(o)
		byKey[o.Key] = append(byKey[o.Key], porcupine.Operation{ClientId: o.G, Input: in, Call: o.Call, Output: o.Out, Return: o.Ret})
	}
	for k, ops := range byKey {
		res := porcupine.CheckOperationsTimeout(kvModel, ops, 20*time.Second)
		if res == porcupine.Illegal {
			rep.Result, rep.Detail = "not-linearizable", "key "+k
			for _, o := range hist {
				if o.Key == k {
					rep.History = append(rep.History, o)
				}
			}
			sort.Slice(rep.History, func(i, j int) bool { return rep.History[i].Call < rep.History[j].Call })
			return
		}
	}
	// quiescent invariants: the map's own counter equals the number of keys, KEYS agrees with EXISTS
	keys, count := mgr.CurrentDB.VerifKeys()
	if int(count) != len(keys) {
		rep.Result, rep.Detail = "invariant", fmt.Sprintf("keyspace counter %d but %d keys present", count, len(keys))
		return
	}
	out, _ := runCmd(mgr, "KEYS", "*")
	n := 0
	if strings.HasPrefix(out, "*") {
		n, _ = strconv.Atoi(strings.SplitN(out[1:], "\r\n", 2)[0])
	}
	if n != len(keys) {
		rep.Result, rep.Detail = "invariant", fmt.Sprintf("KEYS * returns %d keys, %d present", n, len(keys))
		return
	}
	for _, k := range keys {
		if o, _ := runCmd(mgr, "EXISTS", k); o != ":1\r\n" {
			rep.Result, rep.Detail = "invariant", fmt.Sprintf("EXISTS %q = %q for a present key", k, o)
			return
		}
	}
	rep.Result = "ok"
}

func parseBack(o concOp) ([]string, string, kvInput) {
	op := strings.ToLower(o.Cmd[0])
	arg := ""
	if len(o.Cmd) > 2 {
		arg = o.Cmd[2]
	}
	if op == "set" && len(o.Cmd) == 5 && strings.ToLower(o.Cmd[3]) == "exat" {
		op = "setgone"
	}
	if op == "setex" {
		arg = o.Cmd[3]
	}
	if op == "expire" {
		op = "expirenow"
	}
	if op == "blpop" {
		arg = o.Cmd[1]
	}
	return o.Cmd, o.Key, kvInput{Op: op, Arg: arg}
}

// runConc <seed> <rounds> <scenario,scenario,...|all>: prints one JSON report per (scenario, round)
func runConc(args []string) {
	seed, _ := strconv.ParseInt(args[0], 10, 64)
	rounds, _ := strconv.Atoi(args[1])
	want := map[string]bool{}
	for _, s := range strings.Split(args[2], ",") {
		want[s] = true
	}
	memdb.VerifEventHook = func(kind string, cm *memdb.ConcurrentMap, key string, pos int) {
		locksetHook(kind, cm, key, pos)
		psMapHook(kind, cm, key)
	}
	memdb.VerifChanEventHook = psChanHook
	enc := json.NewEncoder(os.Stdout)
	for r := 0; r < rounds; r++ {
		for _, sc := range scenarios {
			if !want["all"] && !want[sc.name] {
				continue
			}
			ngo := []int{2, 3, 4, 8, 16}[(r+len(sc.name))%5]
			nops := 40
			if ngo >= 8 {
				nops = 12
			}
			if sc.name == "expiry" {
				ngo, nops = []int{3, 4, 6}[r%3], 120
			}
			if v := os.Getenv("VERIF_CONC_SMALL"); v != "" {
				ngo, nops = 2, 14
			}
			shards := []int{1, 2, 1024}[r%3]
			rep := concReport{Scenario: sc.name, Seed: seed + int64(r), Goroutines: ngo, Shards: shards}
			perturb.Store(r%2 == 1) // every other round yields at each lock release
			runScenario(sc, seed+int64(r), ngo, nops, shards, &rep)
			perturb.Store(false)
			enc.Encode(rep)
			if rep.Result == "stuck" {
				return // goroutines are wedged; the orchestrator restarts the harness
			}
		}
	}
	multiKey(seed, rounds, want, enc)
	rr := rounds
	if rr > 3 && os.Getenv("VERIF_TIER") != "thorough" {
		rr = 3
	}
	rearm(seed, rr, want, enc)
	pubsubPaths(seed, want, enc)
	pubsubConc(seed, rounds, want, enc)
	ho := rounds
	if ho > 2 && os.Getenv("VERIF_TIER") != "thorough" {
		ho = 2
	}
	pubsubHandover(seed, ho, want, enc)
	pubsubPrune(seed, ho, want, enc)
	pubsubStall(seed, want, enc)
	sa := rounds
	if sa > 3 && os.Getenv("VERIF_TIER") != "thorough" {
		sa = 3
	}
	storeAcc(seed, sa, want, enc)
	cn := rounds
	if cn > 2 && os.Getenv("VERIF_TIER") != "thorough" {
		cn = 2
	}
	counters(seed, cn, want, enc)
	bigMulti(seed, cn, want, enc)
	firstTouch(seed, cn, want, enc)
	bv := rounds
	if bv > 3 && os.Getenv("VERIF_TIER") != "thorough" {
		bv = 3
	}
	bigValue(seed, bv, want, enc)
	br := rounds
	if br > 2 && os.Getenv("VERIF_TIER") != "thorough" {
		br = 2
	}
	bigRead(seed, br, want, enc)
	addRem(seed, br, want, enc)
	keysStable(seed, br+1, want, enc)
	streamTrim(seed, br, want, enc)
	bpopTime(seed, br, want, enc)
}
