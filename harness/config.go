package main

import (
	"bufio"
	"encoding/hex"
	"encoding/json"
	"errors"
	"fmt"
	"go/ast"
	"go/parser"
	"go/token"
	"io"
	"log"
	"net"
	"os"
	"os/exec"
	"path/filepath"
	"reflect"
	"sort"
	"strconv"
	"strings"
	"unicode"

	"github.com/innovationb1ue/RedisGO/config"
	"github.com/innovationb1ue/RedisGO/server"
)

// config engine (C20, configuration layer): the REAL (*config.Config).Parse and ParseConfigJson on a Config holding the defaults
// of config.Setup.  `harness config <repo>` is a supervisor: the lines are answered by a worker process (`config-child <repo>`),
// because log.Fatal (a `databases` directive that is not a positive integer) ends the process: the supervisor then reports
// `fatal:<exit status>:<int|pos>` (from the text log.Fatal wrote) and starts a new worker.
//
//   CD                          the defaults: the composite literal `cfg := &Config{…}` in Setup, read from <repo>/config/config.go with
//                               go/ast (package-level `default…` variables substituted)      => <cfg>
//   CF <hex file>               Parse("./redis.conf") in a scratch directory holding the bytes as redis.conf
//                               => lr=… ip6=… <outcome>
//   CJ <hex json> <hex file>    Parse as above, then (if it returned nil) ParseConfigJson("./cluster_config.json"); `echo` is what a
//                               separate json.Unmarshal of the same bytes into an identically prepared Config leaves, uerr whether it
//                               returned an error           => lr=… ip6=… echo=<cfg> uerr=<0|1> <outcome>
//   CN <n>                      len(server.NewManager(&Config{Databases: n}).DBs)      => <len> | panic
// outcome: ok:<cfg> | error:msg:<hex of err.Error()> | error:num:<syntax|range> | panic:num:<syntax|range> | panic:str:<hex> |
//          panic:rt:index | panic:rt:<hex> | fatal:<status>:<int|pos|hex>
// oracle facts shipped with every line (the model does not contain Unicode's case tables or the IPv6 grammar): lr = unicode.ToLower of
// every code point ≥ 0x80 of the file that it changes, ip6 = net.ParseIP(t) != nil for every white-space separated token t of the file
// that contains a ':' .
// <cfg>: conf=…;host=…;port=…;logdir=…;loglevel=…;shard=…;chan=…;db=…;others=k:v,…(sorted by key);ccp=…;cluster=…;peers=…;ids=…;raft=…;node=…;kv=…;join=…
// (strings in hex, empty = empty).

func cfgHex(s string) string { return hex.EncodeToString([]byte(s)) }

func showCfg(c *config.Config) string {
	keys := make([]string, 0, len(c.Others))
	for k := range c.Others {
		keys = append(keys, k)
	}
	sort.Strings(keys)
	var ot []string
	for _, k := range keys {
		v := c.Others[k]
		if s, ok := v.(string); ok {
			ot = append(ot, cfgHex(k)+":"+cfgHex(s))
		} else {
			ot = append(ot, cfgHex(k)+":?"+fmt.Sprintf("%T", v))
		}
	}
	return fmt.Sprintf("conf=%s;host=%s;port=%d;logdir=%s;loglevel=%s;shard=%d;chan=%d;db=%d;others=%s;ccp=%s;cluster=%s;peers=%s;ids=%s;raft=%s;node=%d;kv=%d;join=%s",
		cfgHex(c.ConfFile), cfgHex(c.Host), c.Port, cfgHex(c.LogDir), cfgHex(c.LogLevel), c.ShardNum, c.ChanBufferSize, c.Databases, strings.Join(ot, ","),
		cfgHex(c.ClusterConfigPath), b01(c.IsCluster), cfgHex(c.PeerAddrs), cfgHex(c.PeerIDs), cfgHex(c.RaftAddr), c.NodeID, c.KVPort, b01(c.JoinCluster))
}

// ---- defaults from the source

type cfgDefaults struct {
	fields map[string]any // field name -> string | int | bool | "make" marker
	err    string
}

func evalDefault(e ast.Expr, vars map[string]ast.Expr, depth int) (any, bool) {
	switch v := e.(type) {
	case *ast.BasicLit:
		switch v.Kind {
		case token.STRING:
			s, err := strconv.Unquote(v.Value)
			return s, err == nil
		case token.INT:
			n, err := strconv.ParseInt(v.Value, 0, 64)
			return int(n), err == nil
		}
	case *ast.UnaryExpr:
		if v.Op == token.SUB {
			if x, ok := evalDefault(v.X, vars, depth); ok {
				if n, ok := x.(int); ok {
					return -n, true
				}
			}
		}
	case *ast.ParenExpr:
		return evalDefault(v.X, vars, depth)
	case *ast.Ident:
		switch v.Name {
		case "true":
			return true, true
		case "false":
			return false, true
		}
		if x, ok := vars[v.Name]; ok && depth < 4 {
			return evalDefault(x, vars, depth+1)
		}
	case *ast.CallExpr:
		if id, ok := v.Fun.(*ast.Ident); ok && id.Name == "make" && len(v.Args) == 1 {
			return "make", true
		}
	}
	return nil, false
}

func readDefaults(repo string) cfgDefaults {
	out := cfgDefaults{fields: map[string]any{}}
	fset := token.NewFileSet()
	f, err := parser.ParseFile(fset, filepath.Join(repo, "config", "config.go"), nil, 0)
	if err != nil {
		out.err = "parse:" + err.Error()
		return out
	}
	vars := map[string]ast.Expr{}
	var setup *ast.FuncDecl
	for _, d := range f.Decls {
		switch v := d.(type) {
		case *ast.GenDecl:
			if v.Tok == token.VAR || v.Tok == token.CONST {
				for _, sp := range v.Specs {
					if vs, ok := sp.(*ast.ValueSpec); ok && len(vs.Names) == len(vs.Values) {
						for i, n := range vs.Names {
							vars[n.Name] = vs.Values[i]
						}
					}
				}
			}
		case *ast.FuncDecl:
			if v.Name.Name == "Setup" && v.Recv == nil {
				setup = v
			}
		}
	}
	if setup == nil {
		out.err = "no func Setup"
		return out
	}
	var lit *ast.CompositeLit
	ast.Inspect(setup.Body, func(n ast.Node) bool {
		if cl, ok := n.(*ast.CompositeLit); ok && lit == nil {
			if id, ok := cl.Type.(*ast.Ident); ok && id.Name == "Config" {
				lit = cl
				return false
			}
		}
		return lit == nil
	})
	if lit == nil {
		out.err = "no Config literal in Setup"
		return out
	}
	for _, el := range lit.Elts {
		kv, ok := el.(*ast.KeyValueExpr)
		if !ok {
			out.err = "positional literal"
			return out
		}
		name := kv.Key.(*ast.Ident).Name
		val, ok := evalDefault(kv.Value, vars, 0)
		if !ok {
			out.err = "unsupported:" + name
			return out
		}
		out.fields[name] = val
	}
	return out
}

func (d cfgDefaults) build() (*config.Config, error) {
	if d.err != "" {
		return nil, errors.New(d.err)
	}
	c := &config.Config{}
	rv := reflect.ValueOf(c).Elem()
	for name, val := range d.fields {
		fv := rv.FieldByName(name)
		if !fv.IsValid() {
			return nil, errors.New("nofield:" + name)
		}
		switch x := val.(type) {
		case string:
			if x == "make" && fv.Kind() == reflect.Map {
				fv.Set(reflect.MakeMap(fv.Type()))
			} else if fv.Kind() == reflect.String {
				fv.SetString(x)
			} else {
				return nil, errors.New("kind:" + name)
			}
		case int:
			if fv.Kind() != reflect.Int {
				return nil, errors.New("kind:" + name)
			}
			fv.SetInt(int64(x))
		case bool:
			if fv.Kind() != reflect.Bool {
				return nil, errors.New("kind:" + name)
			}
			fv.SetBool(x)
		}
	}
	return c, nil
}

// ---- oracle facts

func cfgOracle(data []byte) string {
	seen := map[rune]bool{}
	var lr []string
	for _, r := range string(data) {
		if r >= 0x80 && !seen[r] {
			seen[r] = true
			if lo := unicode.ToLower(r); lo != r {
				lr = append(lr, fmt.Sprintf("%d:%d", r, lo))
			}
		}
	}
	var ip []string
	seenT := map[string]bool{}
	for _, t := range strings.Fields(string(data)) {
		if strings.Contains(t, ":") && !seenT[t] {
			seenT[t] = true
			ip = append(ip, cfgHex(t)+":"+b01(parseIPNotNil(t)))
		}
	}
	a, b := strings.Join(lr, ","), strings.Join(ip, ",")
	if a == "" {
		a = "-"
	}
	if b == "" {
		b = "-"
	}
	return "lr=" + a + " ip6=" + b
}

func parseIPNotNil(s string) bool { return net.ParseIP(s) != nil }

// ---- the worker

type hexLogWriter struct{ w *bufio.Writer }

// everything the log package writes (log.Println in ParseConfigJson, the text of log.Fatal) becomes a token of the protocol line
func (h hexLogWriter) Write(p []byte) (int, error) {
	fmt.Fprintf(h.w, "log=%s ", hex.EncodeToString(p))
	h.w.Flush()
	return len(p), nil
}

func cfgErrToken(err error) string {
	var ne *strconv.NumError
	if errors.As(err, &ne) {
		switch ne.Err {
		case strconv.ErrSyntax:
			return "error:num:syntax"
		case strconv.ErrRange:
			return "error:num:range"
		}
	}
	return "error:msg:" + cfgHex(err.Error())
}

func cfgPanicToken(e any) string {
	switch v := e.(type) {
	case *strconv.NumError:
		if v.Err == strconv.ErrSyntax {
			return "panic:num:syntax"
		}
		if v.Err == strconv.ErrRange {
			return "panic:num:range"
		}
		return "panic:num:" + cfgHex(v.Error())
	case string:
		return "panic:str:" + cfgHex(v)
	case error:
		if strings.HasPrefix(v.Error(), "runtime error: index out of range") {
			return "panic:rt:index"
		}
		return "panic:rt:" + cfgHex(v.Error())
	}
	return "panic:other:" + cfgHex(fmt.Sprint(e))
}

// guarded runs f, turning a panic into its token ("" = returned normally)
func guarded(f func() error) (tok string) {
	defer func() {
		if e := recover(); e != nil {
			tok = cfgPanicToken(e)
		}
	}()
	if err := f(); err != nil {
		return cfgErrToken(err)
	}
	return ""
}

func runConfigChild(args []string) {
	if len(args) < 1 {
		fmt.Fprintln(os.Stderr, "usage: harness config-child <repo>")
		os.Exit(2)
	}
	proto := bufio.NewWriter(os.Stdout)
	// config.go prints with fmt.Println in the shardnum branch: keep that out of the protocol stream
	if dn, err := os.OpenFile(os.DevNull, os.O_WRONLY, 0); err == nil {
		os.Stdout = dn
	}
	log.SetFlags(0)
	log.SetOutput(hexLogWriter{proto})
	defs := readDefaults(args[0])
	dir, err := os.MkdirTemp("", "verif-config-")
	if err != nil {
		fmt.Fprintln(os.Stderr, err)
		os.Exit(2)
	}
	defer os.RemoveAll(dir)
	if err := os.Chdir(dir); err != nil {
		fmt.Fprintln(os.Stderr, err)
		os.Exit(2)
	}
	in := bufio.NewScanner(os.Stdin)
	in.Buffer(make([]byte, 1<<20), 1<<26)
	for in.Scan() {
		line := in.Text()
		f := strings.Fields(line)
		if len(f) == 0 {
			continue
		}
		fmt.Fprintf(proto, "%s => ", line)
		proto.Flush()
		fmt.Fprintf(proto, "%s\n", configAnswer(f, defs, proto))
		proto.Flush()
	}
	os.RemoveAll(dir)
}

func configAnswer(f []string, defs cfgDefaults, proto *bufio.Writer) string {
	fresh := func() (*config.Config, string) {
		c, err := defs.build()
		if err != nil {
			return nil, "defaults:" + cfgHex(err.Error())
		}
		return c, ""
	}
	switch {
	case f[0] == "CD" && len(f) == 1:
		c, e := fresh()
		if c == nil {
			return e
		}
		return showCfg(c)
	case f[0] == "CN" && len(f) == 2:
		n, err := strconv.Atoi(f[1])
		if err != nil {
			return "BAD-LINE"
		}
		res := ""
		tok := guarded(func() error {
			if config.Configures == nil {
				setupLogger() // memdb.NewMemDb reads config.Configures.ShardNum
			}
			m := server.NewManager(&config.Config{Databases: n})
			res = strconv.Itoa(len(m.DBs))
			return nil
		})
		if tok != "" {
			return "panic"
		}
		return res
	case f[0] == "CF" && len(f) == 2:
		data := unhex(f[1])
		c, e := fresh()
		if c == nil {
			return e
		}
		if err := os.WriteFile("redis.conf", data, 0o644); err != nil {
			return "io:" + cfgHex(err.Error())
		}
		fmt.Fprintf(proto, "%s ", cfgOracle(data))
		proto.Flush()
		if tok := guarded(func() error { return c.Parse(c.ConfFile) }); tok != "" {
			return tok
		}
		return "ok:" + showCfg(c)
	case f[0] == "CJ" && len(f) == 3:
		js, data := unhex(f[1]), unhex(f[2])
		c, e := fresh()
		if c == nil {
			return e
		}
		probe, _ := fresh()
		// what the flags `-IsCluster -ClusterConfigPath ./cluster_config.json` leave
		for _, x := range []*config.Config{c, probe} {
			x.IsCluster = true
			x.ClusterConfigPath = "./cluster_config.json"
		}
		if err := os.WriteFile("redis.conf", data, 0o644); err != nil {
			return "io:" + cfgHex(err.Error())
		}
		if err := os.WriteFile("cluster_config.json", js, 0o644); err != nil {
			return "io:" + cfgHex(err.Error())
		}
		fmt.Fprintf(proto, "%s ", cfgOracle(data))
		proto.Flush()
		if tok := guarded(func() error { return c.Parse(c.ConfFile) }); tok != "" {
			return "echo=- uerr=0 " + tok
		}
		if tok := guarded(func() error { return probe.Parse(probe.ConfFile) }); tok != "" {
			return "echo=- uerr=0 PROBE-DIFFERS"
		}
		uerr := json.Unmarshal(js, probe)
		fmt.Fprintf(proto, "echo=%s uerr=%s ", showCfg(probe), b01(uerr != nil))
		proto.Flush()
		if tok := guarded(func() error { return c.ParseConfigJson(c.ClusterConfigPath) }); tok != "" {
			return tok
		}
		return "ok:" + showCfg(c)
	}
	return "BAD-LINE"
}

// ---- the supervisor

type cfgWorker struct {
	cmd *exec.Cmd
	in  io.WriteCloser
	out *bufio.Reader
}

func startCfgWorker(repo string) (*cfgWorker, error) {
	cmd := exec.Command(os.Args[0], "config-child", repo)
	cmd.Stderr = os.Stderr
	in, err := cmd.StdinPipe()
	if err != nil {
		return nil, err
	}
	op, err := cmd.StdoutPipe()
	if err != nil {
		return nil, err
	}
	if err := cmd.Start(); err != nil {
		return nil, err
	}
	return &cfgWorker{cmd: cmd, in: in, out: bufio.NewReaderSize(op, 1<<20)}, nil
}

// stripLog removes the log=… tokens of an answer and returns them decoded
func stripLog(ans string) (string, string) {
	var keep []string
	var logged strings.Builder
	for _, t := range strings.Fields(ans) {
		if strings.HasPrefix(t, "log=") {
			b, _ := hex.DecodeString(t[4:])
			logged.Write(b)
		} else {
			keep = append(keep, t)
		}
	}
	return strings.Join(keep, " "), logged.String()
}

func runConfig(args []string) {
	if len(args) < 1 {
		fmt.Fprintln(os.Stderr, "usage: harness config <repo>")
		os.Exit(2)
	}
	repo := args[0]
	in := bufio.NewScanner(os.Stdin)
	in.Buffer(make([]byte, 1<<20), 1<<26)
	out := bufio.NewWriter(os.Stdout)
	defer out.Flush()
	var w *cfgWorker
	restarts := 0
	for in.Scan() {
		line := in.Text()
		if len(strings.Fields(line)) == 0 {
			continue
		}
		if w == nil {
			var err error
			if w, err = startCfgWorker(repo); err != nil {
				fmt.Fprintln(os.Stderr, "config worker:", err)
				os.Exit(2)
			}
		}
		fmt.Fprintln(w.in, line)
		ans, err := w.out.ReadString('\n')
		if err == nil {
			a, _ := stripLog(strings.TrimRight(ans, "\n"))
			fmt.Fprintln(out, a)
			out.Flush()
			continue
		}
		// the worker died while answering this line
		w.in.Close()
		werr := w.cmd.Wait()
		status := 0
		var ee *exec.ExitError
		if errors.As(werr, &ee) {
			status = ee.ExitCode()
		}
		w = nil
		restarts++
		a, logged := stripLog(ans)
		if !strings.Contains(a, "=>") {
			a = line + " =>"
		}
		kind := cfgHex(logged)
		switch {
		case strings.HasPrefix(logged, "Databases should be an integer. Get: "):
			kind = "int"
		case strings.HasPrefix(logged, "Databases should be an positive integer. Get: "):
			kind = "pos"
		}
		fmt.Fprintf(out, "%s fatal:%d:%s\n", strings.TrimRight(a, " "), status, kind)
		out.Flush()
	}
	if w != nil {
		w.in.Close()
		w.cmd.Wait()
	}
}
