package main

import (
	"encoding/json"
	"fmt"
	"strings"
	"sync"

	"github.com/innovationb1ue/RedisGO/config"
	"github.com/innovationb1ue/RedisGO/server"
)

// bigmulti (C13, C05, C11): multi-key and multi-member commands with THOUSANDS of arguments, where an implementation is tempted to work in
// batches.  Sixty duels: two clients MSET the same 1500 keys at the same moment (opposite argument order), each to a value naming the client
// and the duel; when both have returned (nobody is writing) the keys are read: MSET is atomic, so all 1500 hold the value of ONE of the two
// (whichever came second).  The same for a set: SADD big <2000 members> against DEL big started together; afterwards SCARD is 0 or 2000, and
// while they run a third client's SCARD (one key, one lock: atomic) answers 0 or 2000 only.
// (An MGET issued WHILE the MSETs run may legitimately show a mixture: MGET reads key by key - Props/C13PerKey.lean - so it is not used as the observer.)
// Added after the seeded changes C13-mset-batches-512 and C11-sadd-srem-batches-512 (work split into slices of 512 under separate lock
// acquisitions): the lock-skeleton fact F2 broke, but no engine produced a failing input because no generated command had more than a dozen arguments.
func bigMulti(seed int64, rounds int, want map[string]bool, enc *json.Encoder) {
	if !want["all"] && !want["bigmulti"] {
		return
	}
	for r := 0; r < rounds; r++ {
		rep := concReport{Scenario: "bigmulti", Seed: seed + int64(r), Goroutines: 3, Shards: []int{1024, 2}[r%2], Result: "ok"}
		config.Configures.ShardNum = rep.Shards
		mgr := server.NewManager(config.Configures)
		const nk, nm = 1500, 2000
		keys := make([]string, nk)
		for i := range keys {
			keys[i] = fmt.Sprintf("mk%04d", i)
		}
		members := make([]string, nm)
		for i := range members {
			members[i] = fmt.Sprintf("mm%04d", i)
		}
		mset := func(val string, reversed bool) []string {
			a := make([]string, 0, 2*nk+1)
			a = append(a, "MSET")
			for i := 0; i < nk; i++ {
				k := keys[i]
				if reversed {
					k = keys[nk-1-i]
				}
				a = append(a, k, val)
			}
			return a
		}
		fail := func(kind, msg string) { rep.Result, rep.Detail = kind, msg }
		for duel := 0; duel < 60 && rep.Result == "ok"; duel++ {
			var wg sync.WaitGroup
			start := make(chan struct{})
			outs := make([]string, 2)
			for g := 0; g < 2; g++ {
				wg.Add(1)
				go func(g int) {
					defer wg.Done()
					<-start
					outs[g], _ = runCmd(mgr, mset(fmt.Sprintf("w%d-%d", g, duel), g == 1)...)
				}(g)
			}
			close(start)
			wg.Wait()
			rep.Ops += 2
			if outs[0] != "+OK\r\n" || outs[1] != "+OK\r\n" {
				fail("invariant", fmt.Sprintf("MSET of %d pairs answered %q / %q", nk, outs[0], outs[1]))
				break
			}
			out, _ := runCmd(mgr, append([]string{"MGET"}, keys...)...)
			vals, ok := flatBulks(out)
			if !ok || len(vals) != nk {
				fail("invariant", fmt.Sprintf("MGET of %d keys returned %d values", nk, len(vals)))
				break
			}
			for j, v := range vals {
				if v != vals[0] {
					fail("not-linearizable", fmt.Sprintf("duel %d: two clients ran MSET over the same %d keys at the same moment (values w0-%d and w1-%d); after both returned, %s holds %q and %s holds %q: "+
						"neither order of the two whole MSETs leaves that (MSET applied to only some of the keys)", duel, nk, duel, duel, keys[0], vals[0], keys[j], v))
					break
				}
			}
		}
		for duel := 0; duel < 60 && rep.Result == "ok"; duel++ {
			var wg sync.WaitGroup
			start := make(chan struct{})
			var sadd, del, card string
			wg.Add(3)
			go func() {
				defer wg.Done()
				<-start
				sadd, _ = runCmd(mgr, append([]string{"SADD", "big"}, members...)...)
			}()
			go func() { defer wg.Done(); <-start; del, _ = runCmd(mgr, "DEL", "big") }()
			go func() { defer wg.Done(); <-start; card, _ = runCmd(mgr, "SCARD", "big") }()
			close(start)
			wg.Wait()
			rep.Ops += 3
			final, _ := runCmd(mgr, "SCARD", "big")
			all := fmt.Sprintf(":%d\r\n", nm)
			// the set was absent or complete before the duel (checked by the previous round), so SADD adds all or nothing
			if (sadd != all && sadd != ":0\r\n") || (card != ":0\r\n" && card != all) || (final != ":0\r\n" && final != all) {
				fail("not-linearizable", fmt.Sprintf("duel %d: SADD big <%d members> (answered %s), DEL big (answered %s) and SCARD big (answered %s) started together; SCARD afterwards %s: "+
					"only 0 and %d are cardinalities the set has between whole commands", duel, nm, strings.TrimSpace(sadd), strings.TrimSpace(del), strings.TrimSpace(card), strings.TrimSpace(final), nm))
			}
		}
		enc.Encode(rep)
	}
}
