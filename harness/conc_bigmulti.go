package main

import (
	"encoding/json"
	"fmt"
	"strings"
	"sync"
	"sync/atomic"
	"time"

	"github.com/innovationb1ue/RedisGO/config"
	"github.com/innovationb1ue/RedisGO/server"
)

// bigmulti (C13, C05, C11): multi-key and multi-member commands with THOUSANDS of arguments, where an implementation is tempted to work in
// batches.  Two writers MSET the same 1500 keys (in opposite argument order) to a value that names the writer and the round; readers MGET
// all of them: an atomic MSET means every MGET reply is uniform (all 1500 values from one MSET), and so is the final state.  The same for a set:
// writers alternate SADD big <2000 members> / DEL big resp. SREM big <the same 2000>; SCARD answers 0 or 2000 only, SMEMBERS lists none or all.
// Added after the seeded changes C13-mset-batches-512 and C11-sadd-srem-batches-512 (work split into slices of 512 under separate lock
// acquisitions): the lock-skeleton fact F2 broke, but no engine produced a failing input because no generated command had more than a dozen arguments.
func bigMulti(seed int64, rounds int, want map[string]bool, enc *json.Encoder) {
	if !want["all"] && !want["bigmulti"] {
		return
	}
	for r := 0; r < rounds; r++ {
		rep := concReport{Scenario: "bigmulti", Seed: seed + int64(r), Goroutines: 6, Shards: []int{1024, 2}[r%2], Result: "ok"}
		config.Configures.ShardNum = rep.Shards
		mgr := server.NewManager(config.Configures)
		const nk, nm = 1500, 2000
		keys := make([]string, nk)
		for i := range keys {
			keys[i] = fmt.Sprintf("mk%04d", i)
		}
		members := make([]string, nm)
		for i := range members {
			members[i] = fmt.Sprintf("mm%04d", i)
		}
		mset := func(val string, reversed bool) []string {
			a := make([]string, 0, 2*nk+1)
			a = append(a, "MSET")
			for i := 0; i < nk; i++ {
				k := keys[i]
				if reversed {
					k = keys[nk-1-i]
				}
				a = append(a, k, val)
			}
			return a
		}
		runCmd(mgr, mset("init", false)...)
		var bad atomic.Value
		var ops, reads atomic.Int64
		stop := make(chan struct{})
		var wg sync.WaitGroup
		for g := 0; g < 2; g++ {
			wg.Add(1)
			go func(g int) {
				defer wg.Done()
				for i := 0; ; i++ {
					select {
					case <-stop:
						return
					default:
					}
					if out, p := runCmd(mgr, mset(fmt.Sprintf("w%d-%d", g, i), g == 1)...); p || out != "+OK\r\n" {
						bad.CompareAndSwap(nil, fmt.Sprintf("MSET of %d pairs answered %q (panic=%v)", nk, out, p))
						return
					}
					ops.Add(1)
				}
			}(g)
		}
		wg.Add(1)
		go func() { // the set writer
			defer wg.Done()
			for i := 0; ; i++ {
				select {
				case <-stop:
					return
				default:
				}
				out, p := runCmd(mgr, append([]string{"SADD", "big"}, members...)...)
				if p || out != fmt.Sprintf(":%d\r\n", nm) {
					bad.CompareAndSwap(nil, fmt.Sprintf("SADD big <%d members> on a missing key answered %q", nm, out))
					return
				}
				if i%2 == 0 {
					out, p = runCmd(mgr, "DEL", "big")
				} else {
					out, p = runCmd(mgr, append([]string{"SREM", "big"}, members...)...)
				}
				if want := map[bool]string{true: ":1\r\n", false: fmt.Sprintf(":%d\r\n", nm)}[i%2 == 0]; p || out != want {
					bad.CompareAndSwap(nil, fmt.Sprintf("removing the %d members again answered %q, want %q", nm, out, want))
					return
				}
				ops.Add(2)
			}
		}()
		for g := 0; g < 3; g++ {
			wg.Add(1)
			go func(g int) {
				defer wg.Done()
				for i := 0; i < 40 && bad.Load() == nil; i++ {
					if (i+g)%2 == 0 {
						out, p := runCmd(mgr, append([]string{"MGET"}, keys...)...)
						vals, ok := flatBulks(out)
						if p || !ok || len(vals) != nk {
							bad.CompareAndSwap(nil, fmt.Sprintf("MGET of %d keys: panic=%v, %d values", nk, p, len(vals)))
							return
						}
						for j, v := range vals {
							if v != vals[0] {
								bad.CompareAndSwap(nil, fmt.Sprintf("MGET of the %d keys two clients MSET as a whole returned %q for %s and %q for %s: a half-applied MSET is visible (MSET is atomic: all its keys change at one point)",
									nk, vals[0], keys[0], v, keys[j]))
								return
							}
						}
					} else {
						out, _ := runCmd(mgr, "SCARD", "big")
						if out != ":0\r\n" && out != fmt.Sprintf(":%d\r\n", nm) {
							bad.CompareAndSwap(nil, fmt.Sprintf("SCARD big answered %q while one client alternated SADD big <%d members> and removing them all: only 0 and %d are cardinalities the set ever had", strings.TrimSpace(out), nm, nm))
							return
						}
					}
					ops.Add(1)
					reads.Add(1)
				}
			}(g)
		}
		// the readers finish on their own (40 reads each, or the first bad observation); then the writers are stopped
		for bad.Load() == nil && reads.Load() < 120 {
			time.Sleep(time.Millisecond)
		}
		close(stop)
		wg.Wait()
		rep.Ops = int(ops.Load())
		if b := bad.Load(); b != nil {
			rep.Result, rep.Detail = "not-linearizable", b.(string)
		} else {
			out, _ := runCmd(mgr, append([]string{"MGET"}, keys...)...)
			vals, _ := flatBulks(out)
			for j, v := range vals {
				if v != vals[0] {
					rep.Result, rep.Detail = "invariant", fmt.Sprintf("at quiescence %s holds %q and %s holds %q: no order of the whole MSETs explains it", keys[0], vals[0], keys[j], v)
					break
				}
			}
		}
		enc.Encode(rep)
	}
}
