package main

import (
	"bufio"
	"bytes"
	"context"
	"encoding/hex"
	"encoding/json"
	"fmt"
	"os"
	"sort"
	"time"

	"github.com/innovationb1ue/RedisGO/config"
	"github.com/innovationb1ue/RedisGO/resp"
	"github.com/innovationb1ue/RedisGO/server"
)

// Engine `alias` (fact F7's input search; C01, C09, C10, C11, C12, C18): "a reply held across a write".
//
// The executors hand STORED byte slices to their replies (resp.MakeBulkData(v) with v straight out of the keyspace) and the connection
// loop encodes a reply only after the executor returned and the key's lock was released; in cluster mode the apply loop hands the reply
// object to the connection goroutine and goes on applying.  That is sound only while no command ever rewrites the bytes of a stored
// slice in place.  The hazard needs no race to be shown: per scenario
//
//	control run  : fresh manager, setup, reading command R through Manager.ExecCommand, reply encoded AT ONCE            -> ctrl
//	               (then the writing commands W.. are run and the SAME reply object is encoded again                     -> ctrl2)
//	probe run    : fresh manager, setup, R, the returned resp.RedisData is KEPT unencoded, W.. are executed, THEN encode -> late
//
// `late` and `ctrl2` must equal `ctrl` (replies whose element order follows Go map iteration are compared as multisets of encoded
// elements between the two runs; within one run exactly).  Arguments reach the executors the way a client's do (viaWire: cut out of the
// parser's buffers, with the spare capacity it leaves).  Input: one JSON scenario per line {id, setup:[[hex..]..], read:[hex..],
// writes:[[hex..]..], unordered:bool}; output: one JSON verdict per line.
type aliasScenario struct {
	ID        string     `json:"id"`
	Setup     [][]string `json:"setup"`
	Read      []string   `json:"read"`
	Writes    [][]string `json:"writes"`
	Unordered bool       `json:"unordered"`
	Random    bool       `json:"random"` // the reply is a random choice: no comparison between two runs (same-run comparison only)
}

type aliasVerdict struct {
	ID     string `json:"id"`
	Result string `json:"result"` // ok | changed | panic | bad-input
	Ctrl   string `json:"ctrl,omitempty"`
	Late   string `json:"late,omitempty"`
	Which  string `json:"which,omitempty"` // probe-run | same-run
	Detail string `json:"detail,omitempty"`
	Fresh  string `json:"fresh,omitempty"` // what a NEW read returns after the writes (context for the report)
}

func aliasArgv(h []string) ([][]byte, error) {
	out := make([][]byte, len(h))
	for i, s := range h {
		if s == "-" {
			out[i] = []byte{}
			continue
		}
		b, err := hex.DecodeString(s)
		if err != nil {
			return nil, err
		}
		out[i] = b
	}
	return out, nil
}

// aliasExec runs one command through Manager.ExecCommand and returns the reply OBJECT (not its bytes)
func aliasExec(mgr *server.Manager, argv [][]byte) (out resp.RedisData, panicked string) {
	done := make(chan struct{})
	go func() {
		defer func() {
			if e := recover(); e != nil {
				panicked = fmt.Sprint(e)
			}
			close(done)
		}()
		out = mgr.ExecCommand(context.Background(), viaWire(argv), nil)
	}()
	select {
	case <-done:
	case <-time.After(10 * time.Second):
		panicked = "HANG"
	}
	return
}

func aliasEncode(d resp.RedisData) (b []byte, panicked string) {
	defer func() {
		if e := recover(); e != nil {
			panicked = fmt.Sprint(e)
		}
	}()
	if d == nil || isNilData(d) {
		return []byte("NIL"), ""
	}
	return d.ToBytes(), ""
}

// aliasCanon: the encoded reply; for an array whose order follows map iteration, its encoded elements sorted
func aliasCanon(d resp.RedisData, enc []byte, unordered bool) string {
	if !unordered {
		return string(enc)
	}
	arr, ok := d.(*resp.ArrayData)
	if !ok || isNilData(d) {
		return string(enc)
	}
	var parts []string
	for _, e := range arr.Data() {
		b, _ := aliasEncode(e)
		parts = append(parts, string(b))
	}
	sort.Strings(parts)
	var w bytes.Buffer
	fmt.Fprintf(&w, "*%d~", len(parts))
	for _, p := range parts {
		w.WriteString(p)
	}
	return w.String()
}

func aliasOne(sc aliasScenario) (v aliasVerdict) {
	v.ID = sc.ID
	read, err := aliasArgv(sc.Read)
	if err != nil || len(read) == 0 {
		v.Result, v.Detail = "bad-input", "read"
		return
	}
	var setup, writes [][][]byte
	for _, s := range sc.Setup {
		a, err := aliasArgv(s)
		if err != nil {
			v.Result, v.Detail = "bad-input", "setup"
			return
		}
		setup = append(setup, a)
	}
	for _, s := range sc.Writes {
		a, err := aliasArgv(s)
		if err != nil {
			v.Result, v.Detail = "bad-input", "writes"
			return
		}
		writes = append(writes, a)
	}
	fail := func(res, detail string) aliasVerdict {
		v.Result, v.Detail = res, detail
		return v
	}
	prep := func() (*server.Manager, string) {
		mgr := server.NewManager(config.Configures)
		for _, a := range setup {
			if _, p := aliasExec(mgr, a); p != "" {
				return nil, p
			}
		}
		return mgr, ""
	}
	doWrites := func(mgr *server.Manager) string {
		for _, a := range writes {
			out, p := aliasExec(mgr, a)
			if p != "" {
				return p
			}
			// the writer's own reply is encoded at once, as its connection would
			if _, p := aliasEncode(out); p != "" {
				return p
			}
		}
		return ""
	}
	// control run
	mgrA, p := prep()
	if p != "" {
		return fail("panic", "setup: "+p)
	}
	outA, p := aliasExec(mgrA, read)
	if p != "" {
		return fail("panic", "read: "+p)
	}
	ctrl, p := aliasEncode(outA)
	if p != "" {
		return fail("panic", "encoding the reply at once: "+p)
	}
	ctrl = append([]byte(nil), ctrl...)
	canonA := aliasCanon(outA, ctrl, sc.Unordered)
	if p := doWrites(mgrA); p != "" {
		return fail("panic", "write: "+p)
	}
	ctrl2, p := aliasEncode(outA)
	if p != "" {
		return fail("panic", "encoding the held reply after the write: "+p)
	}
	v.Ctrl = hex.EncodeToString(ctrl)
	if !bytes.Equal(ctrl, ctrl2) {
		v.Late, v.Which = hex.EncodeToString(ctrl2), "same-run"
		if f, p := aliasExec(mgrA, read); p == "" {
			fb, _ := aliasEncode(f)
			v.Fresh = hex.EncodeToString(fb)
		}
		return fail("changed", "the reply object encoded once before and once after the write gives different bytes")
	}
	if sc.Random {
		v.Result = "ok"
		return
	}
	// probe run
	mgrB, p := prep()
	if p != "" {
		return fail("panic", "setup (probe run): "+p)
	}
	outB, p := aliasExec(mgrB, read)
	if p != "" {
		return fail("panic", "read (probe run): "+p)
	}
	if p := doWrites(mgrB); p != "" {
		return fail("panic", "write (probe run): "+p)
	}
	late, p := aliasEncode(outB)
	if p != "" {
		return fail("panic", "encoding the held reply after the write (probe run): "+p)
	}
	if aliasCanon(outB, late, sc.Unordered) != canonA {
		v.Late, v.Which = hex.EncodeToString(late), "probe-run"
		if f, p := aliasExec(mgrB, read); p == "" {
			fb, _ := aliasEncode(f)
			v.Fresh = hex.EncodeToString(fb)
		}
		return fail("changed", "the reply kept unencoded across the write differs from the reply encoded at once in the control run")
	}
	v.Result = "ok"
	return
}

func runAlias(args []string) {
	// small stripe tables: every scenario builds two managers
	config.Configures.ShardNum = 16
	config.Configures.Databases = 2
	in := bufio.NewReaderSize(os.Stdin, 1<<20)
	out := bufio.NewWriter(os.Stdout)
	defer out.Flush()
	enc := json.NewEncoder(out)
	for {
		line, err := in.ReadBytes('\n')
		if len(bytes.TrimSpace(line)) > 0 {
			var sc aliasScenario
			if e := json.Unmarshal(line, &sc); e != nil {
				_ = enc.Encode(aliasVerdict{Result: "bad-input", Detail: e.Error()})
			} else {
				_ = enc.Encode(aliasOne(sc))
			}
			out.Flush()
		}
		if err != nil {
			return
		}
	}
}
