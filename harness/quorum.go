package main

// Stage D (first step) of C15 — the quorum and configuration-change layer of etcd raft, differentially against the Lean
// model lean/RedisGoModel/Raft/RQJoint.lean (theorems: Props/C15Conf.lean).  Called from `raftsim -stageD <cases>`; every
// input is derived from the one PRNG of the run.  Per case:
//
//   JQ <ids0> <ids1> <acks> <idx>      a random quorum.JointConfig (0-5 ids per half, drawn from 1..8 so the halves overlap),
//                                      a random partial ack map (id:idx,...) -> JointConfig.CommittedIndex ("inf" = MaxUint64)
//   JV <ids0> <ids1> <votes> <res>     random votes (id:1 / id:0; absent = not voted) -> JointConfig.VoteResult
//   one operation of a confchange sequence:
//   CI empty | CI restore <voters> <learners> <outgoing> <learnersNext> <autoLeave> <ok|err> <cfg> <errtext>
//                                      start of a sequence: an empty tracker, or confchange.Restore of a random ConfState
//                                      (slices in generation order, repetitions possible, mostly valid)
//   CC <op> <changes> <ok|err> <cfg> <errtext>
//                                      op = simple | enter0 | enter1 (autoLeave) | leave applied by the real confchange.Changer to the
//                                      tracker left by the previous line (an op that fails leaves the tracker as it was);
//                                      changes = a<id> (AddNode) l<id> (AddLearnerNode) r<id> (RemoveNode) u<id> (UpdateNode)
//                                      x<id> (a ConfChangeType outside the enum), id 0 allowed (etcd: "ignore")
//   <cfg> = <voters[0]> <voters[1]> <learners> <learnersNext> <autoLeave> <progress>, ids sorted, "-" = empty;
//   <progress> = the ids of the ProgressMap, suffixed "l" when Progress.IsLearner.

import (
	"bufio"
	"fmt"
	"math"
	"math/rand"
	"sort"
	"strconv"
	"strings"

	"go.etcd.io/etcd/raft/v3/confchange"
	"go.etcd.io/etcd/raft/v3/quorum"
	pb "go.etcd.io/etcd/raft/v3/raftpb"
	"go.etcd.io/etcd/raft/v3/tracker"
)

func sortedIDs(m map[uint64]struct{}) []uint64 {
	sl := make([]uint64, 0, len(m))
	for id := range m {
		sl = append(sl, id)
	}
	sort.Slice(sl, func(i, j int) bool { return sl[i] < sl[j] })
	return sl
}

func fmtIDList(sl []uint64) string {
	if len(sl) == 0 {
		return "-"
	}
	s := make([]string, len(sl))
	for i, id := range sl {
		s[i] = strconv.FormatUint(id, 10)
	}
	return strings.Join(s, ",")
}

func fmtIDSet(m map[uint64]struct{}) string { return fmtIDList(sortedIDs(m)) }

func b01(b bool) string {
	if b {
		return "1"
	}
	return "0"
}

func fmtTrackerCfg(cfg tracker.Config, prs tracker.ProgressMap) string {
	ids := make([]uint64, 0, len(prs))
	for id := range prs {
		ids = append(ids, id)
	}
	sort.Slice(ids, func(i, j int) bool { return ids[i] < ids[j] })
	ps := make([]string, len(ids))
	for i, id := range ids {
		ps[i] = strconv.FormatUint(id, 10)
		if prs[id].IsLearner {
			ps[i] += "l"
		}
	}
	p := "-"
	if len(ps) > 0 {
		p = strings.Join(ps, ",")
	}
	return fmt.Sprintf("%s %s %s %s %s %s", fmtIDSet(cfg.Voters[0]), fmtIDSet(cfg.Voters[1]), fmtIDSet(cfg.Learners), fmtIDSet(cfg.LearnersNext),
		b01(cfg.AutoLeave), p)
}

func errText(err error) string {
	if err == nil {
		return "-"
	}
	t := err.Error()
	// texts that embed ids / whole configs are reduced to their fixed part, so that they can be counted
	for _, cut := range []string{"configuration is not joint", "no progress for", "unexpected conf type"} {
		if strings.HasPrefix(t, cut) {
			t = cut
		}
	}
	if k := strings.Index(t, " is in "); k >= 0 {
		t = "<id>" + t[k:]
	}
	return strings.ReplaceAll(t, " ", "_")
}

// randomMajority: 0..max ids out of 1..span
func randomMajority(rng *rand.Rand, max, span int) quorum.MajorityConfig {
	c := quorum.MajorityConfig{}
	n := rng.Intn(max + 1)
	for len(c) < n {
		c[uint64(1+rng.Intn(span))] = struct{}{}
	}
	return c
}

func stageDQuorum(w *bufio.Writer, rng *rand.Rand) {
	var jc quorum.JointConfig
	jc[0] = randomMajority(rng, 5, 8)
	switch rng.Intn(6) {
	case 0: // a plain majority config
		jc[1] = nil
	case 1: // both halves equal
		jc[1] = quorum.MajorityConfig{}
		for id := range jc[0] {
			jc[1][id] = struct{}{}
		}
	default:
		jc[1] = randomMajority(rng, 5, 8)
	}
	hi := []int{2, 4, 10, 1000}[rng.Intn(4)]
	pPresent := []int{100, 90, 60, 30}[rng.Intn(4)]
	acked := map[uint64]quorum.Index{}
	var as []string
	for id := uint64(1); id <= 9; id++ {
		if rng.Intn(100) < pPresent {
			v := rng.Intn(hi)
			acked[id] = quorum.Index(v)
			as = append(as, fmt.Sprintf("%d:%d", id, v))
		}
	}
	a := "-"
	if len(as) > 0 {
		a = strings.Join(as, ",")
	}
	ci := jc.CommittedIndex(ackIdx(acked))
	res := strconv.FormatUint(uint64(ci), 10)
	if uint64(ci) == math.MaxUint64 {
		res = "inf"
	}
	fmt.Fprintf(w, "JQ %s %s %s %s\n", fmtIDSet(jc[0]), fmtIDSet(jc[1]), a, res)

	// votes: a fresh joint config half of the time, so that both lines are not about the same sets only
	if rng.Intn(2) == 0 {
		jc[0] = randomMajority(rng, 5, 8)
		if rng.Intn(5) > 0 {
			jc[1] = randomMajority(rng, 5, 8)
		} else {
			jc[1] = nil
		}
	}
	pYes := []int{20, 50, 80}[rng.Intn(3)]
	pMissing := []int{0, 20, 50}[rng.Intn(3)]
	votes := map[uint64]bool{}
	var vs []string
	for id := uint64(1); id <= 9; id++ {
		if rng.Intn(100) < pMissing {
			continue
		}
		y := rng.Intn(100) < pYes
		votes[id] = y
		vs = append(vs, fmt.Sprintf("%d:%s", id, b01(y)))
	}
	v := "-"
	if len(vs) > 0 {
		v = strings.Join(vs, ",")
	}
	r := map[quorum.VoteResult]string{quorum.VoteWon: "won", quorum.VoteLost: "lost", quorum.VotePending: "pending"}[jc.VoteResult(votes)]
	fmt.Fprintf(w, "JV %s %s %s %s\n", fmtIDSet(jc[0]), fmtIDSet(jc[1]), v, r)
}

// a random ConfState for Restore: mostly one that a tracker.Config can produce, sometimes arbitrary
func randomConfState(rng *rand.Rand) pb.ConfState {
	pick := func(max int, from []uint64) []uint64 {
		var out []uint64
		n := rng.Intn(max + 1)
		for k := 0; k < n && len(from) > 0; k++ {
			out = append(out, from[rng.Intn(len(from))])
		}
		return out
	}
	all := []uint64{1, 2, 3, 4, 5, 6, 7}
	var cs pb.ConfState
	if rng.Intn(5) == 0 { // arbitrary (repetitions, overlaps, learners that vote, ...)
		cs.Voters = pick(4, all)
		cs.Learners = pick(2, all)
		if rng.Intn(2) == 0 {
			cs.VotersOutgoing = pick(4, all)
			cs.LearnersNext = pick(2, all)
		}
		cs.AutoLeave = rng.Intn(2) == 0
		return cs
	}
	perm := rng.Perm(len(all))
	ids := make([]uint64, len(all))
	for i, p := range perm {
		ids[i] = all[p]
	}
	nv := 1 + rng.Intn(4)
	cs.Voters = append(cs.Voters, ids[:nv]...)
	rest := ids[nv:]
	if rng.Intn(2) == 0 { // joint
		// outgoing: some of the voters plus some others
		for _, id := range cs.Voters {
			if rng.Intn(2) == 0 {
				cs.VotersOutgoing = append(cs.VotersOutgoing, id)
			}
		}
		no := rng.Intn(3)
		if len(cs.VotersOutgoing) == 0 && no == 0 {
			no = 1
		}
		if no > len(rest) {
			no = len(rest)
		}
		onlyOut := rest[:no]
		rest = rest[no:]
		cs.VotersOutgoing = append(cs.VotersOutgoing, onlyOut...)
		for _, id := range onlyOut {
			if rng.Intn(3) == 0 {
				cs.LearnersNext = append(cs.LearnersNext, id)
			}
		}
		cs.AutoLeave = rng.Intn(2) == 0
	}
	nl := rng.Intn(3)
	if nl > len(rest) {
		nl = len(rest)
	}
	cs.Learners = append(cs.Learners, rest[:nl]...)
	return cs
}

var ccLetters = map[pb.ConfChangeType]string{pb.ConfChangeAddNode: "a", pb.ConfChangeAddLearnerNode: "l", pb.ConfChangeRemoveNode: "r", pb.ConfChangeUpdateNode: "u"}

func randomChanges(rng *rand.Rand, n int) ([]pb.ConfChangeSingle, string) {
	var ccs []pb.ConfChangeSingle
	var txt []string
	for k := 0; k < n; k++ {
		var t pb.ConfChangeType
		switch x := rng.Intn(100); {
		case x < 36:
			t = pb.ConfChangeAddNode
		case x < 62:
			t = pb.ConfChangeAddLearnerNode
		case x < 88:
			t = pb.ConfChangeRemoveNode
		case x < 97:
			t = pb.ConfChangeUpdateNode
		default:
			t = pb.ConfChangeType(7) // outside the enum
		}
		id := uint64(1 + rng.Intn(7))
		if rng.Intn(25) == 0 {
			id = 0
		}
		ccs = append(ccs, pb.ConfChangeSingle{Type: t, NodeID: id})
		l, ok := ccLetters[t]
		if !ok {
			l = "x"
		}
		txt = append(txt, l+strconv.FormatUint(id, 10))
	}
	if len(txt) == 0 {
		return ccs, "-"
	}
	return ccs, strings.Join(txt, ",")
}

type confSeq struct {
	tr   tracker.ProgressTracker
	left int
}

func (q *confSeq) start(w *bufio.Writer, rng *rand.Rand) {
	q.tr = tracker.MakeProgressTracker(16)
	q.left = 4 + rng.Intn(14)
	if rng.Intn(4) == 0 {
		fmt.Fprintf(w, "CI empty\n")
		return
	}
	cs := randomConfState(rng)
	cfg, prs, err := confchange.Restore(confchange.Changer{Tracker: q.tr, LastIndex: 10}, cs)
	st := "ok"
	if err != nil {
		st = "err"
	} else {
		q.tr.Config, q.tr.Progress = cfg, prs
	}
	fmt.Fprintf(w, "CI restore %s %s %s %s %s %s %s %s\n", fmtIDList(cs.Voters), fmtIDList(cs.Learners), fmtIDList(cs.VotersOutgoing),
		fmtIDList(cs.LearnersNext), b01(cs.AutoLeave), st, fmtTrackerCfg(q.tr.Config, q.tr.Progress), errText(err))
}

func (q *confSeq) step(w *bufio.Writer, rng *rand.Rand) {
	isJoint := len(q.tr.Voters[1]) > 0
	x := rng.Intn(100)
	var op string
	switch {
	case isJoint && x < 50, !isJoint && x < 8:
		op = "leave"
	case isJoint && x < 75, !isJoint && x < 45:
		op = "enter"
	default:
		op = "simple"
	}
	chg := confchange.Changer{Tracker: q.tr, LastIndex: 10}
	var cfg tracker.Config
	var prs tracker.ProgressMap
	var err error
	txt := "-"
	switch op {
	case "leave":
		cfg, prs, err = chg.LeaveJoint()
	case "enter":
		var ccs []pb.ConfChangeSingle
		ccs, txt = randomChanges(rng, rng.Intn(5))
		al := rng.Intn(2) == 0
		op += b01(al)
		cfg, prs, err = chg.EnterJoint(al, ccs...)
	default:
		n := 1
		if y := rng.Intn(10); y >= 8 {
			n = 3
		} else if y >= 5 {
			n = 2
		}
		var ccs []pb.ConfChangeSingle
		ccs, txt = randomChanges(rng, n)
		cfg, prs, err = chg.Simple(ccs...)
	}
	st := "ok"
	if err != nil {
		st = "err"
	} else {
		q.tr.Config, q.tr.Progress = cfg, prs
	}
	fmt.Fprintf(w, "CC %s %s %s %s %s\n", op, txt, st, fmtTrackerCfg(q.tr.Config, q.tr.Progress), errText(err))
	q.left--
}

// stageD: `cases` JQ lines, `cases` JV lines and `cases` Changer operations (in sequences of 4..17 from a fresh tracker)
func stageD(w *bufio.Writer, rng *rand.Rand, cases int) {
	for c := 0; c < cases; c++ {
		stageDQuorum(w, rng)
	}
	var q confSeq
	for c := 0; c < cases; c++ {
		if q.left == 0 {
			q.start(w, rng)
		}
		q.step(w, rng)
	}
}
