package main

import (
	"encoding/json"
	"fmt"
	"sync"

	"github.com/innovationb1ue/RedisGO/config"
	"github.com/innovationb1ue/RedisGO/server"
)

// firsttouch (C05): the very FIRST commands a fresh server receives, from several clients at the same instant, on the same key (and on keys of
// one lock stripe).  Every other scenario preloads its keyspace before the clients start, which touches every lock, map shard and lazily built
// structure once, sequentially; anything that is created on first use is then already there.  Here each of 400 fresh managers gets, as its first
// commands ever, eight simultaneous INCR k (the sum must be 8, each reply a different number 1..8) followed by eight simultaneous RPUSH q / LPOP q
// pairs (nothing lost, nothing twice).  A crash of the process ("fatal error: sync: RUnlock of unlocked RWMutex") ends the run and is reported by the
// orchestrator as a crash of the scenario.  Added after the seeded change C05-lazy-stripe-cas-ignored (lock stripes allocated on first use, the loser
// of the publishing compare-and-swap kept its private mutex).
func firstTouch(seed int64, rounds int, want map[string]bool, enc *json.Encoder) {
	if !want["all"] && !want["firsttouch"] {
		return
	}
	for r := 0; r < rounds; r++ {
		rep := concReport{Scenario: "firsttouch", Seed: seed + int64(r), Goroutines: 8, Shards: []int{4, 64}[r%2], Result: "ok"}
		config.Configures.ShardNum = rep.Shards
		for it := 0; it < 400 && rep.Result == "ok"; it++ {
			mgr := server.NewManager(config.Configures)
			const n = 8
			key := fmt.Sprintf("k%d", it)
			var wg sync.WaitGroup
			start := make(chan struct{})
			outs := make([]string, n)
			for g := 0; g < n; g++ {
				wg.Add(1)
				go func(g int) {
					defer wg.Done()
					<-start
					outs[g], _ = runCmd(mgr, "INCR", key)
				}(g)
			}
			close(start)
			wg.Wait()
			seen := map[string]bool{}
			for _, o := range outs {
				seen[o] = true
			}
			final, _ := runCmd(mgr, "GET", key)
			if len(seen) != n || final != fmt.Sprintf("$1\r\n%d\r\n", n) {
				rep.Result = "not-linearizable"
				rep.Detail = fmt.Sprintf("fresh server %d: eight clients sent INCR %s as the first commands it ever received, at the same instant; replies %q, GET %s afterwards %q (eight different numbers 1..8 and 8 expected)", it, key, outs, key, final)
				break
			}
			start2 := make(chan struct{})
			pops := make([]string, n)
			for g := 0; g < n; g++ {
				wg.Add(2)
				go func(g int) { defer wg.Done(); <-start2; runCmd(mgr, "RPUSH", "q", fmt.Sprintf("e%d", g)) }(g)
				go func(g int) { defer wg.Done(); <-start2; pops[g], _ = runCmd(mgr, "LPOP", "q") }(g)
			}
			close(start2)
			wg.Wait()
			rest, _ := runCmd(mgr, "LRANGE", "q", "0", "-1")
			items, _ := flatBulks(rest)
			got := map[string]int{}
			for _, p := range pops {
				if p != "$-1\r\n" {
					got[p]++
				}
			}
			for _, e := range items {
				got[fmt.Sprintf("$%d\r\n%s\r\n", len(e), e)]++
			}
			if len(got) != n {
				rep.Result, rep.Detail = "not-linearizable", fmt.Sprintf("fresh server %d: eight RPUSH q e<i> and eight LPOP q as the first commands on q: popped %q, left %q - %d distinct elements accounted for, 8 pushed", it, pops, items, len(got))
			}
			for e, c := range got {
				if c != 1 {
					rep.Result, rep.Detail = "not-linearizable", fmt.Sprintf("fresh server %d: element %q is accounted for %d times (popped %q, left %q)", it, e, c, pops, items)
				}
			}
			rep.Ops += 3 * n
		}
		enc.Encode(rep)
	}
}
