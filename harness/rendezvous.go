package main

import (
	"bufio"
	"bytes"
	"context"
	"encoding/json"
	"fmt"
	"io"
	"log"
	"net"
	"os"
	"strconv"
	"strings"
	"time"

	"github.com/innovationb1ue/RedisGO/config"
	"github.com/innovationb1ue/RedisGO/raftexample"
	"github.com/innovationb1ue/RedisGO/resp"
	"github.com/innovationb1ue/RedisGO/server"
	"go.etcd.io/etcd/raft/v3/raftpb"
)

// rendezvous engine (C07 own_reply): the REAL Manager.HandleCluster (one goroutine per client connection over net.Pipe, exactly as
// server.Start runs it, through hook H3 VerifHandleCluster) and the REAL handleClusterCommits (VerifHandleClusterCommits) around one
// shared callback map, with the harness playing raft: it reads the proposals from proposeC and decides - line by line, as told by
// the generator - which of them, in which order, in which batches, mixed with which foreign entries, are "committed" on commitC.
//
//   RZ new                          fresh Manager (1 database), channels, callback map, apply loop
//   RZ w <conn> <cmd> <cmd> ...     the client of connection <conn> (opened on first use) writes these commands in one write
//                                   (a pipeline); <cmd> = arguments in hex joined by ':' ("-" = empty argument)
//   RZ c <item> ... [| <item> ...]  commit: one RaftCommit per '|'-separated group, sent back to back on commitC; every ApplyDoneC
//                                   is awaited.  <item> = c:<conn>   the proposal connection <conn> has outstanding
//                                                       | f:<id>:<cmd> a foreign entry (another node's client): id and command
//                                                       | d:<k>       the k-th committed entry (0-based) once more (a replay)
//   RZ end                          quiescence: anything still arriving is collected, the number of registered ids is reported
//
// Every committed proposal goes through RaftProposal.ToBytes and json.Unmarshal, as in propose/publishEntries.
// Output: the line, " => ", then the events in the order the harness observed them (per connection that is the real order):
//   p:<conn>:<id>     raft received a proposal with this id, and it is the next command of connection <conn>
//   r:<conn>:<hex>    the client of <conn> received one complete RESP value
//   x:<what>          the harness gave up: hang (something expected did not arrive in time), nolabel, unmatched:<id>, closed:<conn>
//   reg:<n>           (RZ end) ids registered in the callback map

type rzMsg struct {
	conn string
	data []byte // one complete RESP value; nil = connection closed
}

type rzConn struct {
	id       string
	cli      net.Conn
	writeQ   chan []byte
	fifo     [][][]byte // commands written and neither proposed nor answered yet
	inflight *raftexample.RaftProposal
}

type rzWorld struct {
	mgr      *server.Manager
	ctx      context.Context
	cancel   context.CancelFunc
	proposeC chan *raftexample.RaftProposal
	confC    chan raftpb.ConfChangeI
	commitC  chan *raftexample.RaftCommit
	errorC   chan error
	callback map[string]chan resp.RedisData
	conns    map[string]*rzConn
	order    []string
	msgs     chan rzMsg
	logged   []*raftexample.RaftProposal // everything committed so far, in order
	stash    []*raftexample.RaftProposal // proposals not attributed to a connection yet
	await    map[string]bool             // connections whose outstanding proposal was committed and whose reply is due
}

// readValue reads one complete RESP value and returns its raw bytes
func rzReadValue(r *bufio.Reader) ([]byte, error) {
	line, err := r.ReadBytes('\n')
	if err != nil {
		return nil, err
	}
	if len(line) < 3 {
		return line, nil
	}
	switch line[0] {
	case '$':
		n, e := strconv.Atoi(string(bytes.TrimRight(line[1:], "\r\n")))
		if e != nil || n < 0 {
			return line, nil
		}
		body := make([]byte, n+2)
		if _, err := io.ReadFull(r, body); err != nil {
			return nil, err
		}
		return append(line, body...), nil
	case '*':
		n, e := strconv.Atoi(string(bytes.TrimRight(line[1:], "\r\n")))
		if e != nil || n < 0 {
			return line, nil
		}
		out := line
		for i := 0; i < n; i++ {
			v, err := rzReadValue(r)
			if err != nil {
				return nil, err
			}
			out = append(out, v...)
		}
		return out, nil
	}
	return line, nil
}

func rzNew() *rzWorld {
	w := &rzWorld{conns: map[string]*rzConn{}, await: map[string]bool{}}
	config.Configures.Databases = 1
	w.mgr = server.NewManager(config.Configures)
	w.ctx, w.cancel = context.WithCancel(context.Background())
	w.proposeC = make(chan *raftexample.RaftProposal) // unbuffered, as in server.Start
	w.confC = make(chan raftpb.ConfChangeI)
	w.commitC = make(chan *raftexample.RaftCommit) // unbuffered, as in raftexample.NewRaftNode
	w.errorC = make(chan error)
	w.callback = make(map[string]chan resp.RedisData)
	w.msgs = make(chan rzMsg, 4096)
	go func() {
		defer func() { recover() }()
		server.VerifHandleClusterCommits(w.ctx, w.commitC, w.confC, w.mgr, w.callback, w.errorC, func() error { return nil })
	}()
	return w
}

func (w *rzWorld) close() {
	w.cancel()
	for _, c := range w.conns {
		c.cli.Close()
		close(c.writeQ)
	}
	close(w.commitC)
	close(w.errorC)
}

func (w *rzWorld) conn(id string) *rzConn {
	if c, ok := w.conns[id]; ok {
		return c
	}
	cli, srv := net.Pipe()
	c := &rzConn{id: id, cli: cli, writeQ: make(chan []byte, 1024)}
	w.conns[id] = c
	w.order = append(w.order, id)
	go func() {
		defer func() { recover() }()
		server.VerifHandleCluster(w.ctx, w.mgr, srv, w.proposeC, w.confC, w.callback)
	}()
	go func() { // the client's writer: payloads in the order of the W lines
		for p := range c.writeQ {
			cli.SetWriteDeadline(time.Now().Add(30 * time.Second))
			if _, err := cli.Write(p); err != nil {
				return
			}
		}
	}()
	msgs := w.msgs
	go func() { // the client's reader: one message per complete RESP value
		r := bufio.NewReader(cli)
		for {
			v, err := rzReadValue(r)
			if err != nil {
				msgs <- rzMsg{conn: id}
				return
			}
			msgs <- rzMsg{conn: id, data: v}
		}
	}()
	return c
}

func rzCmd(tok string) [][]byte {
	parts := strings.Split(tok, ":")
	argv := make([][]byte, 0, len(parts))
	for _, p := range parts {
		argv = append(argv, unhex(p))
	}
	return argv
}

func rzEncode(argv [][]byte) []byte {
	var b bytes.Buffer
	fmt.Fprintf(&b, "*%d\r\n", len(argv))
	for _, a := range argv {
		fmt.Fprintf(&b, "$%d\r\n", len(a))
		b.Write(a)
		b.WriteString("\r\n")
	}
	return b.Bytes()
}

func rzSameArgs(a, b [][]byte) bool {
	if len(a) != len(b) {
		return false
	}
	for i := range a {
		if !bytes.Equal(a[i], b[i]) {
			return false
		}
	}
	return true
}

// attribute a proposal to the one idle connection whose next written command it is
func (w *rzWorld) attribute(p *raftexample.RaftProposal, ev *[]string) bool {
	var cand []*rzConn
	for _, id := range w.order {
		c := w.conns[id]
		if c.inflight == nil && len(c.fifo) > 0 && rzSameArgs(c.fifo[0], p.Args) {
			cand = append(cand, c)
		}
	}
	if len(cand) != 1 {
		return false
	}
	c := cand[0]
	c.inflight = p
	c.fifo = c.fifo[1:]
	*ev = append(*ev, "p:"+c.id+":"+p.ID)
	return true
}

func (w *rzWorld) retryStash(ev *[]string) {
	var keep []*raftexample.RaftProposal
	for _, p := range w.stash {
		if !w.attribute(p, ev) {
			keep = append(keep, p)
		}
	}
	w.stash = keep
}

func (w *rzWorld) onMsg(m rzMsg, ev *[]string) {
	c := w.conns[m.conn]
	if m.data == nil {
		*ev = append(*ev, "x:closed:"+m.conn)
		c.fifo = nil
		return
	}
	*ev = append(*ev, "r:"+m.conn+":"+hx(m.data))
	if c.inflight != nil {
		c.inflight = nil
		delete(w.await, m.conn)
	} else if len(c.fifo) > 0 {
		c.fifo = c.fifo[1:] // answered without a proposal (refused by the cluster filter)
	}
	w.retryStash(ev)
}

// settle: wait until every commit batch was applied, every due reply arrived and every connection that can propose has proposed
func (w *rzWorld) settle(ev *[]string, applied <-chan struct{}, nbatches int) {
	deadline := time.After(6 * time.Second)
	for {
		busy := nbatches > 0 || len(w.await) > 0 || len(w.stash) > 0
		if !busy {
			for _, id := range w.order {
				c := w.conns[id]
				if c.inflight == nil && len(c.fifo) > 0 {
					busy = true
				}
			}
		}
		if !busy {
			return
		}
		select {
		case p := <-w.proposeC:
			if !w.attribute(p, ev) {
				w.stash = append(w.stash, p)
			}
		case m := <-w.msgs:
			w.onMsg(m, ev)
		case <-applied:
			nbatches--
		case <-deadline:
			*ev = append(*ev, "x:hang")
			for _, p := range w.stash {
				*ev = append(*ev, "x:unmatched:"+p.ID)
			}
			w.stash = nil
			w.await = map[string]bool{}
			for _, c := range w.conns {
				c.fifo = nil
			}
			return
		}
	}
}

func runRendezvous(args []string) {
	log.SetOutput(io.Discard) // handleClusterCommits logs every entry with the standard logger
	in := bufio.NewScanner(os.Stdin)
	in.Buffer(make([]byte, 1<<20), 1<<26)
	out := bufio.NewWriter(os.Stdout)
	defer out.Flush()
	var w *rzWorld
	// a hang (a reply or a proposal that never comes within 6 s) ends the scenario it happened in: its remaining lines are not run (the
	// world is no longer in a state the generator knows), and after three hangs the engine stops reading - a change that makes the
	// rendezvous hang would otherwise cost 6 s per line for the whole suite
	hangs, skipping := 0, false
	for in.Scan() {
		line := in.Text()
		f := strings.Fields(line)
		if len(f) < 2 || f[0] != "RZ" {
			continue
		}
		if skipping && f[1] != "new" {
			continue
		}
		skipping = false
		var ev []string
		if w != nil {
			// whatever arrived since the previous line (nothing should)
			for drained := false; !drained; {
				select {
				case m := <-w.msgs:
					w.onMsg(m, &ev)
				default:
					drained = true
				}
			}
		}
		switch f[1] {
		case "new":
			if w != nil {
				w.close()
			}
			w = rzNew()
		case "w":
			c := w.conn(f[2])
			var payload []byte
			for _, tok := range f[3:] {
				argv := rzCmd(tok)
				c.fifo = append(c.fifo, argv)
				payload = append(payload, rzEncode(argv)...)
			}
			c.writeQ <- payload
			w.settle(&ev, nil, 0)
		case "c":
			var batches [][]*raftexample.RaftProposal
			cur := []*raftexample.RaftProposal{}
			for _, it := range f[2:] {
				if it == "|" {
					batches = append(batches, cur)
					cur = []*raftexample.RaftProposal{}
					continue
				}
				var p *raftexample.RaftProposal
				switch {
				case strings.HasPrefix(it, "c:"):
					c, ok := w.conns[it[2:]]
					if !ok || c.inflight == nil || w.await[c.id] {
						ev = append(ev, "x:nolabel:"+it)
						continue
					}
					p = c.inflight
					w.await[c.id] = true
				case strings.HasPrefix(it, "f:"):
					kv := strings.SplitN(it[2:], ":", 2)
					argv := rzCmd(kv[1])
					words := make([]string, 0, len(argv))
					for _, a := range argv {
						words = append(words, string(a))
					}
					p = &raftexample.RaftProposal{Data: strings.Join(words, " "), Args: argv, ID: kv[0]}
				case strings.HasPrefix(it, "d:"):
					k, _ := strconv.Atoi(it[2:])
					if k < 0 || k >= len(w.logged) {
						ev = append(ev, "x:nolabel:"+it)
						continue
					}
					p = w.logged[k]
				}
				// what raft does with it: the bytes of the log entry, decoded again by publishEntries
				var q raftexample.RaftProposal
				if err := json.Unmarshal(p.ToBytes(), &q); err != nil {
					panic(err)
				}
				cur = append(cur, &q)
				w.logged = append(w.logged, &q)
			}
			batches = append(batches, cur)
			applied := make(chan struct{}, len(batches))
			n := 0
			var send []*raftexample.RaftCommit
			for _, b := range batches {
				if len(b) == 0 {
					continue // publishEntries sends nothing for a Ready without normal entries
				}
				n++
				done := make(chan struct{}, 1)
				send = append(send, &raftexample.RaftCommit{Data: b, ApplyDoneC: done})
				go func() { <-done; applied <- struct{}{} }()
			}
			commitC := w.commitC
			go func() {
				defer func() { recover() }()
				for _, rc := range send {
					commitC <- rc
				}
			}()
			w.settle(&ev, applied, n)
		case "end":
			grace := time.After(15 * time.Millisecond)
			for done := false; !done; {
				select {
				case m := <-w.msgs:
					w.onMsg(m, &ev)
				case p := <-w.proposeC:
					ev = append(ev, "x:unmatched:"+p.ID)
				case <-grace:
					done = true
				}
			}
			ev = append(ev, fmt.Sprintf("reg:%d", server.VerifCallbackRegistered(w.callback)))
		}
		fmt.Fprintf(out, "%s => %s\n", line, strings.Join(ev, " "))
		out.Flush()
		for _, e := range ev {
			if e == "x:hang" {
				hangs++
				skipping = true
				break
			}
		}
		if hangs >= 3 {
			break
		}
	}
	if w != nil {
		w.close()
	}
}
