package main

// tornsave: the deterministic repro of the recorded finding wal/torn-save/snapshot-with-entries (C16; the node-level effect is C08's).
//
// A raft Ready may carry a Snapshot (index S), Entries S+1.. and a HardState with Commit >= S.  The Ready arm of serveChannels saves the
// snapshot (file, then the WAL snapshot record, synced) and then calls wal.Save(hardState, entries), which encodes the ENTRY records first and
// the HARD STATE record last and syncs once at the end.  If a crash leaves a PREFIX of that unsynced write on disk that contains the entry
// record but not the hard-state record, the next start dies: wal.ValidSnapshotEntries drops the snapshot record (its index is above the
// commit index of the last persisted hard state), the WAL is opened at the older snapshot, ReadAll meets entry S+1 beyond the end of its
// slice and returns ErrSliceOutOfRange, and replayWAL turns that into log.Fatalf - on every start (model counterpart:
// ReadyLoop.C08Ready.snapshot_with_entries_strands).
//
// The directories are built with the REAL packages only (no hook): wal.Create; Save({1,1,5}, entries 1..6); snapshot 10/1 through
// snap.New(..).SaveSnap + w.SaveSnapshot; then
//   torn:    w.Save(raftpb.HardState{}, [entry 11])   - an EMPTY hard state writes no state record (saveState skips it): byte for byte the
//            file a Save({1,1,11}, [entry 11]) leaves when the write is cut between the two records;
//   zeroed:  the full Save({1,1,11}, [entry 11]) with the bytes of the state record zeroed afterwards - must be byte-identical to `torn`;
//   control: the full Save({1,1,11}, [entry 11]).
// Then the real restart path - raftexample.NewRaftNode on those directories, as the readyloop engine starts a new life - runs in a CHILD
// process (it ends in log.Fatalf = os.Exit(1)); the parent reports exit status and the last lines of the child's log.
//
// usage: harness tornsave <scratch dir>            one JSON line per case on stdout
//        harness tornsave-child <dir>              (internal)

import (
	"bytes"
	"encoding/json"
	"fmt"
	"net"
	"os"
	"os/exec"
	"path/filepath"
	"strings"
	"time"

	"github.com/innovationb1ue/RedisGO/raftexample"
	"go.etcd.io/etcd/raft/v3/raftpb"
	"go.etcd.io/etcd/server/v3/etcdserver/api/snap"
	"go.etcd.io/etcd/server/v3/storage/wal"
	"go.etcd.io/etcd/server/v3/storage/wal/walpb"
	"go.uber.org/zap"
)

type tsReport struct {
	Case      string   `json:"case"`
	Built     bool     `json:"built"`
	Error     string   `json:"error,omitempty"`
	WalUsed   int      `json:"wal_used_bytes"`
	Identical *bool    `json:"identical_to_torn,omitempty"` // zeroed: the file equals the torn one byte for byte
	Exit      int      `json:"exit"`
	Started   bool     `json:"started"` // the child reported that the node replayed its WAL and listens
	TimedOut  bool     `json:"timed_out,omitempty"`
	LogTail   []string `json:"log_tail"`
}

func tsEnts(from, to uint64) []raftpb.Entry {
	var es []raftpb.Entry
	for i := from; i <= to; i++ {
		es = append(es, raftpb.Entry{Index: i, Term: 1, Type: raftpb.EntryNormal}) // no data: publishEntries ignores empty entries
	}
	return es
}

func tsUsed(b []byte) int {
	n := len(b)
	for n > 0 && b[n-1] == 0 {
		n--
	}
	return n
}

func tsWalFile(waldir string) (string, error) {
	m, _ := filepath.Glob(filepath.Join(waldir, "*.wal"))
	if len(m) != 1 {
		return "", fmt.Errorf("expected one WAL segment, found %v", m)
	}
	return m[0], nil
}

// tsBuild writes the directories of node 2 under dir; full = the last Save carries its hard state
func tsBuild(dir string, full bool) error {
	waldir, snapdir := filepath.Join(dir, "raftexample-2"), filepath.Join(dir, "raftexample-2-snap")
	if err := os.MkdirAll(snapdir, 0o750); err != nil {
		return err
	}
	lg := zap.NewNop()
	w, err := wal.Create(lg, waldir, nil)
	if err != nil {
		return err
	}
	w.Close()
	if w, err = wal.Open(lg, waldir, walpb.Snapshot{}); err != nil { // as openWAL does on a first start
		return err
	}
	if _, _, _, err = w.ReadAll(); err != nil {
		return err
	}
	defer w.Close()
	if err = w.Save(raftpb.HardState{Term: 1, Vote: 1, Commit: 5}, tsEnts(1, 6)); err != nil {
		return err
	}
	cs := raftpb.ConfState{Voters: []uint64{1, 2, 3}}
	sn := raftpb.Snapshot{Data: []byte(`{"harness":"tornsave"}`), Metadata: raftpb.SnapshotMetadata{Index: 10, Term: 1, ConfState: cs}}
	if err = snap.New(lg, snapdir).SaveSnap(sn); err != nil { // RaftNode.saveSnap: file, then the WAL record
		return err
	}
	if err = w.SaveSnapshot(walpb.Snapshot{Index: 10, Term: 1, ConfState: &cs}); err != nil {
		return err
	}
	hs := raftpb.HardState{}
	if full {
		hs = raftpb.HardState{Term: 1, Vote: 1, Commit: 11}
	}
	if err = w.Save(hs, tsEnts(11, 11)); err != nil {
		return err
	}
	return w.Sync()
}

func tsChild(dir string, rep *tsReport) {
	cmd := exec.Command(os.Args[0], "tornsave-child", dir)
	var so, se bytes.Buffer
	cmd.Stdout, cmd.Stderr = &so, &se
	cmd.Env = os.Environ()
	if err := cmd.Start(); err != nil {
		rep.Error = "child: " + err.Error()
		rep.Exit = -1
		return
	}
	done := make(chan error, 1)
	go func() { done <- cmd.Wait() }()
	select {
	case err := <-done:
		if err != nil {
			if ee, ok := err.(*exec.ExitError); ok {
				rep.Exit = ee.ExitCode()
			} else {
				rep.Exit = -1
				rep.Error = "child: " + err.Error()
			}
		}
	case <-time.After(30 * time.Second):
		cmd.Process.Kill()
		<-done
		rep.TimedOut, rep.Exit = true, -9
	}
	rep.Started = strings.Contains(so.String(), "CHILD started")
	for _, l := range strings.Split(strings.TrimSpace(se.String()), "\n") {
		if l = strings.TrimSpace(l); l != "" {
			rep.LogTail = append(rep.LogTail, l)
		}
	}
	for _, l := range strings.Split(so.String(), "\n") {
		if strings.HasPrefix(l, "CHILD") {
			rep.LogTail = append(rep.LogTail, l)
		}
	}
	if n := len(rep.LogTail); n > 6 {
		rep.LogTail = rep.LogTail[n-6:]
	}
}

func runTornsave(args []string) {
	if len(args) < 1 {
		fmt.Fprintln(os.Stderr, "usage: harness tornsave <scratch dir>")
		os.Exit(2)
	}
	root := args[0]
	wal.SegmentSizeBytes = 1 << 20
	var tornBytes []byte
	out := json.NewEncoder(os.Stdout)
	for _, c := range []string{"torn", "zeroed", "control"} {
		rep := &tsReport{Case: c}
		dir := filepath.Join(root, c)
		os.RemoveAll(dir)
		err := tsBuild(dir, c != "torn")
		var f string
		var b []byte
		if err == nil {
			f, err = tsWalFile(filepath.Join(dir, "raftexample-2"))
		}
		if err == nil {
			b, err = os.ReadFile(f)
		}
		if err == nil && c == "torn" {
			tornBytes = b
		}
		if err == nil && c == "zeroed" {
			// cut the full Save after the entry record: everything behind the torn file's last byte (the hard-state record) never reached the disk
			for i := tsUsed(tornBytes); i < len(b); i++ {
				b[i] = 0
			}
			same := bytes.Equal(b, tornBytes)
			rep.Identical = &same
			err = os.WriteFile(f, b, 0o600)
		}
		if err != nil {
			rep.Error = err.Error()
			out.Encode(rep)
			continue
		}
		rep.Built, rep.WalUsed = true, tsUsed(b)
		tsChild(dir, rep)
		out.Encode(rep)
	}
}

// runTornsaveChild is a new life of node 2 on the given directories: what `redisgo` does at start in cluster mode
func runTornsaveChild(args []string) {
	if len(args) < 1 || os.Chdir(args[0]) != nil {
		fmt.Fprintln(os.Stderr, "tornsave-child: bad directory")
		os.Exit(2)
	}
	wal.SegmentSizeBytes = 1 << 20
	peers := make([]string, 3)
	for i := range peers {
		ln, err := net.Listen("tcp", "127.0.0.1:0")
		if err != nil {
			fmt.Fprintln(os.Stderr, "tornsave-child:", err)
			os.Exit(2)
		}
		peers[i] = "http://" + ln.Addr().String()
		ln.Close()
	}
	proposeC := make(chan *raftexample.RaftProposal)
	confC := make(chan raftpb.ConfChangeI)
	getSnapshot := func() ([]byte, error) { return []byte(`{"harness":"tornsave"}`), nil }
	_, _, ready, rc := raftexample.NewRaftNode(2, peers[1], peers, false, getSnapshot, proposeC, confC)
	<-ready // replayWAL has returned (it ends the process with log.Fatalf when the WAL cannot be read)
	sn := rc.TakeSnapshot()
	host := strings.TrimPrefix(peers[1], "http://")
	deadline := time.Now().Add(10 * time.Second)
	for {
		c, err := net.Dial("tcp", host)
		if err == nil {
			c.Close()
			break
		}
		if time.Now().After(deadline) {
			fmt.Println("CHILD replayed its WAL but does not listen:", err)
			os.Exit(3)
		}
		time.Sleep(time.Millisecond)
	}
	st := rc.Node.Status()
	si := uint64(0)
	if sn != nil {
		si = sn.Metadata.Index
	}
	fmt.Printf("CHILD started: snapshot=%d term=%d vote=%d commit=%d applied=%d\n", si, st.Term, st.Vote, st.Commit, st.Applied)
	os.Exit(0)
}
