package main

import (
	"fmt"
	"os"
)

func main() {
	if len(os.Args) < 2 {
		fmt.Fprintln(os.Stderr, "usage: harness <engine> [args]")
		os.Exit(2)
	}
	switch os.Args[1] {
	case "glob":
		runGlob(os.Args[2:])
	case "parser":
		setupLogger()
		runParser(os.Args[2:])
	case "exec":
		setupLogger()
		runExec(os.Args[2:])
	case "serve":
		setupLogger()
		runServe(os.Args[2:])
	case "conc":
		setupLogger()
		runConc(os.Args[2:])
	case "raftsim":
		runRaftsim(os.Args[2:])
	case "facts":
		runFacts(os.Args[2:])
	case "apply":
		runApply(os.Args[2:])
	case "wal":
		runWal(os.Args[2:])
	case "codec":
		setupLogger()
		runCodec(os.Args[2:])
	case "cluster":
		runCluster(os.Args[2:])
	case "churn":
		runChurn(os.Args[2:])
	case "snaprace":
		runSnaprace(os.Args[2:])
	case "readyloop":
		runReadyloop(os.Args[2:])
	case "tornsave":
		runTornsave(os.Args[2:])
	case "tornsave-child":
		runTornsaveChild(os.Args[2:])
	case "rendezvous":
		setupLogger()
		runRendezvous(os.Args[2:])
	case "multi":
		setupLogger()
		runMultiNode(os.Args[2:])
	case "alias":
		setupLogger()
		runAlias(os.Args[2:])
	case "config":
		runConfig(os.Args[2:])
	case "config-child":
		runConfigChild(os.Args[2:])
	default:
		fmt.Fprintln(os.Stderr, "unknown engine", os.Args[1])
		os.Exit(2)
	}
}
