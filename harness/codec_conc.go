package main

import (
	"bytes"
	"context"
	"encoding/json"
	"fmt"
	"os"
	"strconv"
	"strings"
	"sync"
	"sync/atomic"

	"github.com/innovationb1ue/RedisGO/config"
	"github.com/innovationb1ue/RedisGO/server"
)

// codec conc <seed> <iterations>: the cluster path of a command (filter, newClusterProposal, ToBytes, json.Unmarshal, apply - hook
// VerifClusterRoundTrip) taken by eight clients AT THE SAME TIME, as the connection goroutines of a cluster node do.  Every client works
// on its own keys, so its replies and log bytes are those of the same commands run alone (computed first, sequentially, on a second
// manager): the filter's verdict, the reply and the replicated bytes of a command must not depend on what other connections are
// submitting.  Clients 0 and 1 submit what the filter refuses (PUBLISH / SUBSCRIBE in several letter cases); the others submit commands
// whose names have the same lengths (HINCRBY, PERSIST, HEXISTS, HSTRLEN: 7; SISMEMBER: 9) and others.
// Added after the seeded change C14-filter-shared-scratch (a package-level scratch buffer in ClusterCmdFilter).
type codecConcReport struct {
	Scenario string `json:"scenario"`
	Seed     int64  `json:"seed"`
	Clients  int    `json:"clients"`
	Ops      int64  `json:"ops"`
	Refused  int64  `json:"refused"`
	Result   string `json:"result"` // ok | differs | panic
	Detail   string `json:"detail,omitempty"`
}

func codecConcProgram(g, iters int) [][]string {
	k := func(s string) string { return fmt.Sprintf("%s-%d", s, g) }
	var prog [][]string
	for i := 0; i < iters; i++ {
		switch {
		case g < 2:
			prog = append(prog, [][]string{{"PUBLISH", k("ch"), "m"}, {"subscribe", k("ch")}, {"PuBlIsH", k("ch"), "x y"}, {"SUBSCRIBE", k("a"), k("b")}, {"publish", "", ""}}[i%5])
		default:
			prog = append(prog, [][]string{
				{"HINCRBY", k("h"), "f", "1"}, {"PERSIST", k("h")}, {"HEXISTS", k("h"), "f"}, {"HSTRLEN", k("h"), "f"}, {"HLEN", k("h")}, // (no HGETALL: its order is the map's)
				{"SADD", k("s"), strconv.Itoa(i % 7)}, {"SISMEMBER", k("s"), strconv.Itoa(i % 5)}, {"hincrby", k("h"), "g", "-2"}, {"APPEND", k("str"), "ab"},
				{"LPUSHX", k("nolist"), "v"}, {"SET", k("v"), "a b\r\nc"}, {"GET", k("v")}, {"INCR", k("n")},
			}[(i+g)%13])
		}
	}
	return prog
}

func runCodecConc(args []string) {
	seed, _ := strconv.ParseInt(args[0], 10, 64)
	iters, _ := strconv.Atoi(args[1])
	const clients = 8
	rep := codecConcReport{Scenario: "cluster-path-concurrent", Seed: seed, Clients: clients, Result: "ok"}
	defer func() { json.NewEncoder(os.Stdout).Encode(rep) }()
	config.Configures.Databases = 1
	config.Configures.ShardNum = 64
	type res struct {
		reply   []byte
		wire    []byte
		refused bool
	}
	one := func(m *server.Manager, argv []string) (r res, panicked string) {
		defer func() {
			if x := recover(); x != nil {
				panicked = fmt.Sprint(x)
			}
		}()
		cmd := make([][]byte, len(argv))
		for i, a := range argv {
			cmd[i] = []byte(a)
		}
		out, wire, refused := server.VerifClusterRoundTrip(context.Background(), m, cmd)
		if out != nil {
			r.reply = out.ToBytes()
		}
		r.wire, r.refused = wire, refused
		return
	}
	// alone, on a manager of its own
	ref := server.NewManager(config.Configures)
	progs := make([][][]string, clients)
	want := make([][]res, clients)
	for g := 0; g < clients; g++ {
		progs[g] = codecConcProgram(g, iters)
		for _, argv := range progs[g] {
			r, p := one(ref, argv)
			if p != "" {
				rep.Result, rep.Detail = "panic", "alone: "+strings.Join(argv, " ")+": "+p
				return
			}
			want[g] = append(want[g], r)
		}
	}
	// together
	mgr := server.NewManager(config.Configures)
	var bad atomic.Value
	var ops, refused atomic.Int64
	var wg sync.WaitGroup
	start := make(chan struct{})
	for g := 0; g < clients; g++ {
		wg.Add(1)
		go func(g int) {
			defer wg.Done()
			<-start
			for i, argv := range progs[g] {
				if bad.Load() != nil {
					return
				}
				r, p := one(mgr, argv)
				ops.Add(1)
				w := want[g][i]
				switch {
				case p != "":
					bad.CompareAndSwap(nil, fmt.Sprintf("client %d: %q panicked on the cluster path while other clients were submitting: %s", g, strings.Join(argv, " "), p))
				case r.refused != w.refused:
					bad.CompareAndSwap(nil, fmt.Sprintf("client %d: %q: the cluster filter %s it while other clients were submitting commands, and %s it when submitted alone",
						g, strings.Join(argv, " "), map[bool]string{true: "refused", false: "let through"}[r.refused], map[bool]string{true: "refuses", false: "lets through"}[w.refused]))
				case !bytes.Equal(r.reply, w.reply):
					bad.CompareAndSwap(nil, fmt.Sprintf("client %d: %q answered %q while other clients were submitting commands on their own keys, %q alone", g, strings.Join(argv, " "), r.reply, w.reply))
				case !bytes.Equal(r.wire, w.wire):
					bad.CompareAndSwap(nil, fmt.Sprintf("client %d: %q was written to the log as %q while other clients were submitting, as %q alone", g, strings.Join(argv, " "), r.wire, w.wire))
				}
				if r.refused {
					refused.Add(1)
				}
			}
		}(g)
	}
	close(start)
	wg.Wait()
	rep.Ops, rep.Refused = ops.Load(), refused.Load()
	if b := bad.Load(); b != nil {
		rep.Result, rep.Detail = "differs", b.(string)
	}
}
