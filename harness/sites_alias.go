package main

import (
	"bytes"
	"go/ast"
	"go/printer"
	"go/token"
	"go/types"
	"sort"
	"strings"
)

// Fact F7 — stored byte slices are never rewritten in place (C01, C10, C03; also C05).
//
// The executors hand STORED slices to their replies (resp.MakeBulkData(v) with v straight out of the keyspace) and the connection loop
// encodes a reply after the key's lock is released.  That is sound only while (1) no code WRITES INTO the bytes of a slice that is, or may
// alias, a stored value, and (2) every slice INSTALLED in the keyspace owns its bytes (a fresh allocation, or the parser's per-argument
// buffer handed over by the command) — two stored slices cut from one backing array would make the one reviewed `append(stored, …)`
// (APPEND) write through one key into the bytes behind another.
//
// Inventoried over memdb (tests and `verif` files excluded), per function:
//
//	write sites   : x[i] = …, x[i] op= …, x[i]++ ; copy(x…, …) ; append(x…, …) ; strconv.Append*(x…, …) / fmt.Append*(x…, …) /
//	                utf8.AppendRune / binary.Append* ; Read/ReadFull/ReadAtLeast/PutUint*/PutVarint/PutUvarint/bytes.NewBuffer(x…)   with x a []byte
//	install sites : lhs = v with lhs not a plain local (map element, struct field, dereference, package variable) and v a []byte;
//	                a call of a function / method of the repository outside package resp that receives a []byte-typed argument
//
// each with the CLASS of the slice concerned, from a per-function, flow-insensitive provenance analysis:
//
//	fresh   — make, composite literal, []byte(string), nil, append / strconv.Append* onto a fresh slice, bytes.Clone/Repeat/Join/…,
//	          results of repository functions all of whose returns are fresh, locals every assignment of which is fresh
//	param   — a parameter of the function (or an element / sub-slice of one; in an executor: the command words, each in the parser's own buffer)
//	stored  — read from a map / slice element, a struct field, a package variable, a type assertion of such a value, the result of a
//	          repository function that returns one
//	unknown — anything else (results of dynamic calls, of standard-library functions not known to copy, channel receives)
//
// fresh < param < stored < unknown; a local's class is the join over all its assignments (containers: over everything put in).
// Trusted / not covered: this extractor; in-place writes through sort.*, slices.*, bytes.Buffer internals or unsafe are not listed
// (memdb has none on byte slices); packages other than memdb are summarised for their results only; values moved between keys with static
// type `any` (RENAME, the *STORE commands) are not install sites (a command that COPIED a stored value that way would not be seen here - the
// alias engine's RENAME / neighbour scenarios are the net for it).
type aliasSite struct {
	File     string `json:"file"`
	Func     string `json:"func"`
	Line     int    `json:"line"`
	Kind     string `json:"kind"` // index-assign | copy | append | append-reslice | append-call | fill | install-assign | install-call
	Text     string `json:"text"`
	Operand  string `json:"operand"`
	Class    string `json:"class"`
	Evidence string `json:"evidence,omitempty"` // where the operand's bytes come from (the assignments of the local concerned)
}

type acls int

const (
	aFresh acls = iota
	aParam
	aStored
	aUnknown
)

func (c acls) String() string { return [...]string{"fresh", "param", "stored", "unknown"}[c] }

func ajoin(a, b acls) acls {
	if a > b {
		return a
	}
	return b
}

type aliasPass struct {
	fset    *token.FileSet
	summary map[types.Object][]acls // repository function -> class of each result (param: "as the arguments")
	changed bool
}

type aliasFn struct {
	p      *aliasPass
	info   *types.Info
	pkg    *types.Package
	params map[types.Object]bool
	local  map[types.Object]acls
	impl   map[types.Object]ast.Expr // type-switch symbol of a clause -> the switched expression
	evid   map[types.Object][]string
	dirty  bool
}

func isByteSlice(t types.Type) bool {
	if t == nil {
		return false
	}
	s, ok := t.Underlying().(*types.Slice)
	if !ok {
		return false
	}
	b, ok := s.Elem().Underlying().(*types.Basic)
	return ok && (b.Kind() == types.Byte || b.Kind() == types.Uint8)
}

// a type that cannot carry a byte slice
func plainType(t types.Type) bool {
	if t == nil {
		return false
	}
	switch u := t.Underlying().(type) {
	case *types.Basic:
		return true
	case *types.Signature:
		return true
	case *types.Struct:
		for i := 0; i < u.NumFields(); i++ {
			if !plainType(u.Field(i).Type()) {
				return false
			}
		}
		return true
	}
	return false
}

func (f *aliasFn) typeOf(e ast.Expr) types.Type {
	if tv, ok := f.info.Types[e]; ok {
		return tv.Type
	}
	if id, ok := e.(*ast.Ident); ok {
		if o := f.info.Uses[id]; o != nil {
			return o.Type()
		}
		if o := f.info.Defs[id]; o != nil {
			return o.Type()
		}
	}
	return nil
}

func (f *aliasFn) objOf(id *ast.Ident) types.Object {
	if o := f.info.Uses[id]; o != nil {
		return o
	}
	return f.info.Defs[id]
}

var freshStd = map[string]bool{"bytes.Clone": true, "bytes.Repeat": true, "bytes.Join": true, "bytes.ToUpper": true, "bytes.ToLower": true,
	"bytes.Title": true, "bytes.Map": true, "bytes.ReplaceAll": true, "bytes.Replace": true, "json.Marshal": true, "hex.DecodeString": true,
	"os.ReadFile": true, "io.ReadAll": true, "ioutil.ReadAll": true, "ioutil.ReadFile": true, "base64.StdEncoding.DecodeString": true}

func appendLike(name string) bool {
	i := strings.LastIndex(name, ".")
	return i >= 0 && strings.HasPrefix(name[i+1:], "Append")
}

func fillLike(name string) bool {
	i := strings.LastIndex(name, ".")
	switch name[i+1:] {
	case "Read", "ReadFull", "ReadAtLeast", "PutUint16", "PutUint32", "PutUint64", "PutVarint", "PutUvarint", "NewBuffer":
		// bytes.NewBuffer(x): later Writes go into x's spare capacity
		return true
	}
	return false
}

// callee of a call: a declared function / method (nil for conversions, builtins, function values)
func (f *aliasFn) calleeOf(c *ast.CallExpr) types.Object {
	var id *ast.Ident
	switch v := ast.Unparen(c.Fun).(type) {
	case *ast.Ident:
		id = v
	case *ast.SelectorExpr:
		id = v.Sel
	case *ast.IndexExpr: // generic instantiation f[T](…)
		switch w := v.X.(type) {
		case *ast.Ident:
			id = w
		case *ast.SelectorExpr:
			id = w.Sel
		}
	}
	if id == nil {
		return nil
	}
	if fn, ok := f.info.Uses[id].(*types.Func); ok {
		return fn
	}
	return nil
}

func (f *aliasFn) builtinName(c *ast.CallExpr) string {
	if id, ok := ast.Unparen(c.Fun).(*ast.Ident); ok {
		if _, ok := f.info.Uses[id].(*types.Builtin); ok {
			return id.Name
		}
	}
	return ""
}

func repoObj(o types.Object) bool {
	return o != nil && o.Pkg() != nil && strings.HasPrefix(o.Pkg().Path(), "github.com/innovationb1ue/RedisGO")
}

// class of result `idx` of a call
func (f *aliasFn) callClass(c *ast.CallExpr, idx int) acls {
	if tv, ok := f.info.Types[c.Fun]; ok && tv.IsType() {
		// conversion: []byte(string) copies, []byte(x) of a slice does not
		if len(c.Args) == 1 {
			if t := f.typeOf(c.Args[0]); t != nil {
				if b, ok := t.Underlying().(*types.Basic); ok && b.Info()&types.IsString != 0 {
					return aFresh
				}
			}
			return f.class(c.Args[0])
		}
		return aUnknown
	}
	switch f.builtinName(c) {
	case "make", "new", "len", "cap", "copy", "min", "max":
		return aFresh
	case "append":
		if len(c.Args) == 0 {
			return aFresh
		}
		cl := f.class(c.Args[0])
		if isByteSlice(f.typeOf(c.Args[0])) {
			return cl // the appended bytes are copied; the result may still be the first argument's array
		}
		for _, a := range c.Args[1:] {
			cl = ajoin(cl, f.class(a))
		}
		return cl
	case "":
	default:
		return aUnknown
	}
	callee := f.calleeOf(c)
	name := callName(c.Fun)
	if callee == nil {
		return aUnknown
	}
	if !repoObj(callee) {
		short := name
		if parts := strings.Split(name, "."); len(parts) > 2 {
			short = strings.Join(parts[len(parts)-2:], ".")
		}
		if freshStd[name] || freshStd[short] {
			return aFresh
		}
		if appendLike(name) && len(c.Args) > 0 {
			return f.class(c.Args[0])
		}
		return aUnknown
	}
	sum, ok := f.p.summary[callee]
	if !ok || idx >= len(sum) {
		if rv := callee.(*types.Func).Type().(*types.Signature).Recv(); rv != nil {
			if _, isIface := rv.Type().Underlying().(*types.Interface); isIface {
				return aUnknown
			}
		}
		if !ok {
			return aFresh // not yet summarised in this round of the fixpoint (least fixpoint from below)
		}
		return aUnknown
	}
	cl := sum[idx]
	if cl == aParam {
		// returns (part of) what it was given: as the arguments and the receiver
		cl = aFresh
		for _, a := range c.Args {
			cl = ajoin(cl, f.class(a))
		}
		if sel, ok := ast.Unparen(c.Fun).(*ast.SelectorExpr); ok {
			if _, isPkg := f.info.Uses[identOf(sel.X)].(*types.PkgName); !isPkg {
				cl = ajoin(cl, ajoin(aStored, f.class(sel.X))) // a method returning "its parameter" may return its receiver's fields
			}
		}
	}
	return cl
}

func identOf(e ast.Expr) *ast.Ident {
	id, _ := ast.Unparen(e).(*ast.Ident)
	return id
}

func (f *aliasFn) class(e ast.Expr) acls {
	e = ast.Unparen(e)
	if t := f.typeOf(e); t != nil && plainType(t) {
		return aFresh
	}
	switch v := e.(type) {
	case *ast.BasicLit, *ast.FuncLit:
		return aFresh
	case *ast.Ident:
		if v.Name == "nil" || v.Name == "_" {
			return aFresh
		}
		o := f.objOf(v)
		if o == nil {
			return aUnknown
		}
		if sw, ok := f.impl[o]; ok {
			return f.class(sw)
		}
		if f.params[o] {
			return ajoin(aParam, f.local[o])
		}
		if _, ok := o.(*types.Var); ok {
			if o.Parent() == f.pkg.Scope() || (o.Pkg() != nil && o.Parent() == o.Pkg().Scope()) {
				return aStored // package variable
			}
			return f.local[o]
		}
		return aFresh // constants, functions, types
	case *ast.CompositeLit:
		cl := aFresh
		for _, el := range v.Elts {
			if kv, ok := el.(*ast.KeyValueExpr); ok {
				el = kv.Value
			}
			cl = ajoin(cl, f.class(el))
		}
		return cl
	case *ast.SliceExpr:
		return f.class(v.X)
	case *ast.IndexExpr:
		if tv, ok := f.info.Types[v.X]; ok && tv.IsType() {
			return aFresh
		}
		if c := f.class(v.X); c != aFresh {
			return c // an element of a parameter is the caller's; of a stored container stored
		}
		return aFresh // element of a container that only ever received fresh slices
	case *ast.SelectorExpr:
		if id := identOf(v.X); id != nil {
			if _, ok := f.info.Uses[id].(*types.PkgName); ok {
				return aStored // another package's variable
			}
		}
		// a field: of a local struct VALUE built here it is what was put in; through anything else it is stored state
		if id := identOf(v.X); id != nil {
			if o := f.objOf(id); o != nil && !f.params[o] {
				if _, isPtr := o.Type().Underlying().(*types.Pointer); !isPtr {
					if _, isStruct := o.Type().Underlying().(*types.Struct); isStruct && o.Parent() != f.pkg.Scope() {
						return f.local[o]
					}
				}
			}
		}
		return aStored
	case *ast.StarExpr:
		return ajoin(aStored, f.class(v.X))
	case *ast.UnaryExpr:
		if v.Op == token.ARROW {
			return aUnknown
		}
		return f.class(v.X)
	case *ast.TypeAssertExpr:
		return f.class(v.X)
	case *ast.BinaryExpr:
		return aFresh
	case *ast.CallExpr:
		return f.callClass(v, 0)
	case *ast.KeyValueExpr:
		return f.class(v.Value)
	}
	return aUnknown
}

func (f *aliasFn) raise(o types.Object, c acls, why string) {
	if o == nil {
		return
	}
	if why != "" {
		have := false
		for _, w := range f.evid[o] {
			if w == why {
				have = true
			}
		}
		if !have && len(f.evid[o]) < 6 {
			f.evid[o] = append(f.evid[o], why)
		}
	}
	if c > f.local[o] {
		f.local[o] = c
		f.dirty = true
	}
}

func (f *aliasFn) text(n ast.Node) string {
	var b bytes.Buffer
	printer.Fprint(&b, f.p.fset, n)
	return strings.Join(strings.Fields(b.String()), " ")
}

// root local of an lvalue / operand: x, x[i], x[a:b], x.f (x a local struct value), (*x)
func (f *aliasFn) rootLocal(e ast.Expr) types.Object {
	for {
		e = ast.Unparen(e)
		switch v := e.(type) {
		case *ast.Ident:
			o := f.objOf(v)
			if _, ok := o.(*types.Var); ok && o.Parent() != f.pkg.Scope() {
				return o
			}
			return nil
		case *ast.IndexExpr:
			e = v.X
		case *ast.SliceExpr:
			e = v.X
		default:
			return nil
		}
	}
}

// one sweep over the body: raise the classes of locals from every assignment
func (f *aliasFn) sweep(body ast.Node) {
	ast.Inspect(body, func(n ast.Node) bool {
		switch v := n.(type) {
		case *ast.AssignStmt:
			if len(v.Lhs) == len(v.Rhs) {
				for i, l := range v.Lhs {
					f.assignTo(l, f.class(v.Rhs[i]), f.text(v.Rhs[i]))
				}
			} else if len(v.Rhs) == 1 {
				rhs := ast.Unparen(v.Rhs[0])
				for i, l := range v.Lhs {
					var c acls
					switch r := rhs.(type) {
					case *ast.CallExpr:
						c = f.callClass(r, i)
					case *ast.TypeAssertExpr, *ast.IndexExpr, *ast.UnaryExpr:
						if i == 0 {
							c = f.class(rhs)
						}
					default:
						c = aUnknown
					}
					f.assignTo(l, c, f.text(rhs))
				}
			}
		case *ast.ValueSpec:
			for i, id := range v.Names {
				if i < len(v.Values) {
					f.raise(f.info.Defs[id], f.class(v.Values[i]), f.text(v.Values[i]))
				} else if len(v.Values) == 1 {
					if c, ok := v.Values[0].(*ast.CallExpr); ok {
						f.raise(f.info.Defs[id], f.callClass(c, i), f.text(c))
					}
				}
			}
		case *ast.RangeStmt:
			c := f.class(v.X)
			if t := f.typeOf(v.X); t != nil {
				if _, isChan := t.Underlying().(*types.Chan); isChan {
					c = aUnknown
				}
			}
			if v.Key != nil {
				f.assignTo(v.Key, c, "range "+f.text(v.X))
			}
			if v.Value != nil {
				f.assignTo(v.Value, c, "range "+f.text(v.X))
			}
		case *ast.TypeSwitchStmt:
			var sw ast.Expr
			if as, ok := v.Assign.(*ast.AssignStmt); ok && len(as.Rhs) == 1 {
				if ta, ok := ast.Unparen(as.Rhs[0]).(*ast.TypeAssertExpr); ok {
					sw = ta.X
				}
			}
			if sw != nil {
				for _, cc := range v.Body.List {
					if o := f.info.Implicits[cc]; o != nil {
						f.impl[o] = sw
					}
				}
			}
		}
		return true
	})
}

func (f *aliasFn) assignTo(l ast.Expr, c acls, why string) {
	l = ast.Unparen(l)
	if id, ok := l.(*ast.Ident); ok {
		if id.Name == "_" {
			return
		}
		f.raise(f.objOf(id), c, why)
		return
	}
	// x[i] = v / x.f = v on a local container / struct value: the container now holds it
	if o := f.rootLocal(l); o != nil {
		f.raise(o, c, "")
		return
	}
	if sel, ok := l.(*ast.SelectorExpr); ok {
		if id := identOf(sel.X); id != nil {
			if o := f.objOf(id); o != nil {
				if _, isStruct := o.Type().Underlying().(*types.Struct); isStruct {
					f.raise(o, c, "")
				}
			}
		}
	}
}

func (f *aliasFn) evidence(e ast.Expr) string {
	if o := f.rootLocal(e); o != nil {
		if f.params[o] && len(f.evid[o]) == 0 {
			return "parameter " + o.Name()
		}
		s := strings.Join(f.evid[o], " | ")
		if len(s) > 160 {
			s = s[:160] + "…"
		}
		if s != "" {
			return o.Name() + " <- " + s
		}
	}
	return ""
}

// strip reslicing: the array written is the operand's
func stripSlices(e ast.Expr) (ast.Expr, bool) {
	resliced := false
	for {
		e = ast.Unparen(e)
		s, ok := e.(*ast.SliceExpr)
		if !ok {
			return e, resliced
		}
		resliced = true
		e = s.X
	}
}

func scanAlias(l *loader, x *xinfo) {
	p := &aliasPass{fset: l.fset, summary: map[types.Object][]acls{}}
	type unit struct {
		lp   *loadedPkg
		file string
		fd   *ast.FuncDecl
		skip bool
	}
	var units []unit
	for _, name := range sitePkgs {
		lp := l.cache["github.com/innovationb1ue/RedisGO/"+name]
		if lp == nil || lp.pkg == nil {
			continue
		}
		for i, file := range lp.files {
			for _, d := range file.Decls {
				if fd, ok := d.(*ast.FuncDecl); ok && fd.Body != nil {
					units = append(units, unit{lp, name + "/" + lp.names[i], fd, verifFile(lp.names[i], file)})
				}
			}
		}
	}
	mk := func(u unit) *aliasFn {
		f := &aliasFn{p: p, info: u.lp.info, pkg: u.lp.pkg, params: map[types.Object]bool{}, local: map[types.Object]acls{},
			impl: map[types.Object]ast.Expr{}, evid: map[types.Object][]string{}}
		fields := []*ast.FieldList{u.fd.Recv, u.fd.Type.Params}
		for _, fl := range fields {
			if fl == nil {
				continue
			}
			for _, fld := range fl.List {
				for _, id := range fld.Names {
					if o := u.lp.info.Defs[id]; o != nil {
						f.params[o] = true
					}
				}
			}
		}
		return f
	}
	solve := func(u unit) (*aliasFn, []acls) {
		f := mk(u)
		for round := 0; round < 12; round++ {
			f.dirty = false
			f.sweep(u.fd.Body)
			if !f.dirty {
				break
			}
		}
		nres := 0
		var named []types.Object
		if u.fd.Type.Results != nil {
			for _, fld := range u.fd.Type.Results.List {
				if len(fld.Names) == 0 {
					nres++
				}
				for _, id := range fld.Names {
					nres++
					named = append(named, u.lp.info.Defs[id])
				}
			}
		}
		res := make([]acls, nres)
		var walk func(n ast.Node)
		walk = func(n ast.Node) {
			ast.Inspect(n, func(m ast.Node) bool {
				switch r := m.(type) {
				case *ast.FuncLit:
					return false
				case *ast.ReturnStmt:
					if len(r.Results) == nres {
						for i, e := range r.Results {
							res[i] = ajoin(res[i], f.class(e))
						}
					} else if len(r.Results) == 1 && nres > 1 {
						if c, ok := ast.Unparen(r.Results[0]).(*ast.CallExpr); ok {
							for i := range res {
								res[i] = ajoin(res[i], f.callClass(c, i))
							}
						}
					} else if len(r.Results) == 0 {
						for i, o := range named {
							if i < nres && o != nil {
								res[i] = ajoin(res[i], f.local[o])
							}
						}
					}
				}
				return true
			})
		}
		walk(u.fd.Body)
		return f, res
	}
	// function summaries: least fixpoint from "everything fresh"
	for round := 0; round < 8; round++ {
		changed := false
		for _, u := range units {
			o := u.lp.info.Defs[u.fd.Name]
			if o == nil {
				continue
			}
			_, res := solve(u)
			old, had := p.summary[o]
			same := had && len(old) == len(res)
			if same {
				for i := range res {
					if old[i] != res[i] {
						same = false
					}
				}
			}
			if !same {
				p.summary[o] = res
				changed = true
			}
		}
		if !changed {
			break
		}
	}
	// the sites of memdb
	for _, u := range units {
		if u.skip || !strings.HasPrefix(u.file, "memdb/") {
			continue
		}
		f, _ := solve(u)
		fn := funcName(u.fd)
		add := func(n ast.Node, kind string, operand ast.Expr) {
			root, _ := stripSlices(operand)
			x.alias = append(x.alias, aliasSite{File: u.file, Func: fn, Line: l.fset.Position(n.Pos()).Line, Kind: kind, Text: f.text(n),
				Operand: f.text(root), Class: f.class(root).String(), Evidence: f.evidence(root)})
		}
		ast.Inspect(u.fd.Body, func(n ast.Node) bool {
			switch v := n.(type) {
			case *ast.AssignStmt:
				for i, lh := range v.Lhs {
					lh = ast.Unparen(lh)
					if ix, ok := lh.(*ast.IndexExpr); ok && isByteSlice(f.typeOf(ix.X)) {
						add(v, "index-assign", ix.X)
						continue
					}
					// install: a []byte assigned to something that is not a plain local
					if _, plain := lh.(*ast.Ident); plain || len(v.Lhs) != len(v.Rhs) {
						if plain {
							if o := f.objOf(lh.(*ast.Ident)); o == nil || o.Parent() != f.pkg.Scope() {
								continue
							}
						} else {
							continue
						}
					}
					if isByteSlice(f.typeOf(v.Rhs[i])) && f.rootLocal(lh) == nil {
						add(v, "install-assign", v.Rhs[i])
					}
				}
			case *ast.IncDecStmt:
				if ix, ok := ast.Unparen(v.X).(*ast.IndexExpr); ok && isByteSlice(f.typeOf(ix.X)) {
					add(v, "index-assign", ix.X)
				}
			case *ast.CallExpr:
				switch f.builtinName(v) {
				case "copy":
					if len(v.Args) == 2 && isByteSlice(f.typeOf(v.Args[0])) {
						add(v, "copy", v.Args[0])
					}
					return true
				case "append":
					if len(v.Args) >= 1 && isByteSlice(f.typeOf(v.Args[0])) {
						kind := "append"
						if _, res := stripSlices(v.Args[0]); res {
							kind = "append-reslice"
						}
						add(v, kind, v.Args[0])
					}
					return true
				case "":
				default:
					return true
				}
				if tv, ok := f.info.Types[v.Fun]; ok && tv.IsType() {
					return true
				}
				callee := f.calleeOf(v)
				name := callName(v.Fun)
				if callee != nil && !repoObj(callee) {
					if appendLike(name) && len(v.Args) > 0 && isByteSlice(f.typeOf(v.Args[0])) {
						add(v, "append-call", v.Args[0])
					} else if fillLike(name) {
						for _, a := range v.Args {
							if isByteSlice(f.typeOf(a)) {
								add(v, "fill", a)
							}
						}
					}
					return true
				}
				if callee != nil && repoObj(callee) && callee.Pkg().Name() != "resp" && callee.Pkg().Name() != "logger" {
					for _, a := range v.Args {
						if isByteSlice(f.typeOf(a)) {
							add(v, "install-call", a)
						}
					}
				}
			}
			return true
		})
	}
	sort.SliceStable(x.alias, func(i, j int) bool {
		if x.alias[i].File != x.alias[j].File {
			return x.alias[i].File < x.alias[j].File
		}
		return x.alias[i].Line < x.alias[j].Line
	})
}
