package main

import (
	"bytes"
	"context"
	"encoding/json"
	"fmt"
	"os"
	"sort"
	"strings"
	"sync"
	"time"

	"github.com/innovationb1ue/RedisGO/config"
	"github.com/innovationb1ue/RedisGO/server"
)

// pubsub-stall (C19): one of five subscribers of a channel stops reading for a while (a slow consumer, net.Pipe: the publisher's write to it
// blocks until it reads again) and then reads on.  Nothing is lost by that: every subscriber - the slow one and the four that kept reading -
// receives the message published meanwhile exactly once, PUBLISH reports five receivers, and the next message reaches all five again.
// The pause is 2.6 s (thorough tier: also 6.5 s and 11 s): whatever the publish path does about a slow consumer (deadlines, retries, dropping it)
// must not touch the subscribers that were reading all the time.  Added after the seeded change C19-publish-shared-deadline (one absolute
// write deadline for the whole PUBLISH: after the slow subscriber had used it up, every subscriber visited later failed at once and was
// pruned).
func pubsubStall(seed int64, want map[string]bool, enc *json.Encoder) {
	if !want["all"] && !want["pubsub"] {
		return
	}
	pauses := []time.Duration{2600 * time.Millisecond, 2600 * time.Millisecond}
	if os.Getenv("VERIF_TIER") == "thorough" {
		pauses = append(pauses, 2600*time.Millisecond, 6500*time.Millisecond, 11*time.Second)
	}
	// last round: the slow subscriber does not read on, it CLOSES after 400 ms: the blocked write fails, it is pruned, the other four are counted and served
	pauses = append(pauses, 400*time.Millisecond)
	for r, pause := range pauses {
		closes := r == len(pauses)-1
		alive, first := 5, 0
		rep := concReport{Scenario: "pubsub-stall", Seed: seed + int64(r), Goroutines: 7, Shards: 1024, Result: "ok"}
		config.Configures.ShardNum = 1024
		mgr := server.NewManager(config.Configures)
		ctx, cancel := context.WithCancel(context.Background())
		pub := newSconn(ctx, mgr)
		const nsub = 5
		// the observed history, in real-time order, for the Lean model's verdict (driver engine PSH, lean/RedisGoModel/Driver/PsSlow.lean):
		// sub:<i> confirmation read · stall:<i> / resume:<i> / close:<i> the client stops reading / reads again / closes · ps:<msg> PUBLISH written ·
		// pe:<msg>:<n> its reply :n read · holds:<i>:<msg>,... what subscriber i holds at the end, in order of arrival
		var hmu sync.Mutex
		var hist []string
		note := func(ev string) { hmu.Lock(); hist = append(hist, ev); hmu.Unlock() }
		var msgs []string
		subs := make([]*sconn, nsub)
		for i := range subs {
			subs[i] = newSconn(ctx, mgr)
			subs[i].c.Write(encCmd("SUBSCRIBE", "stall"))
			if st := subs[i].waitFor([]byte(":1\r\n"), 2*time.Second); st != "open" {
				rep.Result, rep.Detail = "invariant", fmt.Sprintf("subscriber %d got no acknowledgement (%s)", i, st)
			} else {
				note(fmt.Sprintf("sub:%d", i))
			}
			subs[i].take()
		}
		publish := func(msg string, wait time.Duration) (string, string) {
			pub.c.SetWriteDeadline(time.Now().Add(2 * time.Second))
			msgs = append(msgs, msg)
			note("ps:" + msg)
			pub.c.Write(encCmd("PUBLISH", "stall", msg))
			st := pub.waitFor([]byte("\r\n"), wait)
			reply := string(pub.take())
			var cnt int
			if _, err := fmt.Sscanf(reply, ":%d\r\n", &cnt); err == nil && st == "open" {
				note(fmt.Sprintf("pe:%s:%d", msg, cnt))
			}
			return reply, st
		}
		// what every subscriber holds, in order of arrival
		holdings := func() {
			for i, s := range subs {
				type at struct {
					pos int
					msg string
				}
				var found []at
				s.mu.Lock()
				b := append([]byte(nil), s.buf.Bytes()...)
				s.mu.Unlock()
				for _, m := range msgs {
					frame := []byte(fmt.Sprintf("$%d\r\n%s\r\n", len(m), m))
					for off := 0; ; {
						j := bytes.Index(b[off:], frame)
						if j < 0 {
							break
						}
						found = append(found, at{off + j, m})
						off += j + len(frame)
					}
				}
				sort.Slice(found, func(a, b int) bool { return found[a].pos < found[b].pos })
				names := make([]string, len(found))
				for k, f := range found {
					names[k] = f.msg
				}
				note(fmt.Sprintf("holds:%d:%s", i, strings.Join(names, ",")))
			}
		}
		// everyone holds exactly `n` copies of msg (checked after the stream went quiet)
		received := func(msg string, who string) string {
			frame := []byte(fmt.Sprintf("$%d\r\n%s\r\n", len(msg), msg))
			var bad []string
			for i, s := range subs {
				if i < first {
					continue
				}
				s.waitFor(frame, 1500*time.Millisecond)
				s.mu.Lock()
				n := bytes.Count(s.buf.Bytes(), frame)
				closed := s.closed
				s.mu.Unlock()
				if n != 1 || closed {
					role := "kept reading all the time"
					if i == 0 {
						role = "the one that paused"
					}
					bad = append(bad, fmt.Sprintf("subscriber %d (%s) holds %d copies of %q%s", i, role, n, msg, map[bool]string{true: ", its connection was closed by the server", false: ""}[closed]))
				}
			}
			if bad != nil {
				return who + ": " + strings.Join(bad, "; ")
			}
			return ""
		}
		step := func(msg string, wait time.Duration, who string) {
			if rep.Result != "ok" {
				return
			}
			reply, st := publish(msg, wait)
			if st != "open" || reply != fmt.Sprintf(":%d\r\n", alive) {
				rep.Result, rep.Detail = "invariant", fmt.Sprintf("%s: PUBLISH stall %s answered %q (%s); %d connections are subscribed and reachable", who, msg, reply, st, alive)
				return
			}
			if d := received(msg, who); d != "" {
				rep.Result, rep.Detail = "invariant", d
			}
			rep.Ops++
		}
		step("m0", 2*time.Second, "before the pause")
		if rep.Result == "ok" {
			subs[0].paused.Store(true) // its reader is already inside Read: it takes one more message, then stops
			step("primer", 2*time.Second, "the slow subscriber takes its last message")
			note("stall:0")
			if !closes {
				go func() { time.Sleep(pause); note("resume:0"); subs[0].paused.Store(false) }()
				step("m1", pause+4*time.Second, fmt.Sprintf("subscriber 0 did not read for %v while this was published, then read on", pause))
				step("m2", 2*time.Second, "after the pause (everyone reading)")
			} else {
				alive, first = nsub-1, 1
				go func() { time.Sleep(pause); note("close:0"); subs[0].c.Close(); subs[0].paused.Store(false) }()
				step("m1", pause+4*time.Second, fmt.Sprintf("subscriber 0 did not read for %v while this was published, then closed its connection", pause))
				step("m2", 2*time.Second, "after the slow subscriber closed")
			}
		}
		holdings()
		hmu.Lock()
		rep.Hist = strings.Join(hist, " ")
		hmu.Unlock()
		cancel()
		pub.c.Close()
		for _, s := range subs {
			s.c.Close()
		}
		enc.Encode(rep)
	}
}
