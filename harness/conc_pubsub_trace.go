package main

import (
	"fmt"
	"strings"
	"sync"
	"sync/atomic"
	"time"

	"github.com/innovationb1ue/RedisGO/memdb"
)

// Lock-trace tie for the Pub/Sub subscription table (C19, hook H2b).
//
// While a pubsub scenario runs, every goroutine's sequence of Pub/Sub lock events ("TL","TU","TRL","TRU" on the table lock,
// "CL","CU" on a channel object's lock), conns-map accesses ("cr","cw","cd") and accesses to the table itself ("get","set","del" on
// the ConcurrentMap ChanMap.item) is fed, as it happens, to the OPERATION AUTOMATON of the Lean model: psStep below is a transcription of
// PSC.TA.step (lean/RedisGoModel/Conc/PubSubTrace.lean; PSC.thread_trace_accepted proves that every thread of the model
// lean/RedisGoModel/Conc/PubSubConc.lean is accepted by it; the events are the labels of the model's steps, PSC.evOf). The small scenarios keep
// their whole traces, which the Lean automaton itself judges again through the compiled driver (engine PST):
//
//   Subscribe   s0 -TL-> s1 -get[,get,set]-> s2 -CL-> s3 -cr[,cw]-> s4 -CU-> s5 -TU-> idle
//   UnSubscribe u0 -TL-> u1 -get-> (absent: u5) u2 -CL-> u3 -cd-> u3d -[del]-> u4 -CU-> u5 -TU-> idle
//   Send        p0 -TRL-> p1 -get-> p2 -TRU-> (absent: idle) p3 -CL,cr-> p4 -cd*-> -CU-> idle
//
// So on EVERY run, whether or not a race fires: the table lock is taken before a channel lock and never while one is held, in the
// right mode, at most one channel lock is held, every access to the table and to a conns map happens under the lock that protects
// it (a conns write under the channel lock; a table write under the table WRITE lock; a table read under the table lock in either
// mode), all events of one operation concern one key and one channel object, and nothing is held when the goroutine is quiescent.
// These are the hypotheses under which PSC.lock_order / PSC.pubsub_deadlock_free / PSC.send_sees_consistent_set are proved.

type psState int

const (
	psIdle psState = iota
	psW1           // TL seen: holds the table write lock, before the lookup
	psW2           // lookup done
	psW2c          // Create's own Get seen (a Set must follow)
	psW3           // channel created (get,set seen)
	psW4           // both locks held, before the first conns access
	psWs           // Subscribe: conns scanned
	psWsw          // Subscribe: conns written
	psWu           // UnSubscribe: conns entry deleted
	psWud          // UnSubscribe: table entry deleted
	psW7           // channel lock released, table lock still held
	psR1           // TRL seen
	psR2           // lookup done under the read lock
	psR3           // TRU seen: holds nothing; either the Send is over (channel absent) or CL follows
	psP4           // Send holds the channel lock, before the iteration
	psP5           // Send iterating
)

var psNames = map[psState]string{psIdle: "idle", psW1: "table write lock held, before lookup", psW2: "table write lock held, lookup done",
	psW2c: "inside Create", psW3: "channel created", psW4: "table write lock and channel lock held", psWs: "Subscribe: conns scanned",
	psWsw: "Subscribe: conns written", psWu: "UnSubscribe: conns entry deleted", psWud: "UnSubscribe: table entry deleted",
	psW7: "channel lock released, table write lock held", psR1: "table read lock held, before lookup", psR2: "table read lock held, lookup done",
	psR3: "Send between its two critical sections (nothing held)", psP4: "Send: channel lock held", psP5: "Send: iterating conns"}

type psThread struct {
	mu   sync.Mutex // the owner goroutine steps, psEnd reads
	st   psState
	key  string
	ch   *memdb.Chan
	evs  []string      // the whole event sequence (kinds only), kept when the recording asks for it: shipped to the Lean automaton
	n    int           // events seen
	last [12][2]string // ring of the last few events (kind, key), for the report
}

func (t *psThread) lastEvents() string {
	out := ""
	for i := 0; i < len(t.last); i++ {
		e := t.last[(t.n+i)%len(t.last)]
		if e[0] != "" {
			out += " " + e[0] + "(" + e[1] + ")"
		}
	}
	return "[" + out + " ]"
}

// psStep is the automaton: returns "" or the reason the event is not a step of the model's operation automaton
func psStep(t *psThread, kind string, ch *memdb.Chan, key string) string {
	t.last[t.n%len(t.last)] = [2]string{kind, key}
	t.n++
	start := t.st == psIdle || t.st == psR3
	if start && (kind == "TL" || kind == "TRL") {
		t.key, t.ch = key, nil
		if kind == "TL" {
			t.st = psW1
		} else {
			t.st = psR1
		}
		return ""
	}
	if t.st != psIdle && key != t.key {
		return fmt.Sprintf("event %s concerns key %q inside an operation on key %q", kind, key, t.key)
	}
	isCh := kind == "CL" || kind == "CU" || kind == "cr" || kind == "cw" || kind == "cd"
	if isCh && ch == nil {
		return "channel event without a channel object"
	}
	if isCh && kind != "CL" && ch != t.ch {
		return fmt.Sprintf("%s on a channel object other than the one this operation locked", kind)
	}
	bad := func() string {
		return fmt.Sprintf("%s is not a step of the model's operation automaton in state %q", kind, psNames[t.st])
	}
	switch t.st {
	case psIdle:
		switch kind {
		case "CL":
			return "a channel lock is acquired with no table lookup before it (the table lock must be taken first)"
		case "get", "set", "del":
			return kind + " on the subscription table without the table lock"
		case "cr", "cw", "cd":
			return kind + " on a conns map without the channel lock"
		}
		return bad()
	case psW1:
		if kind == "get" {
			t.st = psW2
			return ""
		}
	case psW2:
		switch kind {
		case "TU":
			t.st = psIdle
			return ""
		case "get":
			t.st = psW2c
			return ""
		case "CL":
			t.ch, t.st = ch, psW4
			return ""
		}
	case psW2c:
		if kind == "set" {
			t.st = psW3
			return ""
		}
	case psW3:
		if kind == "CL" {
			t.ch, t.st = ch, psW4
			return ""
		}
	case psW4:
		switch kind {
		case "cr":
			t.st = psWs
			return ""
		case "cd":
			t.st = psWu
			return ""
		}
	case psWs:
		switch kind {
		case "cw":
			t.st = psWsw
			return ""
		case "CU":
			t.st = psW7
			return ""
		}
	case psWsw:
		if kind == "CU" {
			t.st = psW7
			return ""
		}
	case psWu:
		switch kind {
		case "del":
			t.st = psWud
			return ""
		case "CU":
			t.st = psW7
			return ""
		}
	case psWud:
		if kind == "CU" {
			t.st = psW7
			return ""
		}
	case psW7:
		if kind == "TU" {
			t.st = psIdle
			return ""
		}
	case psR1:
		if kind == "get" {
			t.st = psR2
			return ""
		}
		if kind == "set" || kind == "del" {
			return kind + " on the subscription table under the table READ lock"
		}
	case psR2:
		if kind == "TRU" {
			t.st = psR3
			return ""
		}
		if kind == "CL" {
			return "a channel lock is acquired while the table read lock is still held (Send's two critical sections must be separate)"
		}
		if kind == "set" || kind == "del" {
			return kind + " on the subscription table under the table READ lock"
		}
	case psR3:
		switch kind {
		case "CL":
			t.ch, t.st = ch, psP4
			return ""
		case "get", "set", "del":
			return kind + " on the subscription table without the table lock"
		case "cr", "cw", "cd":
			return kind + " on a conns map without the channel lock"
		}
	case psP4:
		if kind == "cr" {
			t.st = psP5
			return ""
		}
	case psP5:
		switch kind {
		case "cd":
			return ""
		case "CU":
			t.st = psIdle
			return ""
		case "TL", "TRL":
			return "the table lock is acquired while a channel lock is held (lock-order inversion: channel, then table)"
		}
	}
	if (kind == "TL" || kind == "TRL") && t.ch != nil && (t.st == psW4 || t.st == psWs || t.st == psWsw || t.st == psWu || t.st == psWud || t.st == psP4) {
		return "the table lock is acquired while a channel lock is held (lock-order inversion: channel, then table)"
	}
	return bad()
}

// one recording (a scenario round). Events of goroutines that belong to another manager's table (handlers of an earlier round still
// cleaning up) are ignored: every event carries its table.
type psRun struct {
	db      *memdb.MemDb
	keep    bool     // keep every goroutine's whole event sequence (small scenarios): judged a second time by PSC.TA.ok in the Lean driver
	threads sync.Map // goid -> *psThread
	bad     atomic.Value
	events  atomic.Int64
	// visited: the automaton states some goroutine has been in (the sequential path scenario must visit all of them: otherwise a
	// hook call has disappeared from a code path, or a code path the model knows is gone)
	visited [int(psP5) + 1]atomic.Bool
}

var (
	psOn  atomic.Bool
	psCur atomic.Pointer[psRun]
)

func psFeed(run *psRun, kind string, ch *memdb.Chan, key string) {
	g := goid()
	v, ok := run.threads.Load(g)
	if !ok {
		v, _ = run.threads.LoadOrStore(g, &psThread{})
	}
	t := v.(*psThread)
	run.events.Add(1)
	t.mu.Lock()
	if run.keep {
		t.evs = append(t.evs, kind)
	}
	why := psStep(t, kind, ch, key)
	st := t.st
	var last string
	if why != "" {
		last = t.lastEvents()
	}
	n := t.n
	t.mu.Unlock()
	run.visited[int(st)].Store(true)
	if why != "" && run.bad.Load() == nil {
		run.bad.Store(fmt.Sprintf("goroutine %d, event %d: %s; last events: %s", g, n, why, last))
	}
}

func psChanHook(kind string, m *memdb.ChanMap, ch *memdb.Chan, key string) {
	if !psOn.Load() {
		return
	}
	run := psCur.Load()
	if run == nil || m != run.db.SubChans {
		return
	}
	psFeed(run, kind, ch, key)
}

// psMapHook receives the ConcurrentMap events; only those of the observed subscription table are part of the trace
func psMapHook(kind string, cm *memdb.ConcurrentMap, key string) {
	if !psOn.Load() || cm == nil {
		return
	}
	run := psCur.Load()
	if run == nil || run.db.VerifMapName(cm) != "sub" {
		return
	}
	if kind == "setnx" || kind == "setx" {
		kind = "set"
	}
	psFeed(run, kind, nil, key)
}

// psBegin starts recording for one scenario round (db: the database whose SubChans table is observed)
func psBegin(db *memdb.MemDb, keep bool) {
	psCur.Store(&psRun{db: db, keep: keep})
	psOn.Store(true)
}

// psPause stops feeding the automaton. Only call it while no Pub/Sub operation is in flight (the heavy stress loops trace their
// first rounds only: the goroutine id behind every event costs microseconds, the per-operation event sequence does not vary).
func psPause() { psOn.Store(false) }

// psEnd stops recording; returns the number of events checked and the first violation ("" if none). Every goroutine must be
// quiescent (holding nothing) at the end; connection handlers that are still cleaning up get a moment to finish.
func psEnd() (int64, string) {
	run := psCur.Load()
	if run == nil {
		return 0, "no recording"
	}
	quiescent := func() string {
		out := ""
		run.threads.Range(func(k, v interface{}) bool {
			t := v.(*psThread)
			t.mu.Lock()
			if t.st != psIdle && t.st != psR3 {
				out = fmt.Sprintf("goroutine %d ended in state %q (a lock still held); last events: %s", k, psNames[t.st], t.lastEvents())
			}
			t.mu.Unlock()
			return out == ""
		})
		return out
	}
	why := quiescent()
	for i := 0; i < 100 && why != "" && run.bad.Load() == nil; i++ {
		time.Sleep(10 * time.Millisecond)
		why = quiescent()
	}
	psOn.Store(false)
	if b := run.bad.Load(); b != nil {
		return run.events.Load(), b.(string)
	}
	return run.events.Load(), why
}

// psTraces returns the kept event sequences, one string per goroutine
func psTraces() map[string]string {
	out := map[string]string{}
	run := psCur.Load()
	if run == nil || !run.keep {
		return out
	}
	run.threads.Range(func(k, v interface{}) bool {
		t := v.(*psThread)
		t.mu.Lock()
		if len(t.evs) > 0 {
			out[fmt.Sprint(k)] = strings.Join(t.evs, " ")
		}
		t.mu.Unlock()
		return true
	})
	return out
}

// psUnvisited lists the automaton states no goroutine has been in during the current recording
func psUnvisited() []string {
	var out []string
	run := psCur.Load()
	if run == nil {
		return []string{"(no recording)"}
	}
	for i := range run.visited {
		if !run.visited[i].Load() {
			out = append(out, psNames[psState(i)])
		}
	}
	return out
}

// psNegativeControl feeds the automaton hand-made traces that must be refused: the seeded lock-order inversion (channel lock, then
// table lock), a conns write with the channel lock dropped, a table write under the read lock, a channel lock taken inside Send's
// first critical section, and a trace that ends holding the table lock. Returns "" when all are refused and the good traces accepted.
func psNegativeControl() string {
	c1, c2 := &memdb.Chan{}, &memdb.Chan{}
	type ev struct {
		k  string
		ch *memdb.Chan
	}
	run := func(evs []ev) (string, psState) {
		t := &psThread{}
		for _, e := range evs {
			if why := psStep(t, e.k, e.ch, "k"); why != "" {
				return why, t.st
			}
		}
		return "", t.st
	}
	good := [][]ev{
		{{"TL", nil}, {"get", nil}, {"get", nil}, {"set", nil}, {"CL", c1}, {"cr", c1}, {"cw", c1}, {"CU", c1}, {"TU", nil}},
		{{"TL", nil}, {"get", nil}, {"CL", c1}, {"cr", c1}, {"CU", c1}, {"TU", nil}},
		{{"TL", nil}, {"get", nil}, {"TU", nil}},
		{{"TL", nil}, {"get", nil}, {"CL", c1}, {"cd", c1}, {"del", nil}, {"CU", c1}, {"TU", nil}},
		{{"TRL", nil}, {"get", nil}, {"TRU", nil}, {"TRL", nil}, {"get", nil}, {"TRU", nil}, {"CL", c1}, {"cr", c1}, {"cd", c1}, {"cd", c1}, {"CU", c1}},
	}
	for i, g := range good {
		if why, st := run(g); why != "" || (st != psIdle && st != psR3) {
			return fmt.Sprintf("negative control: conforming trace %d refused: %s", i, why)
		}
	}
	bad := map[string][]ev{
		"channel lock then table lock (the seeded release)": {{"TRL", nil}, {"get", nil}, {"TRU", nil}, {"CL", c1}, {"cr", c1}, {"CU", c1}, {"TRL", nil}, {"get", nil}, {"TRU", nil}, {"CL", c1}, {"TL", nil}},
		"inversion inside the delivery loop":                {{"TRL", nil}, {"get", nil}, {"TRU", nil}, {"CL", c1}, {"cr", c1}, {"TL", nil}},
		"conns write without the channel lock":              {{"TL", nil}, {"get", nil}, {"cr", c1}},
		"Send iterating without the channel lock":           {{"TRL", nil}, {"get", nil}, {"TRU", nil}, {"cr", c1}},
		"table write under the read lock":                   {{"TRL", nil}, {"get", nil}, {"del", nil}},
		"channel lock inside the read section":              {{"TRL", nil}, {"get", nil}, {"CL", c1}},
		"Subscribe under the table read lock":               {{"TRL", nil}, {"get", nil}, {"TRU", nil}, {"CL", c1}, {"cr", c1}, {"cw", c1}},
		"conns access on another channel object":            {{"TL", nil}, {"get", nil}, {"CL", c1}, {"cr", c2}},
		"table lookup without the table lock":               {{"get", nil}},
		"unlock order: table before channel":                {{"TL", nil}, {"get", nil}, {"CL", c1}, {"cr", c1}, {"TU", nil}},
	}
	for name, b := range bad {
		if why, _ := run(b); why == "" {
			return "negative control: the checker accepted a non-conforming trace: " + name
		}
	}
	if why, st := run([]ev{{"TL", nil}, {"get", nil}}); why != "" || st == psIdle || st == psR3 {
		return "negative control: a trace ending with the table lock held looks quiescent"
	}
	return ""
}
