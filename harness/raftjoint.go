package main

// Stage D, last step (tie of Raft/RSJ.lean): JOINT configuration changes through RawNode.
//
// A small reliable-network cluster of real raft.RawNodes (raftexample's Config) in which the leader is handed ConfChangeV2 proposals of
// every shape — one change with Transition=Auto (Simple), several changes (EnterJoint, automatic leave), JointImplicit / JointExplicit
// with 0..4 changes, the empty ConfChangeV2 (LeaveJoint), the legacy ConfChange — through RawNode.ProposeConfChange, or as one proposal
// message carrying several of them; often two or three before anything is applied.  What is written (judged line by line by
// lean/RaftDriver.lean against Raft/RSJ.lean):
//
//   JF id index desc | voters outgoing learners learnersNext autoLeave (before) | the same (after)
//        one conf-change entry handed to ApplyConfChange on one node: the tracker configuration moves as RSJ.applyCC (the fold step of RSJ.cfgAt);
//        desc = s:<change> (Changer.Simple) | e0:<changes> / e1:<changes> (EnterJoint without / with autoLeave) | l:- (LeaveJoint),
//        classified by cc.LeaveJoint() / cc.EnterJoint() as applyConfChange does
//   JG id applied pendBefore lastBefore joint descs kinds pendAfter
//        a proposal message stepped on the leader: per entry C (conf change with >= 1 changes), L (empty, Transition=Auto), E / I (empty,
//        JointExplicit / JointImplicit), N (normal entry); kinds = which of the appended entries are conf changes (1) or were replaced by
//        empty normal entries / are normal (0); pendingConfIndex before and after (reflection) = RSJ.gateSeq
//   JA id leader autoLeaveFlag oldApplied newApplied pendBefore appended pendAfter lastBefore
//        one Advance(): the leader appended the empty ConfChangeV2 itself ("initiating automatic transition out of joint configuration") iff
//        AutoLeave && oldApplied <= pendingConfIndex <= newApplied && leader; then the model's autoLeave step is enabled and the gate would
//        have accepted the entry
//   JH id role | voters outgoing learners learnersNext autoLeave | flags campaigned
//        Campaign() on a node: it campaigns iff RSJ.campaignGate (not leader, promotable: has a Progress and is not a learner — in a joint
//        configuration also a voter of the outgoing half only —, no conf change in (applied, committed])
//   JP al | voters outgoing learners learnersNext autoLeave | gatePassed panicked
//        the probe for RSJ.enter_empty_passes_gate_and_is_refused_by_changer: while joint, ConfChangeV2{JointExplicit|JointImplicit, no changes}
//        is proposed; gatePassed = it was appended as a conf change; panicked = ApplyConfChange panicked on the leader ("config is already joint")
//   JX ...   an unexpected panic / error (the driver reports it)

import (
	"bufio"
	"fmt"
	"math/rand"
	"strconv"
	"strings"

	"go.etcd.io/etcd/raft/v3"
	pb "go.etcd.io/etcd/raft/v3/raftpb"
)

type jNode struct {
	id      uint64
	ms      *raft.MemoryStorage
	rn      *raft.RawNode
	applied uint64
	dead    bool // ApplyConfChange panicked on this node (probe)
}

type jSim struct {
	w     *bufio.Writer
	rng   *rand.Rand
	nodes []*jNode // ids 1..7, all started from the same ConfState
	queue []pb.Message
	bad   bool
}

const jUniverse = 7

// Status().Config is a Clone(), which does not copy AutoLeave: the flag is read from the tracker itself
func jAutoLeave(rn *raft.RawNode) bool { return raftField(rn, "prs", "Config", "AutoLeave").Bool() }

func jCfg(rn *raft.RawNode) string {
	c := rn.Status().Config
	return fmt.Sprintf("%s %s %s %s %s", fmtIDSet(c.Voters[0]), fmtIDSet(c.Voters[1]), fmtIDSet(c.Learners), fmtIDSet(c.LearnersNext), b01(jAutoLeave(rn)))
}

func jChanges(ccs []pb.ConfChangeSingle) string {
	if len(ccs) == 0 {
		return "-"
	}
	var txt []string
	for _, c := range ccs {
		l, ok := ccLetters[c.Type]
		if !ok {
			l = "x"
		}
		txt = append(txt, l+strconv.FormatUint(c.NodeID, 10))
	}
	return strings.Join(txt, ",")
}

// the descriptor of a conf change as applyConfChange classifies it
func jDesc(cc pb.ConfChangeV2) string {
	if cc.LeaveJoint() {
		return "l:-"
	}
	if al, ok := cc.EnterJoint(); ok {
		return "e" + b01(al) + ":" + jChanges(cc.Changes)
	}
	return "s:" + jChanges(cc.Changes)
}

func newJSim(w *bufio.Writer, rng *rand.Rand, n int) *jSim {
	s := &jSim{w: w, rng: rng}
	var voters []uint64
	for i := 1; i <= n; i++ {
		voters = append(voters, uint64(i))
	}
	for i := 1; i <= jUniverse; i++ {
		ms := raft.NewMemoryStorage()
		if err := ms.ApplySnapshot(pb.Snapshot{Metadata: pb.SnapshotMetadata{Index: 1, Term: 0, ConfState: pb.ConfState{Voters: voters}}}); err != nil {
			panic(err)
		}
		c := &raft.Config{ID: uint64(i), ElectionTick: 10, HeartbeatTick: 1, Storage: ms, MaxSizePerMsg: 1024 * 1024, MaxInflightMsgs: 256,
			MaxUncommittedEntriesSize: 1 << 30, Logger: discardLogger()}
		rn, err := raft.NewRawNode(c)
		if err != nil {
			panic(err)
		}
		s.nodes = append(s.nodes, &jNode{id: uint64(i), ms: ms, rn: rn, applied: 1})
	}
	return s
}

func (s *jSim) node(id uint64) *jNode { return s.nodes[id-1] }

func (s *jSim) leader() *jNode {
	var best *jNode
	for _, nd := range s.nodes {
		if nd.dead {
			continue
		}
		bs := nd.rn.BasicStatus()
		if bs.RaftState == raft.StateLeader && (best == nil || bs.Term > best.rn.BasicStatus().Term) {
			best = nd
		}
	}
	return best
}

func (nd *jNode) lastIndex() uint64 {
	u := raftField(nd.rn, "raftLog", "unstable")
	if ents := u.FieldByName("entries"); ents.Len() > 0 {
		return u.FieldByName("offset").Uint() + uint64(ents.Len()) - 1
	}
	li, _ := nd.ms.LastIndex()
	return li
}

// the type of the entry at idx (unstable part first)
func (nd *jNode) typeAt(idx uint64) pb.EntryType {
	u := raftField(nd.rn, "raftLog", "unstable")
	ents, off := u.FieldByName("entries"), u.FieldByName("offset").Uint()
	if ents.Len() > 0 && idx >= off && idx < off+uint64(ents.Len()) {
		return pb.EntryType(ents.Index(int(idx - off)).FieldByName("Type").Int())
	}
	es, err := nd.ms.Entries(idx, idx+1, 1<<30)
	if err != nil || len(es) != 1 {
		return pb.EntryNormal
	}
	return es[0].Type
}

// one Ready cycle of one node: persist, apply (JF lines), Advance (JA line), collect the messages
func (s *jSim) cycle(nd *jNode) {
	rd := nd.rn.Ready()
	if !raft.IsEmptyHardState(rd.HardState) {
		_ = nd.ms.SetHardState(rd.HardState)
	}
	if len(rd.Entries) > 0 {
		if err := nd.ms.Append(rd.Entries); err != nil {
			fmt.Fprintf(s.w, "JX append %d %v\n", nd.id, err)
			s.bad = true
		}
	}
	if !raft.IsEmptySnap(rd.Snapshot) {
		fmt.Fprintf(s.w, "JX snapshot %d\n", nd.id) // nothing compacts here
		s.bad = true
	}
	s.queue = append(s.queue, rd.Messages...)
	for _, e := range rd.CommittedEntries {
		var cc pb.ConfChangeV2
		switch e.Type {
		case pb.EntryConfChange:
			var c1 pb.ConfChange
			if err := c1.Unmarshal(e.Data); err != nil {
				panic(err)
			}
			cc = c1.AsV2()
		case pb.EntryConfChangeV2:
			if err := cc.Unmarshal(e.Data); err != nil {
				panic(err)
			}
		default:
			nd.applied = e.Index
			continue
		}
		before := jCfg(nd.rn)
		pan := func() (p interface{}) {
			defer func() { p = recover() }()
			nd.rn.ApplyConfChange(cc)
			return nil
		}()
		if pan != nil {
			nd.dead = true
			fmt.Fprintf(s.w, "# panic %d %d %s %v\n", nd.id, e.Index, jDesc(cc), pan)
			return
		}
		fmt.Fprintf(s.w, "JF %d %d %s %s %s\n", nd.id, e.Index, jDesc(cc), before, jCfg(nd.rn))
		nd.applied = e.Index
	}
	bs := nd.rn.BasicStatus()
	oldApplied, pend, last := bs.Applied, pendingConfIndexOf(nd.rn), nd.lastIndex()
	al := jAutoLeave(nd.rn)
	nd.rn.Advance(rd)
	if len(rd.CommittedEntries) > 0 {
		newApplied := nd.rn.BasicStatus().Applied
		appended := nd.lastIndex() > last
		if appended && (nd.lastIndex() != last+1 || nd.typeAt(last+1) != pb.EntryConfChangeV2) {
			fmt.Fprintf(s.w, "JX advance-appended %d %d %d\n", nd.id, last, nd.lastIndex())
			s.bad = true
		}
		fmt.Fprintf(s.w, "JA %d %s %s %d %d %d %s %d %d\n", nd.id, b01(bs.RaftState == raft.StateLeader), b01(al), oldApplied, newApplied, pend,
			b01(appended), pendingConfIndexOf(nd.rn), last)
	}
}

// run every node's Ready cycles and deliver every message until nothing moves
func (s *jSim) pump() {
	for round := 0; round < 400; round++ {
		moved := false
		for _, nd := range s.nodes {
			for !nd.dead && nd.rn.HasReady() {
				s.cycle(nd)
				moved = true
			}
		}
		q := s.queue
		s.queue = nil
		for _, m := range q {
			if m.To == 0 || m.To > jUniverse || s.node(m.To).dead {
				continue
			}
			_ = s.node(m.To).rn.Step(m)
			moved = true
		}
		if !moved {
			return
		}
	}
	fmt.Fprintf(s.w, "JX pump-does-not-settle\n")
	s.bad = true
}

func (s *jSim) randomV2(ld *jNode) pb.ConfChangeV2 {
	keep := map[uint64]bool{1: true, ld.id: true} // never removed or demoted: the proposals keep a leader with a Progress and a voter
	one := func() pb.ConfChangeSingle {
		for {
			id := uint64(1 + s.rng.Intn(jUniverse))
			var t pb.ConfChangeType
			switch x := s.rng.Intn(100); {
			case x < 40:
				t = pb.ConfChangeAddNode
			case x < 60:
				t = pb.ConfChangeAddLearnerNode
			case x < 92:
				t = pb.ConfChangeRemoveNode
			default:
				t = pb.ConfChangeUpdateNode
			}
			if keep[id] && (t == pb.ConfChangeRemoveNode || t == pb.ConfChangeAddLearnerNode) {
				continue
			}
			return pb.ConfChangeSingle{Type: t, NodeID: id}
		}
	}
	many := func(n int) []pb.ConfChangeSingle {
		var out []pb.ConfChangeSingle
		for k := 0; k < n; k++ {
			out = append(out, one())
		}
		return out
	}
	joint := len(ld.rn.Status().Config.Voters[1]) > 0
	switch x := s.rng.Intn(100); {
	case x < 22:
		return pb.ConfChangeV2{Transition: pb.ConfChangeTransitionAuto, Changes: many(1)}
	case x < 44:
		return pb.ConfChangeV2{Transition: pb.ConfChangeTransitionAuto, Changes: many(2 + s.rng.Intn(3))}
	case x < 58:
		return pb.ConfChangeV2{Transition: pb.ConfChangeTransitionJointImplicit, Changes: many(1 + s.rng.Intn(3))}
	case x < 74:
		return pb.ConfChangeV2{Transition: pb.ConfChangeTransitionJointExplicit, Changes: many(1 + s.rng.Intn(4))}
	case x < 94 || joint:
		return pb.ConfChangeV2{} // LeaveJoint
	case x < 97:
		// an EnterJoint request without changes: refused by the gate while not joint ("wants to leave"); while joint it would pass — see probe()
		return pb.ConfChangeV2{Transition: pb.ConfChangeTransitionJointExplicit}
	default:
		return pb.ConfChangeV2{Transition: pb.ConfChangeTransitionJointImplicit}
	}
}

func jLetter(e pb.Entry) byte {
	switch e.Type {
	case pb.EntryConfChange:
		return 'C'
	case pb.EntryConfChangeV2:
		var cc pb.ConfChangeV2
		if err := cc.Unmarshal(e.Data); err != nil {
			panic(err)
		}
		if len(cc.Changes) > 0 {
			return 'C'
		}
		switch cc.Transition {
		case pb.ConfChangeTransitionJointExplicit:
			return 'E'
		case pb.ConfChangeTransitionJointImplicit:
			return 'I'
		}
		return 'L'
	}
	return 'N'
}

// step one proposal on the leader and write what the gate did with it
func (s *jSim) propose(ld *jNode, ents []pb.Entry, viaAPI *pb.ConfChangeV2, legacy *pb.ConfChange) bool {
	bs := ld.rn.BasicStatus()
	pend, last := pendingConfIndexOf(ld.rn), ld.lastIndex()
	joint := len(ld.rn.Status().Config.Voters[1]) > 0
	var descs []byte
	for _, e := range ents {
		descs = append(descs, jLetter(e))
	}
	var err error
	switch {
	case viaAPI != nil:
		err = ld.rn.ProposeConfChange(*viaAPI)
	case legacy != nil:
		err = ld.rn.ProposeConfChange(*legacy)
	default:
		err = ld.rn.Step(pb.Message{Type: pb.MsgProp, From: ld.id, Entries: ents})
	}
	if err != nil {
		fmt.Fprintf(s.w, "# proposal dropped %d %v\n", ld.id, err)
		return false
	}
	var kinds strings.Builder
	for idx := last + 1; idx <= ld.lastIndex(); idx++ {
		if ld.typeAt(idx) != pb.EntryNormal {
			kinds.WriteByte('1')
		} else {
			kinds.WriteByte('0')
		}
	}
	fmt.Fprintf(s.w, "JG %d %d %d %d %s %s %s %d\n", ld.id, bs.Applied, pend, last, b01(joint), string(descs), kinds.String(), pendingConfIndexOf(ld.rn))
	return true
}

func v2Entry(cc pb.ConfChangeV2) pb.Entry {
	d, err := cc.Marshal()
	if err != nil {
		panic(err)
	}
	return pb.Entry{Type: pb.EntryConfChangeV2, Data: d}
}

func (s *jSim) campaign(nd *jNode) {
	bs := nd.rn.BasicStatus()
	role := 0
	switch bs.RaftState {
	case raft.StateCandidate, raft.StatePreCandidate:
		role = 1
	case raft.StateLeader:
		role = 2
	}
	var flags strings.Builder
	if bs.Commit > bs.Applied {
		es, err := nd.ms.Entries(bs.Applied+1, bs.Commit+1, 1<<30)
		if err == nil {
			for _, e := range es {
				flags.WriteString(b01(e.Type != pb.EntryNormal))
			}
		}
	}
	f := flags.String()
	if f == "" {
		f = "-"
	}
	cfg := jCfg(nd.rn)
	term := bs.Term
	_ = nd.rn.Campaign()
	after := nd.rn.BasicStatus()
	camp := after.Term > term
	fmt.Fprintf(s.w, "JH %d %d %s %s %s\n", nd.id, role, cfg, f, b01(camp))
}

// while joint (explicit, so that nothing leaves it on its own): an EnterJoint request without changes passes the gate and panics at apply
func (s *jSim) probe(al bool) {
	ld := s.leader()
	if ld == nil {
		return
	}
	if len(ld.rn.Status().Config.Voters[1]) == 0 {
		cc := pb.ConfChangeV2{Transition: pb.ConfChangeTransitionJointExplicit, Changes: []pb.ConfChangeSingle{{Type: pb.ConfChangeAddNode, NodeID: 6}, {Type: pb.ConfChangeAddLearnerNode, NodeID: 7}}}
		if !s.propose(ld, []pb.Entry{v2Entry(cc)}, &cc, nil) {
			return
		}
		s.pump()
	}
	if len(ld.rn.Status().Config.Voters[1]) == 0 || pendingConfIndexOf(ld.rn) > ld.rn.BasicStatus().Applied {
		return
	}
	before := jCfg(ld.rn)
	tr := pb.ConfChangeTransitionJointExplicit
	if al {
		tr = pb.ConfChangeTransitionJointImplicit
	}
	cc := pb.ConfChangeV2{Transition: tr}
	last := ld.lastIndex()
	if !s.propose(ld, []pb.Entry{v2Entry(cc)}, &cc, nil) {
		return
	}
	passed := ld.lastIndex() == last+1 && ld.typeAt(last+1) == pb.EntryConfChangeV2
	s.pump()
	fmt.Fprintf(s.w, "JP %s %s %s %s\n", b01(al), before, b01(passed), b01(ld.dead))
}

func (s *jSim) scenario(ops int) {
	first := s.node(uint64(1 + s.rng.Intn(3)))
	s.campaign(first)
	s.pump()
	for k := 0; k < ops && !s.bad; k++ {
		ld := s.leader()
		if ld == nil {
			return
		}
		switch x := s.rng.Intn(100); {
		case x < 55:
			// one to three proposals before anything is applied (the second and third meet "possible unapplied conf change")
			for r := 1 + s.rng.Intn(3); r > 0; r-- {
				cc := s.randomV2(ld)
				if len(cc.Changes) == 1 && cc.Transition == pb.ConfChangeTransitionAuto && s.rng.Intn(3) == 0 {
					c1 := pb.ConfChange{Type: cc.Changes[0].Type, NodeID: cc.Changes[0].NodeID}
					d, _ := c1.Marshal()
					s.propose(ld, []pb.Entry{{Type: pb.EntryConfChange, Data: d}}, nil, &c1)
				} else {
					s.propose(ld, []pb.Entry{v2Entry(cc)}, &cc, nil)
				}
				if s.rng.Intn(2) == 0 {
					break
				}
			}
			s.pump()
		case x < 70:
			// one proposal message with several entries
			var ents []pb.Entry
			for r := 2 + s.rng.Intn(3); r > 0; r-- {
				if s.rng.Intn(4) == 0 {
					ents = append(ents, pb.Entry{Type: pb.EntryNormal, Data: []byte("x")})
				} else {
					ents = append(ents, v2Entry(s.randomV2(ld)))
				}
			}
			s.propose(ld, ents, nil, nil)
			s.pump()
		case x < 80:
			_ = ld.rn.Propose([]byte("n"))
			s.pump()
		case x < 92:
			// somebody campaigns (any id: voters of either half, learners, staged learners, outsiders); a voter that wins becomes the leader
			s.campaign(s.node(uint64(1 + s.rng.Intn(jUniverse))))
			s.pump()
		default:
			ld.rn.Tick()
			s.pump()
		}
	}
}

func stageJ(w *bufio.Writer, rng *rand.Rand, cases int) {
	for k := 0; k < cases; k++ {
		n := 3
		if k%2 == 1 {
			n = 5
		}
		s := newJSim(w, rand.New(rand.NewSource(rng.Int63())), n)
		fmt.Fprintf(w, "# J %d %d\n", k, n)
		s.scenario(14)
		if k%5 == 0 && !s.bad {
			s.probe(k%10 == 0)
		}
	}
}
