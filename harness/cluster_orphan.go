package main

import (
	"context"
	"fmt"
	"path/filepath"

	"github.com/innovationb1ue/RedisGO/config"
	"github.com/innovationb1ue/RedisGO/memdb"
	"go.etcd.io/etcd/raft/v3/raftpb"
	"go.etcd.io/etcd/server/v3/etcdserver/api/snap"
	"go.etcd.io/etcd/server/v3/storage/wal"
	"go.etcd.io/etcd/server/v3/storage/wal/walpb"
	"go.uber.org/zap"
)

// plantOrphanSnapshot leaves in a (stopped) node's snapshot directory what a crash between snapshotter.SaveSnap and wal.SaveSnapshot leaves: a
// complete, checksummed snapshot FILE that the WAL does not know about, newer than every snapshot the WAL records.  raft ignores such a file (the
// log is replayed from the newest snapshot the WAL vouches for); the state machine must start from that same snapshot - a node that loads the
// newest FILE instead applies the entries in between twice, or, as here, starts from a keyspace that was never the node's.  The orphan's image is a
// keyspace holding only the marker key, so the effect is unmistakable: the marker must not exist anywhere after the restart.
// (Seeded change C08-startup-snapshot-from-snapshotter.)
func plantOrphanSnapshot(n *clNode) (string, error) {
	waldir := filepath.Join(n.dir, fmt.Sprintf("raftexample-%d", n.id))
	snapdir := filepath.Join(n.dir, fmt.Sprintf("raftexample-%d-snap", n.id))
	walSnaps, err := wal.ValidSnapshotEntries(zap.NewNop(), waldir)
	if err != nil {
		return "", fmt.Errorf("ValidSnapshotEntries: %v", err)
	}
	var newest walpb.Snapshot
	for _, s := range walSnaps {
		if s.Index >= newest.Index {
			newest = s
		}
	}
	if newest.Index == 0 || newest.ConfState == nil {
		return "", fmt.Errorf("the node has no snapshot yet")
	}
	if config.Configures == nil || config.Configures.ShardNum == 0 {
		setupLogger()
	}
	db := memdb.NewMemDb()
	db.ExecCommand(context.Background(), [][]byte{[]byte("SET"), []byte("orphan-marker"), []byte("from-a-snapshot-file-the-wal-never-recorded")}, nil)
	img, err := db.GetSnapshot()
	if err != nil {
		return "", err
	}
	idx := newest.Index + 7
	orphan := raftpb.Snapshot{Data: img, Metadata: raftpb.SnapshotMetadata{Index: idx, Term: newest.Term, ConfState: *newest.ConfState}}
	if err := snap.New(zap.NewNop(), snapdir).SaveSnap(orphan); err != nil {
		return "", err
	}
	return fmt.Sprintf("orphan snapshot file at index %d (newest recorded in the WAL: %d) planted in node %d", idx, newest.Index, n.id), nil
}
