package main

import (
	"bufio"
	"bytes"
	"context"
	"fmt"
	"io"
	"net"
	"os"
	"strconv"
	"strings"
	"sync"
	"sync/atomic"
	"time"

	"github.com/innovationb1ue/RedisGO/config"
	"github.com/innovationb1ue/RedisGO/server"
)

// one client connection to Manager.Handle over net.Pipe, with a reader goroutine collecting everything the server writes
type sconn struct {
	paused atomic.Bool // the client stops reading (a slow consumer): the reader goroutine waits
	c      net.Conn
	mu     sync.Mutex
	buf    bytes.Buffer
	closed bool
	cancel context.CancelFunc
	notify chan struct{}
}

// all connections of one manager share one context, as in server.Start (it is cancelled only at shutdown)
func newSconn(ctx context.Context, mgr *server.Manager) *sconn {
	cli, srv := net.Pipe()
	s := &sconn{c: cli, cancel: func() {}, notify: make(chan struct{}, 1)}
	go func() {
		defer func() { recover() }()
		mgr.Handle(ctx, srv)
	}()
	go func() {
		tmp := make([]byte, 65536)
		for {
			for s.paused.Load() {
				time.Sleep(5 * time.Millisecond)
			}
			n, err := cli.Read(tmp)
			s.mu.Lock()
			s.buf.Write(tmp[:n])
			if err != nil {
				s.closed = true
			}
			s.mu.Unlock()
			select {
			case s.notify <- struct{}{}:
			default:
			}
			if err != nil {
				return
			}
		}
	}()
	return s
}

// waitFor blocks until the collected bytes end with `suffix`, the connection is closed, or the timeout expires.
func (s *sconn) waitFor(suffix []byte, d time.Duration) string {
	deadline := time.After(d)
	for {
		s.mu.Lock()
		done := bytes.HasSuffix(s.buf.Bytes(), suffix)
		closed := s.closed
		s.mu.Unlock()
		if done {
			return "open"
		}
		if closed {
			return "closed"
		}
		select {
		case <-s.notify:
		case <-time.After(20 * time.Millisecond):
		case <-deadline:
			return "timeout"
		}
	}
}

func (s *sconn) take() []byte {
	s.mu.Lock()
	defer s.mu.Unlock()
	b := append([]byte(nil), s.buf.Bytes()...)
	s.buf.Reset()
	return b
}

// runServe:
//
//	S <dbs>            fresh server.Manager with <dbs> databases
//	C <id> <hex>       write the bytes on connection <id> (opened on first use) followed by a sentinel PING, collect everything
//	                   the server wrote up to the sentinel's reply:  => <bytes-hex> <open|closed|timeout>
//	D <id>             drain: what connection <id> has received since (Pub/Sub pushes):  => <bytes-hex> <open|closed>
//	K <id>             client closes connection <id>
func runServe(args []string) {
	in := bufio.NewScanner(os.Stdin)
	in.Buffer(make([]byte, 1<<20), 1<<28)
	out := bufio.NewWriter(os.Stdout)
	var mgr *server.Manager
	conns := map[string]*sconn{}
	seq := 0 // sentinel number: counts C lines since the last S (the driver counts the same way)
	ctx, cancelAll := context.WithCancel(context.Background())
	closeAll := func() {
		cancelAll()
		for _, c := range conns {
			c.c.Close()
		}
		conns = map[string]*sconn{}
		ctx, cancelAll = context.WithCancel(context.Background())
	}
	for in.Scan() {
		line := in.Text()
		f := strings.Fields(line)
		if len(f) == 0 {
			continue
		}
		switch f[0] {
		case "S":
			closeAll()
			dbs := 16
			if len(f) > 1 {
				dbs, _ = strconv.Atoi(f[1])
			}
			config.Configures.Databases = dbs
			mgr = server.NewManager(config.Configures)
			seq = 0
			fmt.Fprintf(out, "%s\n", line)
		case "C":
			c, ok := conns[f[1]]
			if !ok {
				c = newSconn(ctx, mgr)
				conns[f[1]] = c
			}
			seq++
			token := fmt.Sprintf("verif-sentinel-%d", seq)
			payload := append(unhex(f[2]), []byte(fmt.Sprintf("*2\r\n$4\r\nPING\r\n$%d\r\n%s\r\n", len(token), token))...)
			t0 := time.Now().Unix()
			go func() {
				c.c.SetWriteDeadline(time.Now().Add(3 * time.Second))
				c.c.Write(payload)
			}()
			suffix := []byte(fmt.Sprintf("$%d\r\n%s\r\n", len(token), token))
			st := c.waitFor(suffix, 1500*time.Millisecond)
			t1 := time.Now().Unix()
			got := c.take()
			if st == "open" {
				got = got[:len(got)-len(suffix)]
			}
			if st == "timeout" {
				// the sentinel was swallowed by an unfinished frame: the harness gives up on this connection
				c.cancel()
				c.c.Close()
			}
			fmt.Fprintf(out, "%s => %d %d %s %s\n", line, t0, t1, hx(got), st)
		case "HC":
			// HC <id> <hex>: a pipeline on a fresh loopback TCP connection (net.Pipe cannot half-close) whose sending side is closed right after the
			// last byte, before any reply has been read; the client then reads to the end of the stream.  Reported like a C step.
			ln, err := net.Listen("tcp", "127.0.0.1:0")
			if err != nil {
				panic(err)
			}
			go func() {
				srvc, err := ln.Accept()
				ln.Close()
				if err != nil {
					return
				}
				defer func() { recover() }()
				mgr.Handle(ctx, srvc)
			}()
			cc, err := net.Dial("tcp", ln.Addr().String())
			if err != nil {
				panic(err)
			}
			seq++
			token := fmt.Sprintf("verif-sentinel-%d", seq)
			payload := append(unhex(f[2]), []byte(fmt.Sprintf("*2\r\n$4\r\nPING\r\n$%d\r\n%s\r\n", len(token), token))...)
			t0 := time.Now().Unix()
			cc.SetDeadline(time.Now().Add(4 * time.Second))
			cc.Write(payload)
			cc.(*net.TCPConn).CloseWrite()
			got, rerr := io.ReadAll(cc)
			cc.Close()
			t1 := time.Now().Unix()
			suffix := []byte(fmt.Sprintf("$%d\r\n%s\r\n", len(token), token))
			st := "closed"
			if bytes.HasSuffix(got, suffix) {
				st = "open"
				got = got[:len(got)-len(suffix)]
			} else if rerr != nil {
				st = "timeout"
			}
			fmt.Fprintf(out, "%s => %d %d %s %s\n", line, t0, t1, hx(got), st)
		case "PAR":
			// PAR <id>:<hex> ... — the payloads are written at the same moment, one goroutine per connection (the generator keeps
			// their key sets disjoint, so every serial order has the same replies); echoed, then reported as one C line each
			type par struct {
				id, hexp string
				c        *sconn
				suffix   []byte
				payload  []byte
				t0, t1   int64
				got      []byte
				st       string
			}
			var ps []*par
			for _, it := range f[1:] {
				kv := strings.SplitN(it, ":", 2)
				if len(kv) != 2 {
					continue
				}
				c, ok := conns[kv[0]]
				if !ok {
					c = newSconn(ctx, mgr)
					conns[kv[0]] = c
				}
				seq++
				token := fmt.Sprintf("verif-sentinel-%d", seq)
				ps = append(ps, &par{id: kv[0], hexp: kv[1], c: c,
					payload: append(unhex(kv[1]), []byte(fmt.Sprintf("*2\r\n$4\r\nPING\r\n$%d\r\n%s\r\n", len(token), token))...),
					suffix:  []byte(fmt.Sprintf("$%d\r\n%s\r\n", len(token), token))})
			}
			var wg sync.WaitGroup
			start := make(chan struct{})
			for _, p := range ps {
				wg.Add(1)
				go func(p *par) {
					defer wg.Done()
					<-start
					p.t0 = time.Now().Unix()
					go func() {
						p.c.c.SetWriteDeadline(time.Now().Add(8 * time.Second))
						p.c.c.Write(p.payload)
					}()
					p.st = p.c.waitFor(p.suffix, 8*time.Second)
					p.t1 = time.Now().Unix()
					p.got = p.c.take()
					if p.st == "open" {
						p.got = p.got[:len(p.got)-len(p.suffix)]
					}
					if p.st == "timeout" {
						p.c.c.Close()
					}
				}(p)
			}
			close(start)
			wg.Wait()
			fmt.Fprintf(out, "%s\n", line)
			for _, p := range ps {
				fmt.Fprintf(out, "C %s %s => %d %d %s %s\n", p.id, p.hexp, p.t0, p.t1, hx(p.got), p.st)
			}
		case "STALL":
			// STALL <id> <ms> <hex> — like C, but the client reads only the first chunk of what the server writes, then does not read for
			// <ms> milliseconds (a slow consumer on an open connection), then reads on; echoed, then reported as a C line
			c, ok := conns[f[1]]
			if !ok {
				c = newSconn(ctx, mgr)
				conns[f[1]] = c
			}
			ms, _ := strconv.Atoi(f[2])
			seq++
			token := fmt.Sprintf("verif-sentinel-%d", seq)
			payload := append(unhex(f[3]), []byte(fmt.Sprintf("*2\r\n$4\r\nPING\r\n$%d\r\n%s\r\n", len(token), token))...)
			t0 := time.Now().Unix()
			c.paused.Store(true) // the reader is already inside Read: it takes one chunk, then waits
			go func() {
				c.c.SetWriteDeadline(time.Now().Add(time.Duration(ms+5000) * time.Millisecond))
				c.c.Write(payload)
			}()
			time.Sleep(time.Duration(ms) * time.Millisecond)
			c.paused.Store(false)
			suffix := []byte(fmt.Sprintf("$%d\r\n%s\r\n", len(token), token))
			st := c.waitFor(suffix, 5*time.Second)
			t1 := time.Now().Unix()
			got := c.take()
			if st == "open" {
				got = got[:len(got)-len(suffix)]
			}
			if st == "timeout" {
				c.c.Close()
			}
			fmt.Fprintf(out, "%s\n", line)
			fmt.Fprintf(out, "C %s %s => %d %d %s %s\n", f[1], f[3], t0, t1, hx(got), st)
		case "D":
			c, ok := conns[f[1]]
			if !ok {
				fmt.Fprintf(out, "%s => - none\n", line)
				break
			}
			time.Sleep(2 * time.Millisecond)
			st := "open"
			c.mu.Lock()
			if c.closed {
				st = "closed"
			}
			c.mu.Unlock()
			fmt.Fprintf(out, "%s => %s %s\n", line, hx(c.take()), st)
		case "K":
			if c, ok := conns[f[1]]; ok {
				c.c.Close()
				delete(conns, f[1])
				time.Sleep(2 * time.Millisecond)
			}
			fmt.Fprintf(out, "%s\n", line)
		}
		out.Flush()
	}
	closeAll()
}
