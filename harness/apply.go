package main

import (
	"bufio"
	"fmt"
	"os"
	"strconv"
	"strings"

	"github.com/innovationb1ue/RedisGO/raftexample"
	"go.etcd.io/etcd/raft/v3/raftpb"
)

// apply engine (C07): the real entriesToApply / publishEntries of a bare RaftNode on Ready batches of committed entries.
//
//	N <applied>            new node whose appliedIndex is <applied>
//	B <first> <count>      one Ready: CommittedEntries = indexes first .. first+count-1 (each a normal entry carrying its index as id)
//	                       => <published ids, comma separated | -> <appliedIndex after> | FATAL (entriesToApply refused the batch)
func runApply(args []string) {
	in := bufio.NewScanner(os.Stdin)
	in.Buffer(make([]byte, 1<<20), 1<<26)
	out := bufio.NewWriter(os.Stdout)
	defer out.Flush()
	var rc *raftexample.RaftNode
	var commitC chan *raftexample.RaftCommit
	for in.Scan() {
		line := in.Text()
		f := strings.Fields(line)
		if len(f) == 0 {
			continue
		}
		switch f[0] {
		case "N":
			applied, _ := strconv.ParseUint(f[1], 10, 64)
			commitC = make(chan *raftexample.RaftCommit, 1024)
			rc = raftexample.VerifBareNode(applied, commitC)
			fmt.Fprintf(out, "%s\n", line)
		case "B":
			first, _ := strconv.ParseUint(f[1], 10, 64)
			count, _ := strconv.Atoi(f[2])
			if first > rc.VerifAppliedIndex()+1 {
				// entriesToApply calls log.Fatalf here (a gap): the harness does not run it, the model must refuse it too
				fmt.Fprintf(out, "%s => FATAL %d\n", line, rc.VerifAppliedIndex())
				continue
			}
			ents := make([]raftpb.Entry, 0, count)
			for i := 0; i < count; i++ {
				idx := first + uint64(i)
				p := &raftexample.RaftProposal{Data: "x", ID: strconv.FormatUint(idx, 10)}
				ents = append(ents, raftpb.Entry{Type: raftpb.EntryNormal, Index: idx, Term: 1, Data: p.ToBytes()})
			}
			ok := rc.VerifPublishEntries(rc.VerifEntriesToApply(ents))
			var ids []string
			for len(commitC) > 0 {
				c := <-commitC
				for _, p := range c.Data {
					ids = append(ids, p.ID)
				}
			}
			pub := "-"
			if len(ids) > 0 {
				pub = strings.Join(ids, ",")
			}
			fmt.Fprintf(out, "%s => %s %d %v\n", line, pub, rc.VerifAppliedIndex(), ok)
		}
	}
}
