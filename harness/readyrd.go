package main

// RD lines of the readyloop engine (tie (b) of the loop model lean/RedisGoModel/Cluster/ReadyLoop.lean): at the moment of an
// observed Send (the Ready arm is blocked inside rc.transport.Send) the WAL file is walked record by record and the snapshot
// directory is listed; the line carries that raw material, the message being sent and what the REAL recovery functions
// (wal.ValidSnapshotEntries, Snapshotter.LoadNewestAvailable, wal.OpenForRead + ReadAll — the oracle's read) made of it:
//
//   RD <records> <snapshot files> <message> => <term.vote.commit> <snapIndex.snapTerm> <entries>
//     records:  e<index>.<term> | s<term>.<vote>.<commit> | p<index>.<term>   (entry, hard state, WAL snapshot record), comma separated
//     files:    <index>.<term> of every *.snap file
//     message:  <kind>.<term>.<to>.<index>.<reject>
//     entries:  <index>.<term> comma separated
//
// The Lean driver (engine `ready`, RedisGoModel/Driver/Ready.lean) runs the model's `replayRecs` on the records and files and objects
// when hard state, snapshot or entries differ from what the real functions returned, or when the model's view does not keep the
// promise the message makes.  Only written when VERIF_RL_RD names a file; at most rdPerScenario lines per scenario.

import (
	"encoding/binary"
	"fmt"
	"os"
	"path/filepath"
	"sort"
	"strings"
	"sync"

	"go.etcd.io/etcd/raft/v3/raftpb"
	"go.etcd.io/etcd/server/v3/storage/wal/walpb"
)

const rdPerScenario = 40

var (
	rdMu    sync.Mutex
	rdFile  *os.File
	rdCount int
)

func rdReset() {
	rdMu.Lock()
	rdCount = 0
	rdMu.Unlock()
}

func dash(xs []string) string {
	if len(xs) == 0 {
		return "-"
	}
	return strings.Join(xs, ",")
}

// rdRecords walks the frames of the (single) WAL file: nil, false if there is not exactly one segment or a record does not decode
func rdRecords(waldir string) ([]string, bool) {
	names, _ := filepath.Glob(filepath.Join(waldir, "*.wal"))
	if len(names) != 1 {
		return nil, false
	}
	// the segment is preallocated (1 MB here, 64 MB in production) and mostly zeros: read a prefix, all of it only if the records go on
	f, err := os.Open(names[0])
	if err != nil {
		return nil, false
	}
	defer f.Close()
	b := make([]byte, 32<<10)
	n, _ := f.ReadAt(b, 0)
	b = b[:n]
	if n == 32<<10 && (b[n-1] != 0 || b[n-8] != 0 || b[n-16] != 0) {
		if b, err = os.ReadFile(names[0]); err != nil {
			return nil, false
		}
	} else if n == 32<<10 {
		// ends in zeros: make sure the walk below stops inside the prefix (a frame header of zero length)
		tail := b[n-64:]
		for _, c := range tail {
			if c != 0 {
				if b, err = os.ReadFile(names[0]); err != nil {
					return nil, false
				}
				break
			}
		}
	}
	var out []string
	o := 0
	for o+8 <= len(b) {
		l := binary.LittleEndian.Uint64(b[o:])
		if l == 0 {
			break
		}
		rec := int(l & ^(uint64(0xff) << 56))
		pad := 0
		if int64(l) < 0 {
			pad = int((l >> 56) & 7)
		}
		if o+8+rec+pad > len(b) {
			break
		}
		var r walpb.Record
		if r.Unmarshal(b[o+8:o+8+rec]) != nil {
			return nil, false
		}
		switch r.Type {
		case 2:
			var e raftpb.Entry
			if e.Unmarshal(r.Data) != nil {
				return nil, false
			}
			out = append(out, fmt.Sprintf("e%d.%d", e.Index, e.Term))
		case 3:
			var h raftpb.HardState
			if h.Unmarshal(r.Data) != nil {
				return nil, false
			}
			out = append(out, fmt.Sprintf("s%d.%d.%d", h.Term, h.Vote, h.Commit))
		case 5:
			var sn walpb.Snapshot
			if sn.Unmarshal(r.Data) != nil {
				return nil, false
			}
			out = append(out, fmt.Sprintf("p%d.%d", sn.Index, sn.Term))
		}
		o += 8 + rec + pad
	}
	return out, true
}

func rdSnapFiles(snapdir string) []string {
	names, _ := filepath.Glob(filepath.Join(snapdir, "*.snap"))
	sort.Strings(names)
	var out []string
	for _, n := range names {
		var term, index uint64
		if _, err := fmt.Sscanf(filepath.Base(n), "%016x-%016x.snap", &term, &index); err == nil {
			out = append(out, fmt.Sprintf("%d.%d", index, term))
		}
	}
	return out
}

func rdMsgKind(t raftpb.MessageType) string {
	switch t {
	case raftpb.MsgVote:
		return "vote"
	case raftpb.MsgVoteResp:
		return "voteresp"
	case raftpb.MsgAppResp:
		return "appresp"
	}
	return "other"
}

// rdEmit is called inside observe (the Ready arm is blocked in Send), right after the oracle's read d of the directories
func rdEmit(waldir, snapdir string, d *rlDisk, m *raftpb.Message) {
	path := os.Getenv("VERIF_RL_RD")
	if path == "" || rlBlind {
		return
	}
	rdMu.Lock()
	defer rdMu.Unlock()
	if rdCount >= rdPerScenario {
		return
	}
	recs, ok := rdRecords(waldir)
	if !ok {
		return
	}
	if rdFile == nil {
		f, err := os.OpenFile(path, os.O_APPEND|os.O_CREATE|os.O_WRONLY, 0o644)
		if err != nil {
			return
		}
		rdFile = f
	}
	var ents []string
	for i := range d.ents {
		ents = append(ents, fmt.Sprintf("%d.%d", d.ents[i].Index, d.ents[i].Term))
	}
	rej := 0
	if m.Reject {
		rej = 1
	}
	fmt.Fprintf(rdFile, "RD %s %s %s.%d.%d.%d.%d => %d.%d.%d %d.%d %s\n", dash(recs), dash(rdSnapFiles(snapdir)),
		rdMsgKind(m.Type), m.Term, m.To, m.Index, rej, d.hs.Term, d.hs.Vote, d.hs.Commit, d.snapIndex, d.snapTerm, dash(ents))
	rdCount++
}
