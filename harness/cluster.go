package main

import (
	"bufio"
	"encoding/json"
	"fmt"
	"io"
	"math"
	"math/rand"
	"net"
	"os"
	"os/exec"
	"os/signal"
	"path/filepath"
	"regexp"
	"sort"
	"strconv"
	"strings"
	"sync"
	"sync/atomic"
	"syscall"
	"time"

	"github.com/anishathalye/porcupine"
)

// cluster engine (C07/C08): end-to-end exploration on REAL node processes.
//
//   harness cluster <server-binary> <scratch-dir> <seed> <scenario-json> [<scenario-json> ...]
//
// For every scenario: n node processes (own cwd, own process group, PID recorded in <scratch>/pids.txt) on free loopback ports,
// concurrent RESP clients against random nodes, faults (SIGKILL by PID at random instants, restart from the on-disk state in the
// same cwd, membership change), then quiescence and a read of every key through EVERY node.  Checks: (a) no node exits on its own,
// (b) exactly one well-formed reply per command, (c) the acknowledged history is linearizable per key (porcupine; a command whose
// connection broke or timed out is an operation with unknown outcome = infinite return time), (d) replicas agree at quiescence,
// (e) every acknowledged write is reflected after the restarts (ledger keys: INCR-only counters and SADD-only sets, counted
// independently of porcupine).  One JSON report per scenario on stdout.  This is exploration, not proof.

type clScenario struct {
	Name      string   `json:"name"`
	Nodes     int      `json:"nodes"`
	Clients   int      `json:"clients"`
	LoadMs    int      `json:"load_ms"`           // duration of the client load
	MaxOps    int      `json:"max_ops,omitempty"` // per client (0 = unbounded within LoadMs)
	SnapCount int      `json:"snapcount"`         // VERIF_SNAPCOUNT for the nodes (0 = default 10000)
	Classes   []string `json:"classes"`           // str ctr list set ledger
	Faults    []string `json:"faults"`            // kill-follower kill-leader kill-all kill-minority lag-follower add-member del-member; with proxied links: isolate-leader isolate-follower split partition-leader-minority isolate-follower-snap
	Demo      string   `json:"demo,omitempty"`    // ttl | spop | xadd | listsnap | snaprestart | snaplag : minimal separate scenarios
	OpTimeout int      `json:"op_timeout_ms,omitempty"`
	ThinkMs   int      `json:"think_ms,omitempty"` // each client pauses 0..ThinkMs between commands
	Proxied   bool     `json:"proxied,omitempty"`  // every raft link goes through a forwarder of the harness (cluster_links.go): partitions between live nodes
	Readers   int      `json:"readers,omitempty"`  // read-only clients PINNED to each node (they keep asking a node that is cut off)
}

type clOp struct {
	Client int      `json:"c"`
	Node   int      `json:"n"`
	Cmd    []string `json:"cmd"`
	Key    string   `json:"key"`
	Out    string   `json:"out"` // raw reply, "?" = unknown outcome
	Call   int64    `json:"call"`
	Ret    int64    `json:"ret"`
}

type clProblem struct {
	Kind   string `json:"kind"` // start-failed node-died bad-reply not-linearizable replicas-disagree lost-write unavailable
	Detail string `json:"detail"`
}

type clReport struct {
	Scenario   string                       `json:"scenario"`
	Seed       int64                        `json:"seed"`
	Nodes      int                          `json:"nodes"`
	Clients    int                          `json:"clients"`
	SnapCount  int                          `json:"snapcount"`
	Result     string                       `json:"result"` // ok | first problem kind | demo-diverged | demo-agrees
	Problems   []clProblem                  `json:"problems,omitempty"`
	Faults     []string                     `json:"faults_injected"`
	Acked      int                          `json:"ops_acked"`
	Unknown    int                          `json:"ops_unknown"`
	KeysLin    int                          `json:"keys_checked"`
	Inconcl    int                          `json:"keys_inconclusive"`
	Snapshots  int                          `json:"snapshots_taken"`
	SnapLoads  int                          `json:"snapshots_received"`
	AgreeKeys  int                          `json:"keys_agree_on_all_nodes"`
	NodesRead  int                          `json:"nodes_read"`
	Final      map[string]map[string]string `json:"final,omitempty"` // key -> node -> state (kept only when something is wrong)
	Ledger     map[string]string            `json:"ledger,omitempty"`
	History    []clOp                       `json:"history,omitempty"`
	LogTail    map[string]string            `json:"log_tail,omitempty"`
	Excerpt    []string                     `json:"excerpt,omitempty"` // first not-linearizable key: the first reply without an explanation and its context
	Links      map[string]int               `json:"links,omitempty"`   // proxied scenarios: forwarders, connections piped / closed by a cut / closed on arrival
	Seconds    float64                      `json:"seconds"`
	DemoDetail string                       `json:"demo_detail,omitempty"`
}

type clNode struct {
	id       int
	dir      string
	kvPort   int
	raftPort int
	mu       sync.Mutex
	cmd      *exec.Cmd
	pid      int
	alive    bool
	killed   bool // we sent SIGKILL to this incarnation
	expected bool // the node may exit on its own (it was removed from the cluster)
	done     chan struct{}
	member   bool
}

type cluster struct {
	bin              string
	dir              string
	snap             int
	nodes            []*clNode
	peers            []string
	links            map[[2]int]*clLink // directed forwarders (from id, to id); nil = the nodes dial each other directly
	pidFile          *os.File
	pidMu            sync.Mutex
	diedMu           sync.Mutex
	died             []string
	t0               time.Time
	explicitRaftAddr bool
}

var clAllPids sync.Map // pid -> true, for the signal handler

// freePort hands out loopback ports. With VERIF_PORT_BASE=<b> (set by the orchestrator, a different block of 200 ports below the
// ephemeral range for every harness process that runs at the same time) ports are taken in sequence from that block, so that
// concurrent harness processes cannot pick the same port between the probe and the node's own bind.
var (
	portMu   sync.Mutex
	portNext int
)

func freePort() int {
	base, _ := strconv.Atoi(os.Getenv("VERIF_PORT_BASE"))
	for tries := 0; ; tries++ {
		addr := "127.0.0.1:0"
		if base > 1024 && tries < 400 {
			portMu.Lock()
			addr = fmt.Sprintf("127.0.0.1:%d", base+portNext%200)
			portNext++
			portMu.Unlock()
		}
		l, err := net.Listen("tcp", addr)
		if err != nil {
			continue
		}
		p := l.Addr().(*net.TCPAddr).Port
		l.Close()
		if p > 1024 && p < 65535 {
			return p
		}
	}
}

func (c *cluster) now() int64 { return int64(time.Since(c.t0)) }

func (c *cluster) writeConfigs(n *clNode, join bool) error {
	conf := fmt.Sprintf("host 127.0.0.1\n\nport %d\n\nlogdir %s\n\nloglevel error\n\nshardnum 64\n\ndatabases 16\n", n.kvPort, n.dir)
	if err := os.WriteFile(filepath.Join(n.dir, "redis.conf"), []byte(conf), 0o644); err != nil {
		return err
	}
	cj, _ := json.Marshal(map[string]interface{}{
		"IsCluster": true, "PeerAddrs": strings.Join(c.peersFor(n), ","), "RaftAddr": c.raftAddrOf(n), "NodeID": n.id, "KVPort": n.kvPort, "JoinCluster": join,
	})
	return os.WriteFile(filepath.Join(n.dir, "cluster.json"), cj, 0o644)
}

// raftAddrOf: half of the scenarios (odd seed) name the node's own raft URL explicitly in cluster.json, as cluster_test/cluster_config3.json does; it is
// the URL the node would derive from PeerAddrs anyway (seeded change C20-cluster-json-raftaddr-skips-clamp: the explicit form skipped a later line of the loader)
func (c *cluster) raftAddrOf(n *clNode) string {
	if c.explicitRaftAddr && n.id >= 1 && n.id <= len(c.peers) {
		return c.peers[n.id-1]
	}
	return ""
}

func (c *cluster) addNode(join bool) (*clNode, error) {
	id := len(c.nodes) + 1
	n := &clNode{id: id, dir: filepath.Join(c.dir, fmt.Sprintf("n%d", id)), kvPort: freePort(), raftPort: freePort(), member: true}
	if err := os.MkdirAll(n.dir, 0o755); err != nil {
		return nil, err
	}
	c.nodes = append(c.nodes, n)
	c.peers = append(c.peers, fmt.Sprintf("http://127.0.0.1:%d", n.raftPort))
	return n, nil
}

// start launches (or relaunches) the node process in its own cwd and process group
func (c *cluster) start(n *clNode) error {
	n.mu.Lock()
	defer n.mu.Unlock()
	if n.alive {
		return nil
	}
	logf, err := os.OpenFile(filepath.Join(n.dir, "node.log"), os.O_CREATE|os.O_WRONLY|os.O_APPEND, 0o644)
	if err != nil {
		return err
	}
	cmd := exec.Command(c.bin, "--IsCluster=true", "--ClusterConfigPath=cluster.json", "--config=redis.conf")
	cmd.Dir = n.dir
	cmd.Stdout, cmd.Stderr = logf, logf
	cmd.SysProcAttr = &syscall.SysProcAttr{Setpgid: true}
	cmd.Env = os.Environ()
	if c.snap > 0 {
		cmd.Env = append(cmd.Env, "VERIF_SNAPCOUNT="+strconv.Itoa(c.snap))
	}
	fmt.Fprintf(logf, "==== harness: start node %d at %.3fs\n", n.id, time.Since(c.t0).Seconds())
	if err := cmd.Start(); err != nil {
		logf.Close()
		return err
	}
	n.cmd, n.pid, n.alive, n.killed = cmd, cmd.Process.Pid, true, false
	n.done = make(chan struct{})
	clAllPids.Store(n.pid, true)
	c.pidMu.Lock()
	fmt.Fprintf(c.pidFile, "%d\n", n.pid)
	c.pidFile.Sync()
	c.pidMu.Unlock()
	go func(cmd *exec.Cmd, done chan struct{}, pid int) {
		err := cmd.Wait()
		logf.Close()
		clAllPids.Delete(pid)
		n.mu.Lock()
		n.alive = false
		spontaneous := !n.killed && !n.expected
		n.mu.Unlock()
		if spontaneous {
			c.diedMu.Lock()
			c.died = append(c.died, fmt.Sprintf("node %d (pid %d) exited on its own at %.3fs: %v\n%s", n.id, pid, time.Since(c.t0).Seconds(), err, tailFile(filepath.Join(n.dir, "node.log"), 30, 6000)))
			c.diedMu.Unlock()
		}
		close(done)
	}(cmd, n.done, n.pid)
	return nil
}

// kill sends SIGKILL to the recorded PID (never by name) and waits for the process to be reaped
func (c *cluster) kill(n *clNode) {
	n.mu.Lock()
	if !n.alive {
		n.mu.Unlock()
		return
	}
	n.killed = true
	pid, done := n.pid, n.done
	n.mu.Unlock()
	syscall.Kill(pid, syscall.SIGKILL)
	select {
	case <-done:
	case <-time.After(10 * time.Second):
	}
}

func (c *cluster) killAll() {
	for _, n := range c.nodes {
		c.kill(n)
	}
}

func (n *clNode) isAlive() bool {
	n.mu.Lock()
	defer n.mu.Unlock()
	return n.alive
}

func tailFile(path string, lines, maxBytes int) string {
	b, err := os.ReadFile(path)
	if err != nil {
		return err.Error()
	}
	if len(b) > 1<<20 {
		b = b[len(b)-(1<<20):]
	}
	text := string(b)
	if i := strings.LastIndex(text, "==== harness: start node"); i >= 0 {
		text = text[i:]
	}
	ls := strings.Split(strings.TrimRight(text, "\n"), "\n")
	// the interesting part of a Go crash starts at the first panic / fatal line of this incarnation
	start := len(ls) - lines
	for i, l := range ls {
		if strings.HasPrefix(l, "panic:") || strings.HasPrefix(l, "fatal error:") || strings.Contains(l, "[signal ") {
			start = i - 1
			break
		}
	}
	if start < 0 {
		start = 0
	}
	end := start + lines
	if end > len(ls) {
		end = len(ls)
	}
	s := strings.Join(ls[start:end], "\n")
	if len(s) > maxBytes {
		s = s[:maxBytes]
	}
	return s
}

// fault kinds that cut links between live nodes (scenario field "proxied" required)
var clPartitionFault = map[string]bool{"isolate-leader": true, "isolate-follower": true, "split": true, "partition-leader-minority": true, "isolate-follower-snap": true}

var reLeader = regexp.MustCompile(`became leader at term (\d+)`)

// leader guesses the current leader from the raft log lines of the node processes (highest term that reports "became leader")
func (c *cluster) leader() *clNode {
	best, bestTerm := (*clNode)(nil), int64(-1)
	for _, n := range c.nodes {
		if !n.isAlive() || !n.member {
			continue
		}
		b, err := os.ReadFile(filepath.Join(n.dir, "node.log"))
		if err != nil {
			continue
		}
		// only the current incarnation counts
		if i := strings.LastIndex(string(b), "==== harness: start node"); i >= 0 {
			b = b[i:]
		}
		for _, m := range reLeader.FindAllStringSubmatch(string(b), -1) {
			t, _ := strconv.ParseInt(m[1], 10, 64)
			if t > bestTerm {
				best, bestTerm = n, t
			}
		}
	}
	return best
}

func (c *cluster) countLog(pattern string) int {
	total := 0
	for _, n := range c.nodes {
		b, err := os.ReadFile(filepath.Join(n.dir, "node.log"))
		if err == nil {
			total += strings.Count(string(b), pattern)
		}
	}
	return total
}

// ---- RESP client

type respConn struct {
	c net.Conn
	r *bufio.Reader
}

func dialNode(n *clNode, timeout time.Duration) (*respConn, error) {
	c, err := net.DialTimeout("tcp", fmt.Sprintf("127.0.0.1:%d", n.kvPort), timeout)
	if err != nil {
		return nil, err
	}
	return &respConn{c: c, r: bufio.NewReader(c)}, nil
}

func encodeCmd(argv []string) []byte {
	var sb strings.Builder
	fmt.Fprintf(&sb, "*%d\r\n", len(argv))
	for _, a := range argv {
		fmt.Fprintf(&sb, "$%d\r\n%s\r\n", len(a), a)
	}
	return []byte(sb.String())
}

// readReply reads exactly one RESP2 value and returns its raw bytes; malformed framing is an error of kind "malformed"
func readReply(r *bufio.Reader, depth int) (string, error) {
	line, err := r.ReadString('\n')
	if err != nil {
		return line, err
	}
	if len(line) < 3 || line[len(line)-2] != '\r' {
		return line, fmt.Errorf("malformed: line %q", line)
	}
	body := line[1 : len(line)-2]
	switch line[0] {
	case '+', '-':
		return line, nil
	case ':':
		if _, err := strconv.ParseInt(body, 10, 64); err != nil {
			return line, fmt.Errorf("malformed: integer %q", line)
		}
		return line, nil
	case '$':
		n, err := strconv.Atoi(body)
		if err != nil || n < -1 {
			return line, fmt.Errorf("malformed: bulk length %q", line)
		}
		if n == -1 {
			return line, nil
		}
		buf := make([]byte, n+2)
		if _, err := io.ReadFull(r, buf); err != nil {
			return line + string(buf), err
		}
		if buf[n] != '\r' || buf[n+1] != '\n' {
			return line + string(buf), fmt.Errorf("malformed: bulk not terminated by CRLF")
		}
		return line + string(buf), nil
	case '*':
		n, err := strconv.Atoi(body)
		if err != nil || n < -1 || depth > 8 {
			return line, fmt.Errorf("malformed: array length %q", line)
		}
		out := line
		for i := 0; i < n; i++ {
			e, err := readReply(r, depth+1)
			out += e
			if err != nil {
				return out, err
			}
		}
		return out, nil
	}
	return line, fmt.Errorf("malformed: type byte %q", line[0])
}

// do sends one command and reads one reply. malformed=true when bytes arrived that are not one RESP value.
func (rc *respConn) do(argv []string, timeout time.Duration) (out string, err error, malformed bool) {
	rc.c.SetDeadline(time.Now().Add(timeout))
	if _, err := rc.c.Write(encodeCmd(argv)); err != nil {
		return "", err, false
	}
	out, err = readReply(rc.r, 0)
	if err != nil && strings.HasPrefix(err.Error(), "malformed") {
		return out, err, true
	}
	return out, err, false
}

// extra reports bytes that arrive on the connection although no command is outstanding (a second reply to one command)
func (rc *respConn) extra(wait time.Duration) string {
	rc.c.SetReadDeadline(time.Now().Add(wait))
	b, err := rc.r.Peek(1)
	if err == nil && len(b) > 0 {
		n := rc.r.Buffered()
		p, _ := rc.r.Peek(n)
		return string(p)
	}
	return ""
}

// once runs one command on a fresh connection to a node
func (c *cluster) once(n *clNode, timeout time.Duration, argv ...string) (string, error) {
	rc, err := dialNode(n, time.Second)
	if err != nil {
		return "", err
	}
	defer rc.c.Close()
	out, err, _ := rc.do(argv, timeout)
	return out, err
}

// waitServing: every listed node answers a command that goes through the replicated log
func (c *cluster) waitServing(nodes []*clNode, limit time.Duration) error {
	deadline := time.Now().Add(limit)
	for _, n := range nodes {
		for {
			if !n.isAlive() {
				return fmt.Errorf("node %d is not running", n.id)
			}
			out, err := c.once(n, 1500*time.Millisecond, "GET", "__barrier")
			if err == nil && (strings.HasPrefix(out, "$")) {
				break
			}
			if time.Now().After(deadline) {
				return fmt.Errorf("node %d does not serve requests %.0fs after (re)start: %v %q", n.id, limit.Seconds(), err, out)
			}
			time.Sleep(150 * time.Millisecond)
		}
	}
	return nil
}

// ---- workload

type clGen func(rng *rand.Rand, client, i int) (argv []string, key string)

func clWorkload(classes []string) (gens []clGen, keys map[string]string) {
	keys = map[string]string{} // key -> kind (s string, l list, t set)
	has := map[string]bool{}
	for _, c := range classes {
		has[c] = true
	}
	uniq := func(client, i int) string { return fmt.Sprintf("v_%d_%d", client, i) }
	if has["str"] {
		ks := []string{"s1", "s2"}
		for _, k := range ks {
			keys[k] = "s"
		}
		gens = append(gens, func(rng *rand.Rand, c, i int) ([]string, string) {
			k := pick(rng, ks)
			switch rng.Intn(8) {
			case 0, 1, 2:
				return []string{"SET", k, uniq(c, i)}, k
			case 3, 4:
				return []string{"GET", k}, k
			case 5:
				return []string{"APPEND", k, fmt.Sprintf("%d.%d;", c, i)}, k
			case 6:
				return []string{"SETNX", k, uniq(c, i)}, k
			default:
				return []string{"DEL", k}, k
			}
		})
	}
	if has["ctr"] {
		ks := []string{"c1", "c2"}
		for _, k := range ks {
			keys[k] = "s"
		}
		gens = append(gens, func(rng *rand.Rand, c, i int) ([]string, string) {
			k := pick(rng, ks)
			switch rng.Intn(8) {
			case 0, 1, 2, 3:
				return []string{"INCR", k}, k
			case 4:
				return []string{"INCRBY", k, strconv.Itoa(rng.Intn(7) + 2)}, k
			case 5:
				return []string{"DECR", k}, k
			case 6:
				return []string{"GET", k}, k
			default:
				if rng.Intn(4) == 0 {
					return []string{"DEL", k}, k
				}
				return []string{"STRLEN", k}, k
			}
		})
	}
	if has["list"] {
		ks := []string{"l1", "l2"}
		for _, k := range ks {
			keys[k] = "l"
		}
		gens = append(gens, func(rng *rand.Rand, c, i int) ([]string, string) {
			k := pick(rng, ks)
			switch rng.Intn(6) {
			case 0, 1, 2:
				return []string{"RPUSH", k, fmt.Sprintf("e_%d_%d", c, i)}, k
			case 3, 4:
				return []string{"LPOP", k}, k
			default:
				return []string{"LLEN", k}, k
			}
		})
	}
	if has["set"] {
		ks := []string{"t1", "t2"}
		for _, k := range ks {
			keys[k] = "t"
		}
		members := []string{"a", "b", "c", "d"}
		gens = append(gens, func(rng *rand.Rand, c, i int) ([]string, string) {
			k := pick(rng, ks)
			m := pick(rng, members)
			switch rng.Intn(6) {
			case 0, 1:
				return []string{"SADD", k, m}, k
			case 2:
				return []string{"SREM", k, m}, k
			case 3, 4:
				return []string{"SISMEMBER", k, m}, k
			default:
				return []string{"SCARD", k}, k
			}
		})
	}
	if has["ledger"] {
		keys["n1"], keys["u1"] = "s", "t"
		gens = append(gens, func(rng *rand.Rand, c, i int) ([]string, string) {
			if rng.Intn(2) == 0 {
				return []string{"INCR", "n1"}, "n1"
			}
			return []string{"SADD", "u1", fmt.Sprintf("m_%d_%d", c, i)}, "u1"
		})
	}
	return
}

func isReadOp(op string) bool {
	switch op {
	case "get", "strlen", "exists", "llen", "sismember", "scard", "final":
		return true
	}
	return false
}

// clStep: kvStep + unknown outcomes ("?": the transition is taken, any reply accepted) + final reads ("final": out must be the state)
func clStep(state string, in kvInput, out string) (bool, string) {
	if in.Op == "final" {
		return out == state, state
	}
	if out == "?" {
		_, ns := kvStep(state, in, "")
		return true, ns
	}
	return kvStep(state, in, out)
}

var clModel = porcupine.Model{
	Init: func() interface{} { return "~" },
	Step: func(state, input, output interface{}) (bool, interface{}) {
		ok, ns := clStep(state.(string), input.(kvInput), output.(string))
		return ok, ns
	},
	Equal: func(a, b interface{}) bool { return a.(string) == b.(string) },
	DescribeOperation: func(input, output interface{}) string {
		return fmt.Sprintf("%v -> %q", input, output)
	},
}

// bulkStrings extracts the bulk strings of a flat array reply
func bulkStrings(reply string) ([]string, bool) {
	r := bufio.NewReader(strings.NewReader(reply))
	line, err := r.ReadString('\n')
	if err != nil || !strings.HasPrefix(line, "*") {
		return nil, false
	}
	n, err := strconv.Atoi(strings.TrimSpace(line[1:]))
	if err != nil {
		return nil, false
	}
	var out []string
	for i := 0; i < n; i++ {
		h, err := r.ReadString('\n')
		if err != nil || !strings.HasPrefix(h, "$") {
			return nil, false
		}
		l, err := strconv.Atoi(strings.TrimSpace(h[1:]))
		if err != nil || l < 0 {
			return nil, false
		}
		buf := make([]byte, l+2)
		if _, err := io.ReadFull(r, buf); err != nil {
			return nil, false
		}
		out = append(out, string(buf[:l]))
	}
	return out, true
}

// readState reads one key through one node and renders it like the model's state
func (c *cluster) readState(n *clNode, key, kind string) (string, error) {
	var lastErr error
	for attempt := 0; attempt < 12; attempt++ {
		var out string
		var err error
		switch kind {
		case "s":
			out, err = c.once(n, 2*time.Second, "GET", key)
			if err == nil {
				if out == "$-1\r\n" {
					return "~", nil
				}
				if strings.HasPrefix(out, "$") {
					i := strings.Index(out, "\r\n")
					return "s:" + out[i+2:len(out)-2], nil
				}
				return "!" + out, nil
			}
		case "l":
			out, err = c.once(n, 2*time.Second, "LRANGE", key, "0", "-1")
			if err == nil {
				items, ok := bulkStrings(out)
				if !ok {
					return "!" + out, nil
				}
				if len(items) == 0 {
					return "~", nil
				}
				return "l:" + strings.Join(items, ","), nil
			}
		case "t":
			out, err = c.once(n, 2*time.Second, "SMEMBERS", key)
			if err == nil {
				items, ok := bulkStrings(out)
				if !ok {
					return "!" + out, nil
				}
				if len(items) == 0 {
					return "~", nil
				}
				sort.Strings(items)
				return "t:" + strings.Join(items, ","), nil
			}
		}
		lastErr = err
		time.Sleep(250 * time.Millisecond)
	}
	return "", lastErr
}

// ---- one scenario

func runClusterScenario(bin, scratch string, seed int64, sc clScenario) (rep clReport) {
	start := time.Now()
	rep = clReport{Scenario: sc.Name, Seed: seed, Nodes: sc.Nodes, Clients: sc.Clients, SnapCount: sc.SnapCount, Faults: []string{}}
	var probMu sync.Mutex
	problem := func(kind, detail string) {
		if len(detail) > 6000 {
			detail = detail[:6000]
		}
		probMu.Lock()
		if len(rep.Problems) < 40 {
			rep.Problems = append(rep.Problems, clProblem{kind, detail})
		}
		probMu.Unlock()
	}
	dir, err := os.MkdirTemp(scratch, "sc-")
	if err != nil {
		problem("start-failed", err.Error())
		rep.Result = "start-failed"
		return
	}
	pidFile, _ := os.OpenFile(filepath.Join(scratch, "pids.txt"), os.O_CREATE|os.O_WRONLY|os.O_APPEND, 0o644)
	c := &cluster{bin: bin, dir: dir, snap: sc.SnapCount, pidFile: pidFile, t0: time.Now(), explicitRaftAddr: seed%2 == 1}
	defer func() {
		c.killAll()
		c.closeLinks()
		pidFile.Close()
		if os.Getenv("VERIF_KEEP_CLUSTER") == "" {
			os.RemoveAll(dir)
		}
		rep.Seconds = time.Since(start).Seconds()
		if rep.Result == "" {
			if len(rep.Problems) > 0 {
				rep.Result = rep.Problems[0].Kind
			} else {
				rep.Result = "ok"
			}
		}
	}()
	logTails := func() {
		rep.LogTail = map[string]string{}
		for _, n := range c.nodes {
			rep.LogTail[strconv.Itoa(n.id)] = tailFile(filepath.Join(n.dir, "node.log"), 12, 2500)
		}
	}
	rng := rand.New(rand.NewSource(seed))
	for i := 0; i < sc.Nodes; i++ {
		if _, err := c.addNode(false); err != nil {
			problem("start-failed", err.Error())
			return
		}
	}
	for _, f := range sc.Faults {
		if clPartitionFault[f] && !sc.Proxied {
			problem("start-failed", "bad scenario: fault "+f+" needs proxied links")
			return
		}
		if f == "add-member" && sc.Proxied {
			problem("start-failed", "bad scenario: add-member with proxied links (an added member's URL is one string for every node)")
			return
		}
	}
	if sc.Proxied {
		if err := c.setupLinks(); err != nil {
			problem("start-failed", err.Error())
			return
		}
	}
	for _, n := range c.nodes {
		if err := c.writeConfigs(n, false); err != nil {
			problem("start-failed", err.Error())
			return
		}
		if err := c.start(n); err != nil {
			problem("start-failed", fmt.Sprintf("node %d: %v", n.id, err))
			return
		}
	}
	if err := c.waitServing(c.nodes, 40*time.Second); err != nil {
		c.diedMu.Lock()
		for _, d := range c.died {
			problem("node-died", "right after start: "+d)
		}
		c.diedMu.Unlock()
		problem("start-failed", "the cluster does not serve requests after start: "+err.Error())
		logTails()
		return
	}
	// C20 in cluster mode: if a node accepts SELECT of another database at all, the selection must still be the connection's own and the databases isolated
	if out, err := c.once(c.nodes[0], 3*time.Second, "SELECT", "1"); err == nil && strings.HasPrefix(out, "+") {
		if rc, err := dialNode(c.nodes[0], 2*time.Second); err == nil {
			o1, _, _ := rc.do([]string{"SELECT", "1"}, 3*time.Second)
			o2, _, _ := rc.do([]string{"SET", "select-probe", "in-db-1"}, 3*time.Second)
			got, _ := c.once(c.nodes[0], 3*time.Second, "GET", "select-probe") // a FRESH connection: database 0
			rc.c.Close()
			if strings.HasPrefix(o1, "+") && strings.HasPrefix(o2, "+") && got != "$-1\r\n" {
				problem("bad-reply", fmt.Sprintf("cluster node 1 accepts SELECT 1 (+OK) and the selection is not the connection's own: a key written by the selecting connection in database 1 is read by a fresh connection "+
					"(which never sent SELECT): GET select-probe = %q", got))
			}
		}
	}
	// C14 / C03 in cluster mode: a one-shot client writes a pipeline and closes its sending side at once (printf ... | nc); a standalone server answers every
	// command before it looks at the end of the stream, and so must a cluster node, whose replies wait for a commit (seeded change
	// C14-cluster-halfclose-drops-last-reply: the end of the stream seen while the last command waited for its commit dropped that reply)
	for _, n := range c.nodes {
		hc, err := net.DialTimeout("tcp", fmt.Sprintf("127.0.0.1:%d", n.kvPort), 2*time.Second)
		if err != nil {
			continue
		}
		key := fmt.Sprintf("hc-probe-%d", n.id)
		var pipe []byte
		for _, cmd := range [][]string{{"SET", key, "v"}, {"APPEND", key, "w"}, {"STRLEN", key}} {
			pipe = append(pipe, encodeCmd(cmd)...)
		}
		hc.SetDeadline(time.Now().Add(8 * time.Second))
		hc.Write(pipe)
		if tc, ok := hc.(*net.TCPConn); ok {
			tc.CloseWrite()
		}
		got, _ := io.ReadAll(hc)
		hc.Close()
		if want := "+OK\r\n:2\r\n:2\r\n"; string(got) != want {
			cur, _ := c.once(n, 3*time.Second, "GET", key)
			problem("bad-reply", fmt.Sprintf("node %d: a client wrote SET %s v | APPEND %s w | STRLEN %s and closed its sending side at once; it read %q until the end of the stream, a standalone server answers %q "+
				"(GET %s from another connection afterwards: %q)", n.id, key, key, key, got, want, key, cur))
			break
		}
	}
	opTimeout := 3 * time.Second
	if sc.OpTimeout > 0 {
		opTimeout = time.Duration(sc.OpTimeout) * time.Millisecond
	}
	if sc.Demo != "" {
		runClusterDemo(c, sc, &rep, problem)
		c.diedMu.Lock()
		for _, d := range c.died {
			problem("node-died", d)
		}
		c.diedMu.Unlock()
		return
	}

	gens, keys := clWorkload(sc.Classes)
	var histMu sync.Mutex
	var hist []clOp
	var stop atomic.Bool
	var ackedWrites atomic.Int64 // writes acknowledged to the clients so far (a node cut off from the majority cannot acknowledge any)
	var wg sync.WaitGroup
	record := func(o clOp) {
		histMu.Lock()
		hist = append(hist, o)
		histMu.Unlock()
	}
	targets := func() []*clNode {
		var t []*clNode
		for _, n := range c.nodes {
			if n.member {
				t = append(t, n)
			}
		}
		return t
	}
	var nodesMu sync.RWMutex // guards c.nodes against add-member
	for g := 0; g < sc.Clients; g++ {
		wg.Add(1)
		go func(g int) {
			defer wg.Done()
			crng := rand.New(rand.NewSource(seed*7919 + int64(g)))
			var rc *respConn
			var node *clNode
			// proxied scenarios: a client whose command got no reply from a node turns to the OTHER nodes for a while, as a real
			// client would (the pinned readers keep asking every node).  Every command without a reply is an operation with
			// unknown outcome that stays concurrent with everything after it: this bounds their number on a cut-off node to
			// one per client and visit, which keeps the linearizability search within its time limit.
			var avoid *clNode
			var avoidUntil time.Time
			defer func() {
				if rc != nil {
					rc.c.Close()
				}
			}()
			for i := 0; !stop.Load() && (sc.MaxOps == 0 || i < sc.MaxOps); i++ {
				if rc == nil {
					nodesMu.RLock()
					ts := targets()
					nodesMu.RUnlock()
					if avoid != nil && time.Now().Before(avoidUntil) && len(ts) > 1 {
						var others []*clNode
						for _, t := range ts {
							if t != avoid {
								others = append(others, t)
							}
						}
						ts = others
					}
					node = ts[crng.Intn(len(ts))]
					var err error
					rc, err = dialNode(node, 500*time.Millisecond)
					if err != nil {
						rc = nil
						time.Sleep(50 * time.Millisecond)
						i--
						continue
					}
				}
				argv, key := gens[crng.Intn(len(gens))](crng, g, i)
				call := c.now()
				out, err, malformed := rc.do(argv, opTimeout)
				ret := c.now()
				if malformed {
					problem("bad-reply", fmt.Sprintf("client %d node %d %v: reply is not one well-formed RESP value: %q (%v)", g, node.id, argv, out, err))
				}
				if err != nil {
					record(clOp{Client: g, Node: node.id, Cmd: argv, Key: key, Out: "?", Call: call, Ret: math.MaxInt64 / 2})
					rc.c.Close()
					rc = nil
					if sc.Proxied {
						avoid, avoidUntil = node, time.Now().Add(4*time.Second)
						time.Sleep(time.Duration(300+crng.Intn(500)) * time.Millisecond) // and it backs off before it tries again
					}
					continue
				}
				record(clOp{Client: g, Node: node.id, Cmd: argv, Key: key, Out: out, Call: call, Ret: ret})
				if !isReadOp(strings.ToLower(argv[0])) {
					ackedWrites.Add(1)
				}
				if crng.Intn(16) == 0 {
					// nothing may arrive while no command is outstanding (exactly one reply per command)
					if x := rc.extra(20 * time.Millisecond); x != "" {
						problem("bad-reply", fmt.Sprintf("client %d node %d: unsolicited bytes after the reply to %v: %q", g, node.id, argv, x))
						rc.c.Close()
						rc = nil
					}
				}
				if sc.ThinkMs > 0 {
					time.Sleep(time.Duration(crng.Intn(sc.ThinkMs*1000+1)) * time.Microsecond)
				}
				if crng.Intn(40) == 0 {
					rc.c.Close() // move to another node now and then
					rc = nil
				}
			}
		}(g)
	}

	// read-only clients pinned to one node each: they keep asking their node whatever happens to its links.  A read that returns a
	// value is an acknowledged operation like any other (it must linearize, also when the node is cut off from the majority); a read
	// that times out constrains nothing and is dropped by the checker.
	if sc.Readers > 0 {
		readKeys := make([]string, 0, len(keys))
		for k := range keys {
			readKeys = append(readKeys, k)
		}
		sort.Strings(readKeys)
		readTimeout := opTimeout
		if readTimeout > 800*time.Millisecond {
			readTimeout = 800 * time.Millisecond
		}
		for ni := 0; ni < sc.Nodes; ni++ {
			for r := 0; r < sc.Readers; r++ {
				wg.Add(1)
				go func(g int, node *clNode) {
					defer wg.Done()
					crng := rand.New(rand.NewSource(seed*104729 + int64(g)))
					var rc *respConn
					defer func() {
						if rc != nil {
							rc.c.Close()
						}
					}()
					for i := 0; !stop.Load() && i < 3000; i++ {
						if rc == nil {
							var err error
							if rc, err = dialNode(node, 500*time.Millisecond); err != nil {
								rc = nil
								time.Sleep(100 * time.Millisecond)
								continue
							}
						}
						k := readKeys[crng.Intn(len(readKeys))]
						var argv []string
						switch keys[k] {
						case "l":
							argv = []string{"LLEN", k}
						case "t":
							argv = []string{"SCARD", k}
						default:
							argv = []string{"GET", k}
							if crng.Intn(5) == 0 {
								argv = []string{"STRLEN", k}
							}
						}
						call := c.now()
						out, err, malformed := rc.do(argv, readTimeout)
						ret := c.now()
						if malformed {
							problem("bad-reply", fmt.Sprintf("reader %d node %d %v: reply is not one well-formed RESP value: %q (%v)", g, node.id, argv, out, err))
						}
						if err != nil {
							record(clOp{Client: g, Node: node.id, Cmd: argv, Key: k, Out: "?", Call: call, Ret: math.MaxInt64 / 2})
							rc.c.Close()
							rc = nil
							continue
						}
						record(clOp{Client: g, Node: node.id, Cmd: argv, Key: k, Out: out, Call: call, Ret: ret})
						time.Sleep(time.Duration(2000+crng.Intn(sc.ThinkMs*1000+1)) * time.Microsecond)
					}
				}(sc.Clients+ni*sc.Readers+r, c.nodes[ni])
			}
		}
	}

	// fault controller
	orphanPlanted := false
	loadEnd := time.Now().Add(time.Duration(sc.LoadMs) * time.Millisecond)
	sleepR := func(lo, hi int) { time.Sleep(time.Duration(lo+rng.Intn(hi-lo+1)) * time.Millisecond) }
	note := func(f string, a ...interface{}) {
		rep.Faults = append(rep.Faults, fmt.Sprintf("%.2fs ", time.Since(c.t0).Seconds())+fmt.Sprintf(f, a...))
	}
	followers := func() []*clNode {
		l := c.leader()
		var fs []*clNode
		for _, n := range c.nodes {
			if n.member && n.isAlive() && n != l {
				fs = append(fs, n)
			}
		}
		return fs
	}
	restart := func(ns []*clNode) {
		rng.Shuffle(len(ns), func(i, j int) { ns[i], ns[j] = ns[j], ns[i] })
		for _, n := range ns {
			sleepR(0, 300)
			if err := c.start(n); err != nil {
				problem("start-failed", fmt.Sprintf("restart of node %d: %v", n.id, err))
			} else {
				note("restart node %d", n.id)
			}
		}
	}
	aliveMembers := func() []*clNode {
		var ms []*clNode
		for _, n := range c.nodes {
			if n.member && n.isAlive() {
				ms = append(ms, n)
			}
		}
		return ms
	}
	// after a heal: rafthttp redials within its retry interval (100 ms); a node that campaigned alone comes back with a higher term
	// and forces one more election (raftexample configures neither PreVote nor CheckQuorum).  None of that is a problem; the next
	// fault waits until every node answers through the log again (what remains unavailable is judged at quiescence).
	healAndSettle := func() {
		c.healAll()
		t := time.Now()
		if err := c.waitServing(aliveMembers(), 15*time.Second); err != nil {
			note("heal: all links restored; 15 s later: %v (left to the quiescence check)", err)
		} else {
			note("heal: all links restored; every node serves again %.1fs later", time.Since(t).Seconds())
		}
	}
	// the side that keeps a majority elects a new leader after its election timeout (10-20 ticks of 200 ms)
	awaitNewLeader := func(old *clNode, limit time.Duration) *clNode {
		t := time.Now()
		for time.Since(t) < limit {
			if x := c.leader(); x != nil && x != old {
				note("node %d leads the majority side %.1fs after the cut; node %d is still cut off and was never told", x.id, time.Since(t).Seconds(), old.id)
				return x
			}
			time.Sleep(100 * time.Millisecond)
		}
		note("no other node became leader within %.0fs of the cut", limit.Seconds())
		return nil
	}
	// keep the cut until the majority side has acknowledged writes under its new leader (commands sent to a follower before it gave up
	// on the old leader were forwarded into the cut and are lost; the clients come back after their deadline), at most 4 s
	awaitMajorityWrites := func() {
		base, t := ackedWrites.Load(), time.Now()
		for time.Since(t) < 4*time.Second && ackedWrites.Load() < base+30 {
			time.Sleep(50 * time.Millisecond)
		}
		note("the majority side acknowledged %d writes in the %.1fs since; the cut stays for another moment", ackedWrites.Load()-base, time.Since(t).Seconds())
	}
	for _, f := range sc.Faults {
		sleepR(300, 1200)
		switch f {
		case "isolate-leader":
			// the leader is cut off from everybody while it runs and serves its clients.  The others elect a new leader and acknowledge
			// writes; the old one is not told (no CheckQuorum) - whatever it still answers during that time must linearize
			l := c.leader()
			if l == nil {
				l = c.nodes[rng.Intn(sc.Nodes)]
			}
			k := c.isolate(l)
			note("isolate leader %d: its links to all other nodes cut (%d open connections closed); the process runs and serves clients", l.id, k)
			if awaitNewLeader(l, 7*time.Second) == nil {
				// the guess from the log lines was wrong (the node cut off was not leading): once more with a fresh guess
				healAndSettle()
				if l = c.leader(); l == nil {
					break
				}
				k = c.isolate(l)
				note("isolate leader %d (second attempt): its links to all other nodes cut (%d open connections closed)", l.id, k)
				awaitNewLeader(l, 7*time.Second)
			}
			awaitMajorityWrites()
			sleepR(600, 1400)
			healAndSettle()
		case "partition-leader-minority":
			// the leader and (nodes-1)/2 - 1 followers on one side (a minority that still exchanges heartbeats), the rest on the other
			l := c.leader()
			if l == nil {
				l = c.nodes[rng.Intn(sc.Nodes)]
			}
			group := []*clNode{l}
			fs := followers()
			rng.Shuffle(len(fs), func(i, j int) { fs[i], fs[j] = fs[j], fs[i] })
			for _, n := range fs {
				if len(group) < (sc.Nodes-1)/2 {
					group = append(group, n)
				}
			}
			var ids []string
			for _, n := range group {
				ids = append(ids, strconv.Itoa(n.id))
			}
			k := c.partition(group)
			note("partition: nodes %s (with leader %d) cut from the rest (%d open connections closed)", strings.Join(ids, ","), l.id, k)
			awaitNewLeader(l, 7*time.Second)
			awaitMajorityWrites()
			sleepR(600, 1400)
			healAndSettle()
		case "isolate-follower":
			if fs := followers(); len(fs) > 0 {
				n := fs[rng.Intn(len(fs))]
				k := c.isolate(n)
				note("isolate follower %d: its links to all other nodes cut (%d open connections closed)", n.id, k)
				sleepR(2000, 4000)
				healAndSettle()
			}
		case "split":
			// one follower <-> leader link only: the follower still reaches the others, times out, campaigns with a higher term
			l := c.leader()
			if fs := followers(); l != nil && len(fs) > 0 {
				n := fs[rng.Intn(len(fs))]
				k := c.cut(l.id, n.id)
				note("split: link leader %d <-> follower %d cut (%d open connections closed)", l.id, n.id, k)
				sleepR(2500, 4500)
				healAndSettle()
			}
		case "isolate-follower-snap":
			// a live follower is cut off while the others cross the snapshot threshold and compact: after the heal it is behind the
			// leader's first log index and must be caught up by MsgSnap (sent through the leader's forwarder)
			if fs := followers(); len(fs) > 0 {
				n := fs[rng.Intn(len(fs))]
				k := c.isolate(n)
				note("isolate follower %d across a snapshot (%d open connections closed)", n.id, k)
				before, loads := c.countLog("compacted log at index"), c.countLog("publishing snapshot at index")
				sleepR(1500, 3000)
				for w := 0; w < 100 && sc.SnapCount > 0 && c.countLog("compacted log at index") < before+4; w++ {
					time.Sleep(100 * time.Millisecond)
				}
				note("the other nodes compacted %d times meanwhile", c.countLog("compacted log at index")-before)
				healAndSettle()
				note("snapshots published by receivers since the cut: %d", c.countLog("publishing snapshot at index")-loads)
			}
		case "kill-follower":
			if fs := followers(); len(fs) > 0 {
				n := fs[rng.Intn(len(fs))]
				c.kill(n)
				note("SIGKILL follower %d", n.id)
				sleepR(300, 1500)
				restart([]*clNode{n})
			}
		case "kill-leader":
			n := c.leader()
			if n == nil {
				n = c.nodes[rng.Intn(sc.Nodes)]
			}
			c.kill(n)
			note("SIGKILL leader %d", n.id)
			sleepR(300, 2000)
			restart([]*clNode{n})
		case "kill-minority":
			var ns []*clNode
			perm := rng.Perm(sc.Nodes)
			for _, i := range perm[:(sc.Nodes-1)/2] {
				ns = append(ns, c.nodes[i])
			}
			for _, n := range ns {
				sleepR(0, 200)
				c.kill(n)
				note("SIGKILL node %d (minority)", n.id)
			}
			sleepR(300, 1500)
			restart(ns)
		case "kill-all":
			var ns []*clNode
			for _, i := range rng.Perm(len(c.nodes)) {
				if c.nodes[i].member {
					ns = append(ns, c.nodes[i])
				}
			}
			for _, n := range ns {
				sleepR(0, 150)
				c.kill(n)
				note("SIGKILL node %d (all)", n.id)
			}
			sleepR(100, 800)
			restart(ns)
		case "orphan-snap-all-kill":
			// every node is killed; one of them is left with a snapshot FILE its WAL never recorded (the crash point between SaveSnap and
			// wal.SaveSnapshot); after the restart the marker key of that file's image must not exist on any node
			var ns []*clNode
			for _, i := range rng.Perm(len(c.nodes)) {
				if c.nodes[i].member {
					ns = append(ns, c.nodes[i])
				}
			}
			for _, n := range ns {
				sleepR(0, 100)
				c.kill(n)
				note("SIGKILL node %d (all)", n.id)
			}
			planted := 0
			for _, n := range ns {
				if msg, err := plantOrphanSnapshot(n); err == nil {
					note("%s", msg)
					planted++
					if planted == 2 {
						break
					}
				}
			}
			if planted == 0 {
				note("no node had a recorded snapshot yet: nothing planted")
			}
			sleepR(100, 400)
			restart(ns)
			orphanPlanted = planted > 0
		case "lag-follower":
			// a follower is down while the others cross the snapshot threshold and compact: it must be caught up by MsgSnap
			if fs := followers(); len(fs) > 0 {
				n := fs[rng.Intn(len(fs))]
				c.kill(n)
				note("SIGKILL follower %d (kept down across a snapshot)", n.id)
				before := c.countLog("compacted log at index")
				for w := 0; w < 100 && sc.SnapCount > 0 && c.countLog("compacted log at index") < before+4; w++ {
					time.Sleep(100 * time.Millisecond)
				}
				restart([]*clNode{n})
			}
		case "lag-then-all-kill":
			// a follower goes down; the others cross the snapshot threshold and compact; then THEY are killed as well and everybody is
			// restarted together: whoever becomes leader has itself just restarted from its snapshot and must bring the lagging
			// node up to date (by a snapshot that carries the keyspace, not only its index)
			if fs := followers(); len(fs) > 0 {
				lag := fs[rng.Intn(len(fs))]
				c.kill(lag)
				note("SIGKILL follower %d (stays down)", lag.id)
				before := c.countLog("compacted log at index")
				for w := 0; w < 100 && sc.SnapCount > 0 && c.countLog("compacted log at index") < before+4; w++ {
					time.Sleep(100 * time.Millisecond)
				}
				var ns []*clNode
				for _, i := range rng.Perm(len(c.nodes)) {
					if c.nodes[i].member && c.nodes[i] != lag {
						ns = append(ns, c.nodes[i])
					}
				}
				for _, n := range ns {
					sleepR(0, 150)
					c.kill(n)
					note("SIGKILL node %d (rest of the cluster)", n.id)
				}
				sleepR(100, 600)
				restart(append(ns, lag))
			}
		case "add-member":
			nodesMu.Lock()
			n, err := c.addNode(true)
			if err == nil {
				n.member = false
				err = c.writeConfigs(n, true)
			}
			nodesMu.Unlock()
			if err != nil {
				problem("start-failed", "add-member: "+err.Error())
				break
			}
			var out string
			for try := 0; try < 10; try++ {
				via := c.nodes[rng.Intn(sc.Nodes)]
				out, err = c.once(via, 2*time.Second, "rconf", "add", strconv.Itoa(n.id), c.peers[n.id-1])
				if err == nil {
					break
				}
				time.Sleep(200 * time.Millisecond)
			}
			note("rconf add %d %s -> %q %v", n.id, c.peers[n.id-1], strings.TrimSpace(out), err)
			sleepR(200, 600)
			if err := c.start(n); err != nil {
				problem("start-failed", fmt.Sprintf("new member %d: %v", n.id, err))
				break
			}
			if err := c.waitServing([]*clNode{n}, 30*time.Second); err != nil {
				problem("unavailable", "new member: "+err.Error())
				break
			}
			nodesMu.Lock()
			n.member = true
			nodesMu.Unlock()
			note("member %d serves", n.id)
		case "del-member":
			// remove the highest-numbered member; the removed node shuts itself down, which is its specified behaviour
			n := c.nodes[len(c.nodes)-1]
			nodesMu.Lock()
			n.member = false
			nodesMu.Unlock()
			n.mu.Lock()
			n.expected = true
			n.mu.Unlock()
			via := c.nodes[0]
			out, err := c.once(via, 2*time.Second, "rconf", "delete", strconv.Itoa(n.id))
			note("rconf delete %d -> %q %v", n.id, strings.TrimSpace(out), err)
		}
	}
	if d := time.Until(loadEnd); d > 0 {
		time.Sleep(d)
	}
	c.healAll()
	stop.Store(true)
	wg.Wait()
	if c.links != nil {
		piped, refused, severed := c.linkStats()
		rep.Links = map[string]int{"forwarders": len(c.links), "connections_piped": piped, "closed_by_cut": severed, "closed_on_arrival_while_cut": refused}
	}

	// quiescence: every member runs, every member serves, then every key is read through every member
	var live []*clNode
	for _, n := range c.nodes {
		if n.member {
			if !n.isAlive() {
				c.diedMu.Lock()
				spont := len(c.died) > 0
				c.diedMu.Unlock()
				if !spont {
					c.start(n)
				}
			}
			live = append(live, n)
		}
	}
	rep.Snapshots = c.countLog("start snapshot [applied index")
	rep.SnapLoads = c.countLog("publishing snapshot at index")
	c.diedMu.Lock()
	died := append([]string(nil), c.died...)
	c.diedMu.Unlock()
	for _, d := range died {
		problem("node-died", d)
	}
	for _, o := range hist {
		if o.Out == "?" {
			rep.Unknown++
		} else {
			rep.Acked++
		}
	}
	if len(died) > 0 {
		rep.History = nil
		return
	}
	if err := c.waitServing(live, 60*time.Second); err != nil {
		problem("unavailable", err.Error())
		logTails()
		return
	}
	rep.Final = map[string]map[string]string{}
	keyNames := make([]string, 0, len(keys))
	for k := range keys {
		keyNames = append(keyNames, k)
	}
	sort.Strings(keyNames)
	for _, k := range keyNames {
		rep.Final[k] = map[string]string{}
		for _, n := range live {
			call := c.now()
			st, err := c.readState(n, k, keys[k])
			ret := c.now()
			if err != nil {
				problem("unavailable", fmt.Sprintf("final read of %s through node %d: %v", k, n.id, err))
				continue
			}
			rep.Final[k][strconv.Itoa(n.id)] = st
			hist = append(hist, clOp{Client: 1000 + n.id, Node: n.id, Cmd: []string{"FINAL", k}, Key: k, Out: st, Call: call, Ret: ret})
		}
	}
	// a node that died during the final reads
	c.diedMu.Lock()
	for _, d := range c.died[len(died):] {
		problem("node-died", d)
	}
	c.diedMu.Unlock()

	// (d) replicas agree
	for _, k := range keyNames {
		vals := map[string][]string{}
		for id, st := range rep.Final[k] {
			vals[st] = append(vals[st], id)
		}
		if len(vals) > 1 {
			var parts []string
			for st, ids := range vals {
				sort.Strings(ids)
				s := st
				if len(s) > 300 {
					s = s[:300] + "..."
				}
				parts = append(parts, fmt.Sprintf("nodes %s: %s", strings.Join(ids, ","), s))
			}
			sort.Strings(parts)
			problem("replicas-disagree", fmt.Sprintf("key %s at quiescence: %s", k, strings.Join(parts, " | ")))
		}
	}
	// (d') a snapshot file the WAL never recorded was planted: its image (the marker key) must not have become anybody's keyspace
	if orphanPlanted {
		for _, n := range c.nodes {
			if !n.member || !n.isAlive() {
				continue
			}
			if out, err := c.once(n, 3*time.Second, "GET", "orphan-marker"); err == nil && out != "$-1\r\n" {
				problem("lost-write", fmt.Sprintf("node %d started from a snapshot FILE its WAL never recorded (the crash point between SaveSnap and wal.SaveSnapshot): GET orphan-marker = %q; "+
					"raft replays the log from the newest RECORDED snapshot, the keyspace must start from the same one", n.id, out))
			}
		}
	}
	// (e) ledger: INCR-only counter and SADD-only set, counted independently of the linearizability checker
	if _, ok := keys["n1"]; ok {
		rep.Ledger = map[string]string{}
		ackI, unkI := 0, 0
		ackM, unkM := map[string]bool{}, map[string]bool{}
		for _, o := range hist {
			switch {
			case o.Key == "n1" && o.Cmd[0] == "INCR":
				if o.Out == "?" {
					unkI++
				} else {
					ackI++
				}
			case o.Key == "u1" && o.Cmd[0] == "SADD":
				if o.Out == "?" {
					unkM[o.Cmd[2]] = true
				} else {
					ackM[o.Cmd[2]] = true
				}
			}
		}
		rep.Ledger["incr_acked"], rep.Ledger["incr_unknown"] = strconv.Itoa(ackI), strconv.Itoa(unkI)
		rep.Ledger["sadd_acked"], rep.Ledger["sadd_unknown"] = strconv.Itoa(len(ackM)), strconv.Itoa(len(unkM))
		for id, st := range rep.Final["n1"] {
			v := int64(0)
			if strings.HasPrefix(st, "s:") {
				v, _ = strconv.ParseInt(st[2:], 10, 64)
			}
			rep.Ledger["n1@"+id] = strconv.FormatInt(v, 10)
			if v < int64(ackI) || v > int64(ackI+unkI) {
				problem("lost-write", fmt.Sprintf("counter n1 read through node %s is %d after %d acknowledged and %d unacknowledged INCRs (must lie in [%d,%d])", id, v, ackI, unkI, ackI, ackI+unkI))
			}
		}
		for id, st := range rep.Final["u1"] {
			have := map[string]bool{}
			if strings.HasPrefix(st, "t:") {
				for _, m := range strings.Split(st[2:], ",") {
					have[m] = true
				}
			}
			var missing, alien []string
			for m := range ackM {
				if !have[m] {
					missing = append(missing, m)
				}
			}
			for m := range have {
				if !ackM[m] && !unkM[m] {
					alien = append(alien, m)
				}
			}
			sort.Strings(missing)
			if len(missing) > 0 {
				show := missing
				if len(show) > 8 {
					show = show[:8]
				}
				problem("lost-write", fmt.Sprintf("set u1 read through node %s lacks %d of %d acknowledged SADD members, e.g. %v", id, len(missing), len(ackM), show))
			}
			if len(alien) > 0 {
				problem("replicas-disagree", fmt.Sprintf("set u1 on node %s holds members nobody added: %v", id, alien))
			}
		}
	}
	// (b) replies of the right shape for the command (kvStep decides the value; here only the RESP type)
	// (c) linearizability per key
	byKey := map[string][]porcupine.Operation{}
	for _, o := range hist {
		op := strings.ToLower(o.Cmd[0])
		arg := ""
		if len(o.Cmd) > 2 {
			arg = o.Cmd[2]
		}
		if o.Out == "?" && isReadOp(op) {
			continue // a read whose reply never arrived constrains nothing
		}
		byKey[o.Key] = append(byKey[o.Key], porcupine.Operation{ClientId: o.Client % 1000, Input: kvInput{Op: op, Arg: arg}, Call: o.Call, Output: o.Out, Return: o.Ret})
	}
	for _, k := range keyNames {
		ops := byKey[k]
		if len(ops) == 0 {
			continue
		}
		res := porcupine.CheckOperationsTimeout(clModel, ops, 25*time.Second)
		switch res {
		case porcupine.Ok:
			rep.KeysLin++
		case porcupine.Unknown:
			rep.Inconcl++
		case porcupine.Illegal:
			rep.KeysLin++
			problem("not-linearizable", fmt.Sprintf("no sequential order of the %d operations on key %s (acknowledged replies + final reads on every node) explains the replies", len(ops), k))
			if len(rep.History) == 0 {
				for _, o := range hist {
					if o.Key == k {
						rep.History = append(rep.History, o)
					}
				}
				sort.Slice(rep.History, func(i, j int) bool { return rep.History[i].Call < rep.History[j].Call })
				rep.Excerpt = append([]string{"key " + k + ":"}, clExplain(rep.History)...)
				if len(rep.History) > 400 {
					rep.History = rep.History[len(rep.History)-400:]
				}
			}
		}
	}
	rep.AgreeKeys, rep.NodesRead = 0, len(live)
	for _, k := range keyNames {
		same := true
		for _, st := range rep.Final[k] {
			for _, st2 := range rep.Final[k] {
				same = same && st == st2
			}
		}
		if same && len(rep.Final[k]) == len(live) {
			rep.AgreeKeys++
		}
	}
	if os.Getenv("VERIF_CLUSTER_HISTORY") != "" && len(rep.History) == 0 {
		// debugging aid: the whole history of a scenario without a linearizability problem
		rep.History = append([]clOp(nil), hist...)
		sort.Slice(rep.History, func(i, j int) bool { return rep.History[i].Call < rep.History[j].Call })
	}
	if len(rep.Problems) > 0 {
		logTails()
	} else {
		rep.Final = nil // all nodes agree on all keys: the values themselves are not evidence
	}
	return
}

// ---- minimal separate scenarios (known divergences and repros); rep.Result = demo-diverged | demo-agrees | a problem kind

func runClusterDemo(c *cluster, sc clScenario, rep *clReport, problem func(kind, detail string)) {
	n1 := c.nodes[0]
	must := func(n *clNode, argv ...string) string {
		for try := 0; try < 20; try++ {
			out, err := c.once(n, 2*time.Second, argv...)
			if err == nil {
				return out
			}
			time.Sleep(200 * time.Millisecond)
		}
		return "?"
	}
	perNode := func(argv ...string) map[string]string {
		m := map[string]string{}
		for _, n := range c.nodes {
			m[strconv.Itoa(n.id)] = must(n, argv...)
		}
		return m
	}
	differ := func(m map[string]string) bool {
		first, set := "", false
		for _, v := range m {
			if !set {
				first, set = v, true
			} else if v != first {
				return true
			}
		}
		return false
	}
	show := func(m map[string]string) string {
		ids := make([]string, 0, len(m))
		for id := range m {
			ids = append(ids, id)
		}
		sort.Strings(ids)
		var parts []string
		for _, id := range ids {
			v := m[id]
			if len(v) > 200 {
				v = v[:200] + "..."
			}
			parts = append(parts, fmt.Sprintf("node %s: %q", id, v))
		}
		return strings.Join(parts, " | ")
	}
	conclude := func(diverged bool, detail string) {
		rep.DemoDetail = detail
		if diverged {
			rep.Result = "demo-diverged"
		} else {
			rep.Result = "demo-agrees"
		}
	}
	switch sc.Demo {
	case "ttl":
		// a follower is down while "SET k v EX 100" is acknowledged; it replays the entry 3 s later with its own clock
		f := c.nodes[len(c.nodes)-1]
		c.kill(f)
		rep.Faults = append(rep.Faults, fmt.Sprintf("SIGKILL node %d", f.id))
		out := must(n1, "SET", "k", "v", "EX", "100")
		time.Sleep(3 * time.Second)
		c.start(f)
		rep.Faults = append(rep.Faults, fmt.Sprintf("restart node %d", f.id))
		if err := c.waitServing(c.nodes, 40*time.Second); err != nil {
			problem("unavailable", err.Error())
			return
		}
		m := perNode("TTL", "k")
		lo, hi := int64(math.MaxInt64), int64(math.MinInt64)
		for _, v := range m {
			t, _ := strconv.ParseInt(strings.TrimSpace(strings.TrimPrefix(v, ":")), 10, 64)
			if t < lo {
				lo = t
			}
			if t > hi {
				hi = t
			}
		}
		conclude(hi-lo >= 2, fmt.Sprintf("SET k v EX 100 -> %q acknowledged with node %d down; node %d restarted 3 s later; TTL k: %s", strings.TrimSpace(out), f.id, f.id, show(m)))
	case "spop":
		args := []string{"SADD", "s"}
		for i := 0; i < 16; i++ {
			args = append(args, fmt.Sprintf("m%02d", i))
		}
		must(n1, args...)
		out := must(n1, "SPOP", "s", "8")
		m := map[string]string{}
		for _, n := range c.nodes {
			st, _ := c.readState(n, "s", "t")
			m[strconv.Itoa(n.id)] = st
		}
		items, _ := bulkStrings(out)
		sort.Strings(items)
		conclude(differ(m), fmt.Sprintf("SADD s m00..m15; SPOP s 8 -> %v; SMEMBERS s: %s", items, show(m)))
	case "xadd":
		// a follower is down while "XADD x * f v" is acknowledged; it replays the entry later and stamps it with its own clock
		f := c.nodes[len(c.nodes)-1]
		c.kill(f)
		rep.Faults = append(rep.Faults, fmt.Sprintf("SIGKILL node %d", f.id))
		out := must(n1, "XADD", "x", "*", "f", "v")
		time.Sleep(1200 * time.Millisecond)
		c.start(f)
		rep.Faults = append(rep.Faults, fmt.Sprintf("restart node %d", f.id))
		if err := c.waitServing(c.nodes, 40*time.Second); err != nil {
			problem("unavailable", err.Error())
			return
		}
		m := perNode("XRANGE", "x", "-", "+")
		ids := map[string]string{}
		re := regexp.MustCompile(`\d{10,}-\d+`)
		for id, v := range m {
			ids[id] = strings.Join(re.FindAllString(v, -1), ",")
		}
		conclude(differ(ids), fmt.Sprintf("XADD x * f v -> %q acknowledged with node %d down; node %d restarted 1.2 s later; entry IDs of XRANGE x - +: %s", strings.TrimSpace(out), f.id, f.id, show(ids)))
	case "listsnap":
		// a keyspace that contains a list, then enough writes to cross the snapshot threshold
		must(n1, "RPUSH", "l", "a")
		for i := 0; i < sc.SnapCount+15; i++ {
			must(n1, "SET", "k", strconv.Itoa(i))
			c.diedMu.Lock()
			d := len(c.died)
			c.diedMu.Unlock()
			if d > 0 {
				break
			}
		}
		time.Sleep(500 * time.Millisecond)
		c.diedMu.Lock()
		d := len(c.died)
		c.diedMu.Unlock()
		conclude(d > 0, fmt.Sprintf("RPUSH l a; %d x SET k <i> with VERIF_SNAPCOUNT=%d: %d node(s) exited on their own", sc.SnapCount+15, sc.SnapCount, d))
		if d > 0 {
			c.diedMu.Lock()
			rep.DemoDetail += "\n" + c.died[0]
			c.died = nil // reported through the demo result
			c.diedMu.Unlock()
		}
	case "snaprestart":
		// acknowledged writes, snapshot + compaction, then a full-cluster kill and restart
		want := map[string]string{}
		for i := 0; i < 6; i++ {
			k := fmt.Sprintf("early%d", i)
			must(n1, "SET", k, "v"+strconv.Itoa(i))
			want[k] = "s:v" + strconv.Itoa(i)
		}
		must(n1, "SADD", "eset", "a", "b")
		must(n1, "HSET", "ehash", "f", "v")
		for i := 0; i < 3*sc.SnapCount; i++ {
			must(n1, "INCR", "ctr")
		}
		want["ctr"] = "s:" + strconv.Itoa(3*sc.SnapCount)
		snaps := c.countLog("compacted log at index")
		c.killAll()
		rep.Faults = append(rep.Faults, "SIGKILL all nodes", "restart all nodes")
		for _, n := range c.nodes {
			c.start(n)
		}
		if err := c.waitServing(c.nodes, 60*time.Second); err != nil {
			problem("unavailable", err.Error())
			return
		}
		var lost []string
		for _, n := range c.nodes {
			for k, w := range want {
				st, _ := c.readState(n, k, "s")
				if st != w {
					lost = append(lost, fmt.Sprintf("node %d %s=%s (acknowledged %s)", n.id, k, st, w))
				}
			}
			if st, _ := c.readState(n, "eset", "t"); st != "t:a,b" {
				lost = append(lost, fmt.Sprintf("node %d eset=%s (acknowledged t:a,b)", n.id, st))
			}
			if out := must(n, "HGET", "ehash", "f"); out != "$1\r\nv\r\n" {
				lost = append(lost, fmt.Sprintf("node %d HGET ehash f=%q (acknowledged v)", n.id, out))
			}
		}
		sort.Strings(lost)
		more := ""
		if len(lost) > 8 {
			more = fmt.Sprintf(" ... (%d in all)", len(lost))
			lost = lost[:8]
		}
		conclude(len(lost) > 0, fmt.Sprintf("6 x SET early<i>, SADD eset a b, HSET ehash f v, %d x INCR ctr (VERIF_SNAPCOUNT=%d, %d compactions logged), all acknowledged; SIGKILL all nodes, restart: %s%s",
			3*sc.SnapCount, sc.SnapCount, snaps, strings.Join(lost, "; "), more))
	case "snaplag":
		// a follower is down while the others snapshot and compact: it is caught up with MsgSnap
		f := c.nodes[len(c.nodes)-1]
		must(n1, "SET", "early", "v")
		c.kill(f)
		rep.Faults = append(rep.Faults, fmt.Sprintf("SIGKILL node %d", f.id))
		for i := 0; i < 4*sc.SnapCount; i++ {
			must(n1, "INCR", "ctr")
		}
		c.start(f)
		rep.Faults = append(rep.Faults, fmt.Sprintf("restart node %d", f.id))
		if err := c.waitServing(c.nodes, 60*time.Second); err != nil {
			problem("unavailable", err.Error())
			return
		}
		m1, m2 := map[string]string{}, map[string]string{}
		for _, n := range c.nodes {
			m1[strconv.Itoa(n.id)], _ = c.readState(n, "early", "s")
			m2[strconv.Itoa(n.id)], _ = c.readState(n, "ctr", "s")
		}
		conclude(differ(m1) || differ(m2), fmt.Sprintf("SET early v; SIGKILL node %d; %d x INCR ctr (VERIF_SNAPCOUNT=%d); restart node %d (snapshots received: %d); GET early: %s; GET ctr: %s",
			f.id, 4*sc.SnapCount, sc.SnapCount, f.id, c.countLog("publishing snapshot at index"), show(m1), show(m2)))
	case "memberurl":
		// a member added with rconf is known to the others only through the conf-change entry; once that entry is compacted away
		// and the old members restart, nobody knows the new member's URL any more
		n4, err := c.addNode(true)
		if err == nil {
			err = c.writeConfigs(n4, true)
		}
		if err != nil {
			problem("start-failed", err.Error())
			return
		}
		out := must(n1, "rconf", "add", strconv.Itoa(n4.id), c.peers[n4.id-1])
		c.start(n4)
		if err := c.waitServing([]*clNode{n4}, 30*time.Second); err != nil {
			problem("unavailable", "new member before the restart: "+err.Error())
			return
		}
		for i := 0; i < 3*sc.SnapCount; i++ {
			must(n1, "INCR", "ctr")
		}
		c.killAll()
		rep.Faults = append(rep.Faults, "rconf add 4", "SIGKILL all nodes", "restart all nodes")
		for _, n := range c.nodes {
			c.start(n)
		}
		if err := c.waitServing(c.nodes[:3], 60*time.Second); err != nil {
			problem("unavailable", err.Error())
			return
		}
		err4 := c.waitServing([]*clNode{n4}, 12*time.Second)
		v4 := "no reply"
		if err4 == nil {
			v4, _ = c.readState(n4, "ctr", "s")
		}
		v1, _ := c.readState(n1, "ctr", "s")
		conclude(err4 != nil || v4 != v1, fmt.Sprintf("rconf add 4 %s -> %q; node 4 joined and served; %d x INCR ctr (VERIF_SNAPCOUNT=%d); SIGKILL all, restart all: GET ctr through node 1: %s, through node 4: %s (%v); nodes 1-3 log %d x \"failed to find remote peer in cluster\"",
			c.peers[n4.id-1], strings.TrimSpace(out), 3*sc.SnapCount, sc.SnapCount, v1, v4, err4, c.countLog("failed to find remote peer in cluster")))
	case "joint":
		// informational: rconf proposes an EXPLICIT joint configuration change and nothing ever leaves the joint state, so a
		// second membership change is refused by raft (safety is not affected; the cluster keeps committing)
		n4, err := c.addNode(true)
		if err == nil {
			err = c.writeConfigs(n4, true)
		}
		if err != nil {
			problem("start-failed", err.Error())
			return
		}
		out1 := must(n1, "rconf", "add", strconv.Itoa(n4.id), c.peers[n4.id-1])
		c.start(n4)
		if err := c.waitServing([]*clNode{n4}, 30*time.Second); err != nil {
			problem("unavailable", "new member: "+err.Error())
			return
		}
		n4.mu.Lock()
		n4.expected = true
		n4.mu.Unlock()
		out2 := must(n1, "rconf", "delete", strconv.Itoa(n4.id))
		time.Sleep(3 * time.Second)
		still := n4.isAlive()
		refused := c.countLog("must transition out of joint config first") + c.countLog("possible unapplied conf change")
		conclude(still, fmt.Sprintf("rconf add 4 -> %q; node 4 serves; rconf delete 4 -> %q; 3 s later node 4 still runs: %v; raft log lines refusing the change: %d; GET through node 1: %q",
			strings.TrimSpace(out1), strings.TrimSpace(out2), still, refused, must(n1, "GET", "__barrier")))
	default:
		problem("start-failed", "unknown demo "+sc.Demo)
	}
}

func runCluster(args []string) {
	if len(args) < 4 {
		fmt.Fprintln(os.Stderr, "usage: harness cluster <server-binary> <scratch-dir> <seed> <scenario-json>...")
		os.Exit(2)
	}
	bin, scratch := args[0], args[1]
	seed, _ := strconv.ParseInt(args[2], 10, 64)
	// on SIGTERM/SIGINT: kill every recorded child by PID, then leave
	sigs := make(chan os.Signal, 1)
	signal.Notify(sigs, syscall.SIGTERM, syscall.SIGINT)
	go func() {
		<-sigs
		clAllPids.Range(func(k, v interface{}) bool { syscall.Kill(k.(int), syscall.SIGKILL); return true })
		os.Exit(3)
	}()
	enc := json.NewEncoder(os.Stdout)
	for i, a := range args[3:] {
		var sc clScenario
		if err := json.Unmarshal([]byte(a), &sc); err != nil {
			enc.Encode(clReport{Scenario: a, Result: "start-failed", Problems: []clProblem{{"start-failed", "bad scenario json: " + err.Error()}}})
			continue
		}
		func() {
			defer func() {
				if e := recover(); e != nil {
					clAllPids.Range(func(k, v interface{}) bool { syscall.Kill(k.(int), syscall.SIGKILL); return true })
					enc.Encode(clReport{Scenario: sc.Name, Seed: seed + int64(i), Result: "start-failed", Problems: []clProblem{{"start-failed", fmt.Sprintf("harness panic: %v", e)}}})
				}
			}()
			enc.Encode(runClusterScenario(bin, scratch, seed+int64(i), sc))
		}()
	}
}
