package main

// Fact F3 — the inventory of panic-capable expressions of /repo's own packages, regenerated from the SOURCE on every run
// (go/parser + go/ast + go/types, standard library only; type checking is lenient: packages outside the repository and the standard
// library are not loaded, an expression whose type is therefore unknown is treated as panic-capable).
//
// Recorded: every index expression and slice expression whose operand is not a map, every type assertion without `, ok`, every
// `make` of a slice / channel whose size is not provably non-negative, every integer division / modulo by a non-constant.
//
// Each site gets a class:
//   const    x[c], x[len(x)-k], x[a:b] … with constant bounds on a local identifier x (or a fixed-size array): the extractor reports
//            (needed, minLen) — the length the access needs and the minimum len(x) guaranteed at that point by the guards that
//            dominate it.  Lean re-proves needed ≤ minLen for every such site on every run (Sites.const_sites_safe).
//   rel      x[v+d] with an integer local v: reported as (needed = d+1, minLen = c) where the dominating guards give
//            len(x) ≥ v + c (loop conditions `i < len(x)`, `range x`, `if i >= len(x) { return }`, …) and v + d ≥ 0 is established
//            from v's lower bound (constant initialisation, only incremented).  Same Lean obligation (Sites.rel_sites_safe).
//   dynamic  everything else: no bound established — NEVER guessed.  Lean compares the list with a hand-reviewed one.
//
// The analysis is a forward abstract interpretation over the structured AST (functions with goto / labelled branches get no
// facts at all).  A fact about x lives only while x is not assigned; variables whose address is taken or that are assigned
// inside a closure are never tracked; loops start from the entry state minus everything assigned anywhere in the loop
// (a variable that is only ever incremented in the loop keeps its lower bound); the state after a loop / switch with `break`
// is the weakened entry state.  Closures inherit only facts about variables that are never re-assigned in the enclosing function.
// Trusted: this extractor (the abstract interpretation is not verified) and Go's int arithmetic not overflowing on counters
// (a fact `len(x) ≥ v + c` is derived from `v + k < len(x)` with k > 0 only when every assignment to v in the function is a
// constant, an increment by a constant, or a length expression).

import (
	"bytes"
	"fmt"
	"go/ast"
	"go/build"
	"go/constant"
	"go/importer"
	"go/parser"
	"go/printer"
	"go/token"
	"go/types"
	"math"
	"os"
	"path/filepath"
	"sort"
	"strconv"
	"strings"
)

type siteOut struct {
	File   string `json:"file"`
	Func   string `json:"func"`
	Line   int    `json:"line"`
	Text   string `json:"text"`
	Kind   string `json:"kind"`  // index | slice | assert | make | div
	Class  string `json:"class"` // const | rel | dynamic
	Needed int64  `json:"needed"`
	MinLen int64  `json:"minlen"`
	Base   string `json:"base,omitempty"`
}

// ------------------------------------------------------------------------------------------------ length sets

const inf = math.MaxInt64

type ival struct{ lo, hi int64 }
type lenset []ival // sorted, disjoint; nil = empty (infeasible)

func topSet() lenset { return lenset{{0, inf}} }
func (s lenset) isTop() bool {
	return len(s) == 1 && s[0].lo == 0 && s[0].hi == inf
}
func (s lenset) min() int64 { return s[0].lo }
func (s lenset) max() int64 { return s[len(s)-1].hi }

func norm(s lenset) lenset {
	sort.Slice(s, func(i, j int) bool { return s[i].lo < s[j].lo })
	var out lenset
	for _, iv := range s {
		if iv.lo > iv.hi {
			continue
		}
		if n := len(out); n > 0 && (out[n-1].hi == inf || iv.lo <= out[n-1].hi+1) {
			if iv.hi > out[n-1].hi {
				out[n-1].hi = iv.hi
			}
			continue
		}
		out = append(out, iv)
	}
	return out
}

func unionSet(a, b lenset) lenset {
	return norm(append(append(lenset{}, a...), b...))
}

func interSet(a, b lenset) lenset {
	var out lenset
	for _, x := range a {
		for _, y := range b {
			lo, hi := x.lo, x.hi
			if y.lo > lo {
				lo = y.lo
			}
			if y.hi < hi {
				hi = y.hi
			}
			if lo <= hi {
				out = append(out, ival{lo, hi})
			}
		}
	}
	return norm(out)
}

// {n ≥ 0 | n op k}
func setOf(op token.Token, k int64) lenset {
	switch op {
	case token.LSS:
		return norm(lenset{{0, k - 1}})
	case token.LEQ:
		return norm(lenset{{0, k}})
	case token.GTR:
		if k < 0 {
			return topSet()
		}
		if k == inf {
			return nil
		}
		return lenset{{k + 1, inf}}
	case token.GEQ:
		if k < 0 {
			return topSet()
		}
		return lenset{{k, inf}}
	case token.EQL:
		if k < 0 {
			return nil
		}
		return lenset{{k, k}}
	case token.NEQ:
		if k < 0 {
			return topSet()
		}
		if k == inf {
			return lenset{{0, inf - 1}}
		}
		return norm(lenset{{0, k - 1}, {k + 1, inf}})
	}
	return topSet()
}

func shiftSet(s lenset, d int64) lenset { // {n - d | n ∈ s, n ≥ d}
	var out lenset
	for _, iv := range s {
		lo, hi := iv.lo-d, iv.hi
		if hi != inf {
			hi -= d
		}
		if lo < 0 {
			lo = 0
		}
		out = append(out, ival{lo, hi})
	}
	return norm(out)
}

// ------------------------------------------------------------------------------------------------ abstract state

type relKey struct{ x, v types.Object }

type state struct {
	dead   bool
	lens   map[types.Object]lenset
	lo     map[types.Object]int64
	hi     map[types.Object]int64
	rel    map[relKey]int64              // len(x) ≥ v + c
	alias  map[types.Object]types.Object // n == len(x)
	par    map[types.Object]int          // parity of len(x) (slice / string variables) or of v (integer variables)
	lge    map[relKey]int64              // len(x) ≥ len(v) + c   (v a slice / string variable here)
	nonNil map[types.Object]bool         // v is known present / non-nil (its `ok` flag was tested, or v != nil)
	okOf   map[types.Object]types.Object // ok flag ↦ the value it was returned with (`v, ok := f()`)
	nilSrc map[types.Object]string       // v was assigned from a call of a function that can return nil (callee name)
}

func newState() *state {
	return &state{lens: map[types.Object]lenset{}, lo: map[types.Object]int64{}, hi: map[types.Object]int64{},
		rel: map[relKey]int64{}, alias: map[types.Object]types.Object{}, par: map[types.Object]int{},
		lge: map[relKey]int64{}, nonNil: map[types.Object]bool{}, okOf: map[types.Object]types.Object{}, nilSrc: map[types.Object]string{}}
}

func deadState() *state { s := newState(); s.dead = true; return s }

func (s *state) clone() *state {
	n := newState()
	n.dead = s.dead
	for k, v := range s.lens {
		n.lens[k] = v
	}
	for k, v := range s.lo {
		n.lo[k] = v
	}
	for k, v := range s.hi {
		n.hi[k] = v
	}
	for k, v := range s.rel {
		n.rel[k] = v
	}
	for k, v := range s.alias {
		n.alias[k] = v
	}
	for k, v := range s.par {
		n.par[k] = v
	}
	for k, v := range s.lge {
		n.lge[k] = v
	}
	for k, v := range s.nonNil {
		n.nonNil[k] = v
	}
	for k, v := range s.okOf {
		n.okOf[k] = v
	}
	for k, v := range s.nilSrc {
		n.nilSrc[k] = v
	}
	return n
}

func joinState(a, b *state) *state {
	if a == nil || a.dead {
		if b == nil {
			return deadState()
		}
		return b
	}
	if b == nil || b.dead {
		return a
	}
	n := newState()
	for k, v := range a.lens {
		if w, ok := b.lens[k]; ok {
			if u := unionSet(v, w); !u.isTop() {
				n.lens[k] = u
			}
		}
	}
	for k, v := range a.lo {
		if w, ok := b.lo[k]; ok {
			if w < v {
				v = w
			}
			n.lo[k] = v
		}
	}
	for k, v := range a.hi {
		if w, ok := b.hi[k]; ok {
			if w > v {
				v = w
			}
			n.hi[k] = v
		}
	}
	for k, v := range a.rel {
		if w, ok := b.rel[k]; ok {
			if w < v {
				v = w
			}
			n.rel[k] = v
		}
	}
	for k, v := range a.alias {
		if w, ok := b.alias[k]; ok && w == v {
			n.alias[k] = v
		}
	}
	for k, v := range a.par {
		if w, ok := b.par[k]; ok && w == v {
			n.par[k] = v
		}
	}
	for k, v := range a.lge {
		if w, ok := b.lge[k]; ok {
			if w < v {
				v = w
			}
			n.lge[k] = v
		}
	}
	for k := range a.nonNil {
		if b.nonNil[k] {
			n.nonNil[k] = true
		}
	}
	for k, v := range a.okOf {
		if b.okOf[k] == v {
			n.okOf[k] = v
		}
	}
	// may-information: a value that can be nil on either path can be nil after the join
	for k, v := range a.nilSrc {
		n.nilSrc[k] = v
	}
	for k, v := range b.nilSrc {
		n.nilSrc[k] = v
	}
	return n
}

var killHook func(obj types.Object) []types.Object

// forget everything known about obj (it was assigned), and about the field paths that hang off it
func (s *state) kill(obj types.Object) {
	s.kill1(obj)
	if killHook != nil {
		for _, d := range killHook(obj) {
			s.kill1(d)
		}
	}
}

func (s *state) kill1(obj types.Object) {
	delete(s.lens, obj)
	delete(s.lo, obj)
	delete(s.hi, obj)
	delete(s.alias, obj)
	delete(s.par, obj)
	for k, x := range s.alias {
		if x == obj {
			delete(s.alias, k)
		}
	}
	for k := range s.rel {
		if k.x == obj || k.v == obj {
			delete(s.rel, k)
		}
	}
	for k := range s.lge {
		if k.x == obj || k.v == obj {
			delete(s.lge, k)
		}
	}
	delete(s.nonNil, obj)
	delete(s.nilSrc, obj)
	delete(s.okOf, obj)
	for k, v := range s.okOf {
		if v == obj {
			delete(s.okOf, k)
		}
	}
}

// v := v + d
func (s *state) shift(v types.Object, d int64) {
	if x, ok := s.lo[v]; ok {
		s.lo[v] = x + d
	}
	if x, ok := s.hi[v]; ok {
		s.hi[v] = x + d
	}
	delete(s.alias, v)
	if p, ok := s.par[v]; ok && d%2 != 0 {
		s.par[v] = 1 - p
	}
	for k, c := range s.rel {
		if k.v == v {
			s.rel[k] = c - d
		}
	}
}

func (s *state) refineLen(x types.Object, set lenset) {
	cur, ok := s.lens[x]
	if !ok {
		cur = topSet()
	}
	cur = interSet(cur, set)
	if cur == nil {
		s.dead = true
		return
	}
	if cur.isTop() {
		delete(s.lens, x)
	} else {
		s.lens[x] = cur
	}
}

func (s *state) minLen(x types.Object) (int64, bool) {
	best, found := int64(0), false
	if l, ok := s.lens[x]; ok && len(l) > 0 {
		best, found = l.min(), true
	}
	for k, c := range s.lge { // len(x) ≥ len(z) + c
		if k.x != x {
			continue
		}
		if l, ok := s.lens[k.v]; ok && len(l) > 0 && (l.min()+c > best || !found) && l.min()+c >= 0 {
			best, found = l.min()+c, true
		}
	}
	return best, found
}

// ------------------------------------------------------------------------------------------------ package loading

type loadedPkg struct {
	pkg   *types.Package
	files []*ast.File
	names []string
	info  *types.Info
}

type loader struct {
	repo  string
	fset  *token.FileSet
	std   types.Importer
	cache map[string]*loadedPkg
}

var etcdMods = []string{"api", "client/pkg", "client/v2", "client/v3", "pkg", "raft", "server"}

func (l *loader) dirOf(path string) string {
	const self = "github.com/innovationb1ue/RedisGO/"
	if strings.HasPrefix(path, self) {
		return filepath.Join(l.repo, strings.TrimPrefix(path, self))
	}
	const etcd = "go.etcd.io/etcd/"
	if strings.HasPrefix(path, etcd) {
		rest := strings.TrimPrefix(path, etcd)
		for _, m := range etcdMods {
			mod := m
			if !strings.HasSuffix(m, "/v2") && !strings.HasSuffix(m, "/v3") {
				mod = m + "/v3"
			}
			if rest == mod || strings.HasPrefix(rest, mod+"/") {
				return filepath.Join(l.repo, "etcd", m, strings.TrimPrefix(strings.TrimPrefix(rest, mod), "/"))
			}
		}
	}
	return ""
}

func (l *loader) Import(path string) (*types.Package, error) {
	if path == "unsafe" {
		return types.Unsafe, nil
	}
	if p, ok := l.cache[path]; ok {
		if p == nil {
			return nil, fmt.Errorf("import cycle or failed: %s", path)
		}
		return p.pkg, nil
	}
	if dir := l.dirOf(path); dir != "" {
		l.cache[path] = nil
		p := l.load(dir, path)
		if p == nil {
			return nil, fmt.Errorf("cannot load %s", path)
		}
		l.cache[path] = p
		return p.pkg, nil
	}
	if first := strings.SplitN(path, "/", 2)[0]; !strings.Contains(first, ".") {
		return l.std.Import(path)
	}
	return nil, fmt.Errorf("not loaded: %s", path)
}

func (l *loader) load(dir, path string) *loadedPkg {
	ents, err := os.ReadDir(dir)
	if err != nil {
		return nil
	}
	ctx := build.Default
	ctx.CgoEnabled = false
	lp := &loadedPkg{info: &types.Info{Types: map[ast.Expr]types.TypeAndValue{}, Defs: map[*ast.Ident]types.Object{},
		Uses: map[*ast.Ident]types.Object{}, Selections: map[*ast.SelectorExpr]*types.Selection{}, Implicits: map[ast.Node]types.Object{}}}
	pkgName := ""
	for _, e := range ents {
		name := e.Name()
		if e.IsDir() || !strings.HasSuffix(name, ".go") || strings.HasSuffix(name, "_test.go") {
			continue
		}
		if ok, _ := ctx.MatchFile(dir, name); !ok {
			continue
		}
		f, err := parser.ParseFile(l.fset, filepath.Join(dir, name), nil, parser.ParseComments)
		if err != nil {
			continue
		}
		if pkgName == "" {
			pkgName = f.Name.Name
		}
		if f.Name.Name != pkgName {
			continue
		}
		lp.files = append(lp.files, f)
		lp.names = append(lp.names, name)
	}
	if len(lp.files) == 0 {
		return nil
	}
	conf := types.Config{Importer: l, Error: func(error) {}, FakeImportC: true}
	lp.pkg, _ = conf.Check(path, l.fset, lp.files, lp.info)
	return lp
}

// a file that belongs to the verification hooks (build tag `verif`, either polarity) is not inventoried
func verifFile(name string, f *ast.File) bool {
	if strings.HasPrefix(name, "verif_") {
		return true
	}
	for _, cg := range f.Comments {
		if cg.Pos() > f.Package {
			break
		}
		for _, c := range cg.List {
			if strings.HasPrefix(c.Text, "//go:build") && strings.Contains(c.Text, "verif") {
				return true
			}
		}
	}
	return false
}

// ------------------------------------------------------------------------------------------------ the analyser

type analyser struct {
	fset      *token.FileSet
	info      *types.Info
	pkg       *types.Package
	file      string
	fn        string
	out       *[]siteOut
	untracked map[types.Object]bool // address taken, or assigned inside a closure
	nassign   map[types.Object]int  // non-defining assignments in the enclosing top-level function
	counter   map[types.Object]bool // every assignment is a constant / increment / length expression
	bail      bool                  // goto / labelled branch: no facts
	evenStep  map[types.Object]bool // scratch of assignedIn: every assignment is `+= even constant`
	boolDef   map[types.Object]ast.Expr
	x         *xinfo
	paths     map[string]types.Object       // field paths rooted at a local (`s.timeStamps`, `state.bulkLen`) as pseudo-variables
	pathRoot  map[types.Object]types.Object // pseudo-variable ↦ its root local
	pathKey   map[types.Object]string
	noPath    map[string]bool       // paths whose address is taken
	tainted   map[types.Object]bool // fact F6: locals that (may) hold bytes of the command words (flow-insensitive, per function)
	errTaint  map[types.Object]bool // … error values of calls that received such bytes (callee not known to return constant errors)
}

// what is shared by all packages: the registered executors and how they are called
type xinfo struct {
	execs    map[types.Object]bool // functions registered through RegisterCommand
	escaped  map[types.Object]bool // … that are also used as a value somewhere else
	execType types.Type            // memdb.cmdExecutor
	calls    []execCall
	replies  []replySite           // fact F6
	literal  int                   // line-reply constructor calls whose payload is a compile-time constant
	constErr map[types.Object]bool // functions whose every returned error is nil or an error with a compile-time constant text
	nilable  map[types.Object]bool // functions whose first result (pointer / interface) is nil on some return
	nils     []nilSite
	alias    []aliasSite // fact F7 (sites_alias.go)
}

// Fact F6 — a call of a constructor whose payload is sent as a LINE (simple string `+…`, error `-…`, plain): the payload must not
// contain CR or LF.  Recorded: every such call whose payload is not a compile-time constant string; `client` says that the payload is
// derived from the command words (a [][]byte parameter: cmd[i], string(cmd[i]), strings.ToLower(string(cmd[i])), concatenations,
// fmt.Sprintf with such an argument, the error of a call that received one, locals assigned from any of these — flow-insensitively).
type replySite struct {
	File   string `json:"file"`
	Func   string `json:"func"`
	Line   int    `json:"line"`
	Text   string `json:"text"`
	Client bool   `json:"client"`
	ViaErr bool   `json:"via_err"` // only through the error value of a call that received client bytes (callee not proved to return constant errors)
}

var lineCtors = map[string]bool{"MakeStringData": true, "MakeErrorData": true, "MakeWrongNumberArgs": true, "MakePlainData": true}
var lineTypes = map[string]bool{"StringData": true, "ErrorData": true, "PlainData": true}

func isTaintType(t types.Type) bool {
	if t == nil {
		return false
	}
	switch u := t.Underlying().(type) {
	case *types.Basic:
		return u.Info()&types.IsString != 0 || u.Kind() == types.Invalid
	case *types.Slice:
		if b, ok := u.Elem().Underlying().(*types.Basic); ok {
			return b.Kind() == types.Byte || b.Info()&types.IsString != 0
		}
		return isTaintType(u.Elem())
	case *types.Interface:
		return true // error, any, fmt.Stringer …
	}
	return false
}

var errorType = types.Universe.Lookup("error").Type()

func isErrorType(t types.Type) bool { return t != nil && types.Identical(t, errorType) }

// the function a call expression calls, when it is a declared function or method
func (a *analyser) callee(v *ast.CallExpr) types.Object {
	switch f := ast.Unparen(v.Fun).(type) {
	case *ast.Ident:
		if fn, ok := a.info.Uses[f].(*types.Func); ok {
			return fn
		}
	case *ast.SelectorExpr:
		if fn, ok := a.info.Uses[f.Sel].(*types.Func); ok {
			return fn
		}
	}
	return nil
}

// e mentions an error value that stems from a call which received client bytes
func (a *analyser) errTaintedExpr(e ast.Expr) bool {
	found := false
	ast.Inspect(e, func(n ast.Node) bool {
		if id, ok := n.(*ast.Ident); ok {
			if o := a.info.Uses[id]; o != nil && a.errTaint[o] {
				found = true
			}
		}
		return !found
	})
	return found
}

func (a *analyser) taintedExpr(e ast.Expr) bool {
	switch v := ast.Unparen(e).(type) {
	case *ast.Ident:
		if o := a.info.Uses[v]; o != nil {
			return a.tainted[o]
		}
		return a.tainted[a.info.Defs[v]]
	case *ast.IndexExpr:
		return a.taintedExpr(v.X)
	case *ast.SliceExpr:
		return a.taintedExpr(v.X)
	case *ast.StarExpr:
		return a.taintedExpr(v.X)
	case *ast.UnaryExpr:
		return a.taintedExpr(v.X)
	case *ast.BinaryExpr:
		return v.Op == token.ADD && (a.taintedExpr(v.X) || a.taintedExpr(v.Y))
	case *ast.CompositeLit:
		for _, el := range v.Elts {
			if kv, ok := el.(*ast.KeyValueExpr); ok {
				el = kv.Value
			}
			if a.taintedExpr(el) {
				return true
			}
		}
	case *ast.CallExpr:
		if a.builtin(v.Fun, "len") || a.builtin(v.Fun, "cap") {
			return false
		}
		if t := a.info.TypeOf(v); t != nil {
			if tup, ok := t.(*types.Tuple); ok {
				any := false
				for i := 0; i < tup.Len(); i++ {
					any = any || isTaintType(tup.At(i).Type())
				}
				if !any {
					return false
				}
			} else if !isTaintType(t) {
				return false
			}
		}
		for _, arg := range v.Args {
			if a.taintedExpr(arg) {
				return true
			}
		}
		if sel, ok := v.Fun.(*ast.SelectorExpr); ok && a.taintedExpr(sel.X) {
			return true // err.Error(), b.String() …
		}
	}
	return false
}

// flow-insensitive closure of "assigned from something tainted" over one function
func (a *analyser) computeTaint(params *ast.FieldList, body ast.Node) {
	a.tainted = map[types.Object]bool{}
	a.errTaint = map[types.Object]bool{}
	if params != nil {
		for _, f := range params.List {
			for _, n := range f.Names {
				o := a.info.Defs[n]
				if o == nil {
					continue
				}
				if sl, ok := o.Type().Underlying().(*types.Slice); ok {
					if inner, ok := sl.Elem().Underlying().(*types.Slice); ok {
						if b, ok := inner.Elem().Underlying().(*types.Basic); ok && b.Kind() == types.Byte {
							a.tainted[o] = true // the command words
						}
					}
				}
			}
		}
	}
	if len(a.tainted) == 0 || body == nil {
		return
	}
	mark := func(l ast.Expr) bool {
		id, ok := ast.Unparen(l).(*ast.Ident)
		if !ok || id.Name == "_" {
			return false
		}
		o := a.info.Defs[id]
		if o == nil {
			o = a.info.Uses[id]
		}
		if o == nil || a.tainted[o] || a.errTaint[o] || !isTaintType(o.Type()) {
			return false
		}
		a.tainted[o] = true
		return true
	}
	// an error result of a call that received client bytes: not tainted when the callee returns only constant errors
	markCall := func(l ast.Expr, call *ast.CallExpr) bool {
		id, ok := ast.Unparen(l).(*ast.Ident)
		if !ok || id.Name == "_" {
			return false
		}
		o := a.info.Defs[id]
		if o == nil {
			o = a.info.Uses[id]
		}
		if o == nil || !isErrorType(o.Type()) {
			return mark(l)
		}
		if a.tainted[o] || a.errTaint[o] {
			return false
		}
		if fn := a.callee(call); fn != nil && a.x != nil && a.x.constErr[fn] {
			return false
		}
		a.errTaint[o] = true
		return true
	}
	for round := 0; round < 8; round++ {
		changed := false
		ast.Inspect(body, func(n ast.Node) bool {
			switch v := n.(type) {
			case *ast.AssignStmt:
				if len(v.Lhs) == len(v.Rhs) {
					for i := range v.Lhs {
						if !a.taintedExpr(v.Rhs[i]) {
							if a.errTaintedExpr(v.Rhs[i]) && isTaintType(a.info.TypeOf(v.Lhs[i])) {
								if o := a.objOf(v.Lhs[i]); o != nil && !a.errTaint[o] && !a.tainted[o] {
									a.errTaint[o] = true
									changed = true
								}
							}
							continue
						}
						if call, ok := ast.Unparen(v.Rhs[i]).(*ast.CallExpr); ok {
							if markCall(v.Lhs[i], call) {
								changed = true
							}
						} else if mark(v.Lhs[i]) {
							changed = true
						}
					}
				} else if len(v.Rhs) == 1 && a.taintedExpr(v.Rhs[0]) {
					call, _ := ast.Unparen(v.Rhs[0]).(*ast.CallExpr)
					for _, l := range v.Lhs {
						if call != nil {
							if markCall(l, call) {
								changed = true
							}
						} else if mark(l) {
							changed = true
						}
					}
				}
			case *ast.ValueSpec:
				for i, name := range v.Names {
					if len(v.Values) == len(v.Names) && a.taintedExpr(v.Values[i]) && mark(name) {
						changed = true
					} else if len(v.Values) == 1 && len(v.Names) > 1 && a.taintedExpr(v.Values[0]) && mark(name) {
						changed = true
					}
				}
			case *ast.RangeStmt:
				if a.taintedExpr(v.X) && v.Value != nil && mark(v.Value) {
					changed = true
				}
			}
			return true
		})
		if !changed {
			break
		}
	}
}

func (a *analyser) replyCall(v *ast.CallExpr) {
	if a.x == nil {
		return
	}
	var id *ast.Ident
	switch f := v.Fun.(type) {
	case *ast.Ident:
		id = f
	case *ast.SelectorExpr:
		id = f.Sel
	}
	if id == nil || !lineCtors[id.Name] {
		return
	}
	fn, ok := a.info.Uses[id].(*types.Func)
	if !ok || fn.Pkg() == nil || !strings.HasSuffix(fn.Pkg().Path(), "/resp") {
		return
	}
	lit, client, viaErr := true, false, false
	for _, arg := range v.Args {
		if tv, ok := a.info.Types[arg]; !ok || tv.Value == nil {
			lit = false
		}
		if a.taintedExpr(arg) {
			client = true
		}
		if a.errTaintedExpr(arg) {
			viaErr = true
		}
	}
	if lit {
		a.x.literal++
		return
	}
	a.x.replies = append(a.x.replies, replySite{File: a.file, Func: a.fn, Line: a.fset.Position(v.Pos()).Line, Text: a.text(v), Client: client, ViaErr: viaErr && !client})
}

// &resp.ErrorData{data: x} and friends (possible only inside package resp)
func (a *analyser) replyLit(v *ast.CompositeLit) {
	if a.x == nil || lineCtors[a.fn] {
		return
	}
	t := a.info.TypeOf(v)
	if t == nil {
		return
	}
	named, ok := t.(*types.Named)
	if !ok || named.Obj().Pkg() == nil || !strings.HasSuffix(named.Obj().Pkg().Path(), "/resp") || !lineTypes[named.Obj().Name()] {
		return
	}
	for _, el := range v.Elts {
		val := el
		if kv, ok := el.(*ast.KeyValueExpr); ok {
			val = kv.Value
		}
		if tv, ok := a.info.Types[val]; ok && tv.Value != nil {
			a.x.literal++
			continue
		}
		a.x.replies = append(a.x.replies, replySite{File: a.file, Func: a.fn, Line: a.fset.Position(v.Pos()).Line, Text: a.text(v), Client: a.taintedExpr(val)})
	}
}

// every executor is entered with at least this many words (the command name): assumed when an executor is analysed,
// and re-proved in Lean for every call site (Sites.executor_entry_safe)
const execEntryMin = 1

type execCall struct {
	File   string `json:"file"`
	Func   string `json:"func"`
	Line   int    `json:"line"`
	Text   string `json:"text"`
	MinLen int64  `json:"minlen"`
}

func (a *analyser) text(n ast.Node) string {
	var b bytes.Buffer
	printer.Fprint(&b, a.fset, n)
	return strings.Join(strings.Fields(b.String()), " ")
}

func (a *analyser) record(n ast.Node, kind, class string, needed, minlen int64, base string) {
	*a.out = append(*a.out, siteOut{File: a.file, Func: a.fn, Line: a.fset.Position(n.Pos()).Line, Text: a.text(n), Kind: kind,
		Class: class, Needed: needed, MinLen: minlen, Base: base})
}

// Field paths.  `r.f.g` with r a tracked local and f, g struct fields is treated as a variable of its own.  Besides an assignment to the
// path, to a prefix of it or to r, EVERY call that is evaluated (other than builtins and conversions) forgets all facts about all paths —
// a callee may reach the struct through a pointer.  Other goroutines are not considered (the structures concerned are accessed under the
// key's stripe or owned by one goroutine).
func (a *analyser) pathObj(e ast.Expr) types.Object {
	sel, ok := ast.Unparen(e).(*ast.SelectorExpr)
	if !ok || a.paths == nil {
		return nil
	}
	names := []string{}
	var cur ast.Expr = sel
	for {
		s, ok := ast.Unparen(cur).(*ast.SelectorExpr)
		if !ok {
			break
		}
		if sl := a.info.Selections[s]; sl == nil || sl.Kind() != types.FieldVal {
			return nil
		}
		names = append([]string{s.Sel.Name}, names...)
		cur = s.X
	}
	id, ok := ast.Unparen(cur).(*ast.Ident)
	if !ok {
		return nil
	}
	root := a.info.Uses[id]
	if root == nil || a.pathRoot[root] != nil || !a.local(root) {
		return nil
	}
	key := fmt.Sprintf("%p.%s", root, strings.Join(names, "."))
	if a.noPath[id.Name+"."+strings.Join(names, ".")] {
		return nil
	}
	if o, ok := a.paths[key]; ok {
		return o
	}
	t := a.info.TypeOf(e)
	if t == nil {
		return nil
	}
	o := types.NewVar(token.NoPos, a.pkg, id.Name+"."+strings.Join(names, "."), t)
	a.paths[key], a.pathRoot[o], a.pathKey[o] = o, root, key
	return o
}

// the pseudo-variables that die with obj: paths rooted at it, and longer paths
func (a *analyser) dependents(obj types.Object) []types.Object {
	var out []types.Object
	key, isPath := a.pathKey[obj]
	for p, root := range a.pathRoot {
		if root == obj || (isPath && strings.HasPrefix(a.pathKey[p], key+".")) {
			out = append(out, p)
		}
	}
	return out
}

func (a *analyser) containsCall(n ast.Node) bool {
	if n == nil || len(a.pathRoot) == 0 {
		return false
	}
	found := false
	ast.Inspect(n, func(c ast.Node) bool {
		if call, ok := c.(*ast.CallExpr); ok {
			if id, isId := ast.Unparen(call.Fun).(*ast.Ident); isId {
				if _, isB := a.info.Uses[id].(*types.Builtin); isB {
					return true
				}
			}
			if tv, ok := a.info.Types[call.Fun]; ok && tv.IsType() {
				return true
			}
			found = true
		}
		return !found
	})
	return found
}

func (a *analyser) killPaths(st *state) {
	for p := range a.pathRoot {
		st.kill(p)
	}
}

func (a *analyser) objOf(e ast.Expr) types.Object {
	id, ok := ast.Unparen(e).(*ast.Ident)
	if !ok {
		return a.pathObj(e)
	}
	if o := a.info.Uses[id]; o != nil {
		return o
	}
	return a.info.Defs[id]
}

func (a *analyser) local(obj types.Object) bool {
	if a.pathRoot[obj] != nil {
		return true
	}
	v, ok := obj.(*types.Var)
	if !ok || v.IsField() || a.untracked[obj] || obj.Pkg() == nil {
		return false
	}
	return obj.Parent() != nil && obj.Parent() != obj.Pkg().Scope() && obj.Parent() != types.Universe
}

func isLenType(t types.Type) bool {
	if t == nil {
		return false
	}
	switch u := t.Underlying().(type) {
	case *types.Slice:
		return true
	case *types.Basic:
		return u.Info()&types.IsString != 0
	}
	return false
}

func isIntType(t types.Type) bool {
	if t == nil {
		return false
	}
	b, ok := t.Underlying().(*types.Basic)
	return ok && b.Info()&types.IsInteger != 0
}

func isSignedWide(t types.Type) bool {
	b, ok := t.Underlying().(*types.Basic)
	return ok && (b.Kind() == types.Int || b.Kind() == types.Int64 || b.Kind() == types.UntypedInt)
}

func arrayLen(t types.Type) (int64, bool) {
	if t == nil {
		return 0, false
	}
	u := t.Underlying()
	if p, ok := u.(*types.Pointer); ok {
		u = p.Elem().Underlying()
	}
	if arr, ok := u.(*types.Array); ok {
		return arr.Len(), true
	}
	return 0, false
}

func (a *analyser) lenVar(e ast.Expr) types.Object {
	obj := a.objOf(e)
	if obj == nil || !a.local(obj) || !isLenType(obj.Type()) {
		return nil
	}
	return obj
}

func (a *analyser) intVar(e ast.Expr) types.Object {
	obj := a.objOf(e)
	if obj == nil || !a.local(obj) || !isIntType(obj.Type()) {
		return nil
	}
	return obj
}

func (a *analyser) builtin(fun ast.Expr, name string) bool {
	id, ok := ast.Unparen(fun).(*ast.Ident)
	if !ok || id.Name != name {
		return false
	}
	_, isB := a.info.Uses[id].(*types.Builtin)
	return isB
}

func (a *analyser) constInt(e ast.Expr) (int64, bool) {
	if tv, ok := a.info.Types[e]; ok && tv.Value != nil {
		if v := constant.ToInt(tv.Value); v.Kind() == constant.Int {
			if n, exact := constant.Int64Val(v); exact {
				return n, true
			}
		}
		return 0, false
	}
	if lit, ok := ast.Unparen(e).(*ast.BasicLit); ok && lit.Kind == token.INT {
		if n, err := strconv.ParseInt(lit.Value, 0, 64); err == nil {
			return n, true
		}
	}
	return 0, false
}

const (
	lfNone = iota
	lfConst
	lfLen
	lfVar
)

type linForm struct {
	kind int
	obj  types.Object
	c    int64
}

// e as  c | len(x)+c | v+c
func (a *analyser) lin(e ast.Expr, st *state) linForm {
	e = ast.Unparen(e)
	if n, ok := a.constInt(e); ok {
		return linForm{kind: lfConst, c: n}
	}
	switch v := e.(type) {
	case *ast.Ident:
		if obj := a.intVar(v); obj != nil {
			if x, ok := st.alias[obj]; ok {
				return linForm{kind: lfLen, obj: x}
			}
			return linForm{kind: lfVar, obj: obj}
		}
	case *ast.SelectorExpr:
		if obj := a.intVar(v); obj != nil {
			return linForm{kind: lfVar, obj: obj}
		}
	case *ast.CallExpr:
		if a.builtin(v.Fun, "len") && len(v.Args) == 1 {
			if x := a.lenVar(v.Args[0]); x != nil {
				return linForm{kind: lfLen, obj: x}
			}
			return linForm{}
		}
		if tv, ok := a.info.Types[v.Fun]; ok && tv.IsType() && len(v.Args) == 1 && isSignedWide(tv.Type) {
			inner := a.lin(v.Args[0], st)
			if inner.kind == lfLen || inner.kind == lfConst {
				return inner
			}
			if inner.kind == lfVar && isSignedWide(inner.obj.Type()) {
				return inner
			}
		}
	case *ast.BinaryExpr:
		if v.Op != token.ADD && v.Op != token.SUB {
			return linForm{}
		}
		l, r := a.lin(v.X, st), a.lin(v.Y, st)
		if l.kind == lfNone || r.kind == lfNone {
			return linForm{}
		}
		if r.kind == lfConst {
			if v.Op == token.ADD {
				l.c += r.c
			} else {
				l.c -= r.c
			}
			return l
		}
		if l.kind == lfConst && v.Op == token.ADD {
			r.c += l.c
			return r
		}
	}
	return linForm{}
}

func negOp(op token.Token) token.Token {
	switch op {
	case token.LSS:
		return token.GEQ
	case token.LEQ:
		return token.GTR
	case token.GTR:
		return token.LEQ
	case token.GEQ:
		return token.LSS
	case token.EQL:
		return token.NEQ
	case token.NEQ:
		return token.EQL
	}
	return op
}

func flipOp(op token.Token) token.Token { // a op b  ⇔  b flip(op) a
	switch op {
	case token.LSS:
		return token.GTR
	case token.LEQ:
		return token.GEQ
	case token.GTR:
		return token.LSS
	case token.GEQ:
		return token.LEQ
	}
	return op
}

// refine st with  l op r
func (a *analyser) assumeCmp(st *state, l linForm, op token.Token, r linForm) {
	if l.kind == lfNone || r.kind == lfNone {
		return
	}
	if l.kind == lfConst && r.kind != lfConst {
		l, r, op = r, l, flipOp(op)
	}
	switch {
	case l.kind == lfLen && r.kind == lfConst:
		st.refineLen(l.obj, setOf(op, r.c-l.c))
	case l.kind == lfVar && r.kind == lfConst:
		k := r.c - l.c // v op k
		setLo := func(x int64) {
			if cur, ok := st.lo[l.obj]; !ok || x > cur {
				st.lo[l.obj] = x
			}
		}
		setHi := func(x int64) {
			if cur, ok := st.hi[l.obj]; !ok || x < cur {
				st.hi[l.obj] = x
			}
		}
		switch op {
		case token.LSS:
			setHi(k - 1)
		case token.LEQ:
			setHi(k)
		case token.GTR:
			setLo(k + 1)
		case token.GEQ:
			setLo(k)
		case token.EQL:
			setLo(k)
			setHi(k)
		}
		if lo, ok := st.lo[l.obj]; ok {
			if hi, ok2 := st.hi[l.obj]; ok2 && lo > hi {
				st.dead = true
			}
		}
	case l.kind == lfLen && r.kind == lfLen && l.obj != r.obj:
		// len(x) + c1 op len(y) + c2
		set := func(x, y types.Object, c int64) { // len(x) ≥ len(y) + c
			k := relKey{x, y}
			if cur, ok := st.lge[k]; !ok || c > cur {
				st.lge[k] = c
			}
		}
		switch op {
		case token.EQL:
			set(l.obj, r.obj, r.c-l.c)
			set(r.obj, l.obj, l.c-r.c)
		case token.GEQ:
			set(l.obj, r.obj, r.c-l.c)
		case token.GTR:
			set(l.obj, r.obj, r.c-l.c+1)
		case token.LEQ:
			set(r.obj, l.obj, l.c-r.c)
		case token.LSS:
			set(r.obj, l.obj, l.c-r.c+1)
		}
	case l.kind == lfLen && r.kind == lfVar:
		a.assumeCmp(st, r, flipOp(op), l)
	case l.kind == lfVar && r.kind == lfLen:
		// v + c1 op len(x) + c2
		if l.c > 0 && !a.counter[l.obj] {
			return // v + c1 may wrap around for an arbitrary v
		}
		var c int64
		switch op {
		case token.LSS:
			c = l.c - r.c + 1
		case token.LEQ, token.EQL:
			c = l.c - r.c
		default:
			return
		}
		// len(x) − v − c ≥ 0; when the parities of len(x) and v say that this difference is odd it is ≥ 1
		if pl, ok := st.par[r.obj]; ok && op != token.EQL {
			if pv, ok := st.par[l.obj]; ok && ((int64(pl)-int64(pv)-c)%2+2)%2 == 1 {
				c++
			}
		}
		k := relKey{r.obj, l.obj}
		if cur, ok := st.rel[k]; !ok || c > cur {
			st.rel[k] = c
		}
	}
}

// the state in which cond evaluated to pol
func (a *analyser) assume(st *state, cond ast.Expr, pol bool) *state {
	r := a.assume0(st, cond, pol)
	if a.containsCall(cond) {
		a.killPaths(r) // the call may run after the comparison it stands next to
	}
	return r
}

func (a *analyser) assume0(st *state, cond ast.Expr, pol bool) *state {
	if st.dead || a.bail {
		return st.clone()
	}
	cond = ast.Unparen(cond)
	switch v := cond.(type) {
	case *ast.Ident:
		// b := <condition over variables that are never re-assigned>, b itself never re-assigned
		if def, ok := a.boolDef[a.info.Uses[v]]; ok {
			return a.assume(st, def, pol)
		}
		if val, ok := st.okOf[a.info.Uses[v]]; ok && pol {
			n := st.clone()
			n.nonNil[val] = true
			return n
		}
	case *ast.UnaryExpr:
		if v.Op == token.NOT {
			return a.assume(st, v.X, !pol)
		}
	case *ast.BinaryExpr:
		switch v.Op {
		case token.LAND, token.LOR:
			if (v.Op == token.LAND) == pol {
				return a.assume(a.assume(st, v.X, pol), v.Y, pol)
			}
			return joinState(a.assume(st, v.X, pol), a.assume(a.assume(st, v.X, !pol), v.Y, pol))
		case token.LSS, token.LEQ, token.GTR, token.GEQ, token.EQL, token.NEQ:
			n := st.clone()
			op := v.Op
			if !pol {
				op = negOp(op)
			}
			// p != nil
			if op == token.NEQ || op == token.EQL {
				for _, pair := range [][2]ast.Expr{{v.X, v.Y}, {v.Y, v.X}} {
					if id, ok := ast.Unparen(pair[1]).(*ast.Ident); ok && id.Name == "nil" && a.info.Uses[id] == types.Universe.Lookup("nil") {
						if p := a.objOf(pair[0]); p != nil && a.local(p) {
							if op == token.NEQ {
								n.nonNil[p] = true
							}
							return n
						}
					}
				}
			}
			// len(x)&1 == k, len(x)%2 == k
			if bx, ok := ast.Unparen(v.X).(*ast.BinaryExpr); ok && (op == token.EQL || op == token.NEQ) {
				m, okM := a.constInt(bx.Y)
				k, okK := a.constInt(v.Y)
				l := a.lin(bx.X, st)
				if okM && okK && (k == 0 || k == 1) && (bx.Op == token.AND && m == 1 || bx.Op == token.REM && m == 2) &&
					(l.kind == lfLen || l.kind == lfVar && bx.Op == token.AND) {
					p := int((k + l.c%2 + 2) % 2) // parity of the variable part
					if l.c%2 != 0 {
						p = int((k + 1) % 2)
					}
					if op == token.NEQ {
						p = 1 - p
					}
					if cur, ok := n.par[l.obj]; ok && cur != p {
						n.dead = true
					}
					n.par[l.obj] = p
					return n
				}
			}
			a.assumeCmp(n, a.lin(v.X, st), op, a.lin(v.Y, st))
			return n
		}
	}
	return st.clone()
}

// ------------------------------------------------------------------------------------------------ sites

// bound of x[v+d]: (needed, minLen, ok)
func (a *analyser) relBound(st *state, x types.Object, l linForm, extra int64) (int64, int64, bool) {
	// the access needs len(x) ≥ v + d + extra
	lo, ok := st.lo[l.obj]
	if !ok || lo+l.c < 0 {
		return 0, 0, false
	}
	need := l.c + extra
	var cands [][2]int64
	if c, ok := st.rel[relKey{x, l.obj}]; ok {
		cands = append(cands, [2]int64{need, c})
	}
	for k, c1 := range st.lge { // len(x) ≥ len(z) + c1 and len(z) ≥ v + c2
		if k.x == x {
			if c2, ok := st.rel[relKey{k.v, l.obj}]; ok {
				cands = append(cands, [2]int64{need, c1 + c2})
			}
		}
	}
	sort.Slice(cands, func(i, j int) bool { return cands[i][1]-cands[i][0] > cands[j][1]-cands[j][0] })
	if hi, ok := st.hi[l.obj]; ok {
		if m, ok := st.minLen(x); ok {
			cands = append(cands, [2]int64{hi + need, m})
		}
	}
	if len(cands) == 0 {
		return 0, 0, false
	}
	best := cands[0]
	for _, c := range cands {
		if c[0] <= c[1] {
			best = c
			break
		}
	}
	// shift both so that they are naturals
	m := int64(0)
	if best[0] < m {
		m = best[0]
	}
	if best[1] < m {
		m = best[1]
	}
	return best[0] - m, best[1] - m, true
}

func (a *analyser) indexSite(e *ast.IndexExpr, st *state) {
	tv, known := a.info.Types[e.X]
	if known && tv.IsType() {
		return // generic instantiation
	}
	if _, isFunc := a.info.Types[e]; isFunc && known {
		if _, ok := tv.Type.Underlying().(*types.Signature); ok {
			return
		}
	}
	var t types.Type
	if known {
		t = tv.Type
	}
	if t != nil {
		if _, ok := t.Underlying().(*types.Map); ok {
			return
		}
		if b, ok := t.Underlying().(*types.Basic); ok && b.Kind() == types.Invalid {
			t = nil
		}
	}
	if st.dead {
		return
	}
	if n, ok := arrayLen(t); ok {
		if _, c := a.constInt(e.Index); c {
			return // checked by the compiler
		}
		l := a.lin(e.Index, st)
		if l.kind == lfVar {
			lo, okLo := st.lo[l.obj]
			hi, okHi := st.hi[l.obj]
			if okLo && okHi && lo+l.c >= 0 {
				a.record(e, "index", "const", hi+l.c+1, n, "")
				return
			}
		}
		a.record(e, "index", "dynamic", 0, 0, "")
		return
	}
	x := a.lenVar(e.X)
	if x == nil || a.bail {
		a.record(e, "index", "dynamic", 0, 0, "")
		return
	}
	l := a.lin(e.Index, st)
	switch l.kind {
	case lfConst:
		if m, ok := st.minLen(x); ok && l.c >= 0 {
			a.record(e, "index", "const", l.c+1, m, "")
			return
		}
	case lfLen:
		if m, ok := st.minLen(x); ok && l.obj == x && l.c < 0 {
			a.record(e, "index", "const", -l.c, m, "")
			return
		}
	case lfVar:
		if need, have, ok := a.relBound(st, x, l, 1); ok && need <= have {
			a.record(e, "index", "rel", need, have, l.obj.Name())
			return
		}
	}
	a.record(e, "index", "dynamic", 0, 0, "")
}

func (a *analyser) sliceSite(e *ast.SliceExpr, st *state) {
	if st.dead {
		return
	}
	if e.Low == nil && e.High == nil && e.Max == nil {
		return
	}
	t := a.info.TypeOf(e.X)
	n, isArr := arrayLen(t)
	x := a.lenVar(e.X)
	if e.Slice3 || a.bail || (x == nil && !isArr) {
		a.record(e, "slice", "dynamic", 0, 0, "")
		return
	}
	minLen := func() (int64, bool) {
		if isArr {
			return n, true
		}
		return st.minLen(x)
	}
	lo, hi := linForm{kind: lfConst}, linForm{kind: lfNone}
	if e.Low != nil {
		lo = a.lin(e.Low, st)
	}
	if e.High != nil {
		hi = a.lin(e.High, st)
	}
	sameLen := func(l linForm) bool { return l.kind == lfLen && l.obj == x && x != nil }
	switch {
	case e.High == nil: // x[a:]  needs 0 ≤ a ≤ len
		switch {
		case lo.kind == lfConst && lo.c >= 0:
			if m, ok := minLen(); ok {
				a.record(e, "slice", "const", lo.c, m, "")
				return
			}
		case sameLen(lo) && lo.c <= 0:
			if m, ok := minLen(); ok {
				a.record(e, "slice", "const", -lo.c, m, "")
				return
			}
		case lo.kind == lfVar && x != nil:
			if need, have, ok := a.relBound(st, x, lo, 0); ok && need <= have {
				a.record(e, "slice", "rel", need, have, lo.obj.Name())
				return
			}
		}
	case lo.kind == lfConst && lo.c >= 0: // x[a:b] with constant a: needs a ≤ b ≤ len
		switch {
		case hi.kind == lfConst && hi.c >= lo.c:
			if m, ok := minLen(); ok {
				a.record(e, "slice", "const", hi.c, m, "")
				return
			}
		case sameLen(hi) && hi.c <= 0: // a ≤ len + c
			if m, ok := minLen(); ok {
				a.record(e, "slice", "const", lo.c-hi.c, m, "")
				return
			}
		case hi.kind == lfVar && x != nil:
			if l, ok := st.lo[hi.obj]; ok && l+hi.c >= lo.c {
				if need, have, ok := a.relBound(st, x, hi, 0); ok && need <= have {
					a.record(e, "slice", "rel", need, have, hi.obj.Name())
					return
				}
			}
		}
	case lo.kind == lfVar && hi.kind == lfVar && lo.obj == hi.obj && lo.c <= hi.c && x != nil: // x[v+d1 : v+d2]
		if need, have, ok := a.relBound(st, x, linForm{kind: lfVar, obj: lo.obj, c: lo.c}, 0); ok && need <= have {
			if need2, have2, ok2 := a.relBound(st, x, hi, 0); ok2 && need2 <= have2 {
				a.record(e, "slice", "rel", need2, have2, hi.obj.Name())
				return
			}
		}
	case lo.kind == lfVar && sameLen(hi) && hi.c == 0: // x[v+d : len(x)]
		if need, have, ok := a.relBound(st, x, lo, 0); ok && need <= have {
			a.record(e, "slice", "rel", need, have, lo.obj.Name())
			return
		}
	}
	a.record(e, "slice", "dynamic", 0, 0, "")
}

// is e certainly ≥ 0 ?
func (a *analyser) nonNeg(e ast.Expr, st *state) bool {
	e = ast.Unparen(e)
	if n, ok := a.constInt(e); ok {
		return n >= 0
	}
	if t := a.info.TypeOf(e); t != nil {
		if b, ok := t.Underlying().(*types.Basic); ok && b.Info()&types.IsUnsigned != 0 {
			return true
		}
	}
	switch v := e.(type) {
	case *ast.CallExpr:
		if (a.builtin(v.Fun, "len") || a.builtin(v.Fun, "cap")) && len(v.Args) == 1 {
			return true
		}
		if tv, ok := a.info.Types[v.Fun]; ok && tv.IsType() && len(v.Args) == 1 && isSignedWide(tv.Type) {
			return a.nonNeg(v.Args[0], st)
		}
	case *ast.BinaryExpr:
		if v.Op == token.ADD || v.Op == token.MUL {
			return a.nonNeg(v.X, st) && a.nonNeg(v.Y, st)
		}
	case *ast.Ident:
		if obj := a.intVar(v); obj != nil && !a.bail {
			if _, ok := st.alias[obj]; ok {
				return true
			}
			if lo, ok := st.lo[obj]; ok && lo >= 0 {
				return true
			}
		}
	}
	l := a.lin(e, st)
	if l.kind == lfVar && !a.bail {
		if lo, ok := st.lo[l.obj]; ok && lo+l.c >= 0 {
			return true
		}
	}
	if l.kind == lfLen && !a.bail {
		if m, _ := st.minLen(l.obj); m+l.c >= 0 {
			return true
		}
	}
	return false
}

func (a *analyser) makeSite(e *ast.CallExpr, st *state) {
	if st.dead || len(e.Args) < 2 {
		return
	}
	if t := a.info.TypeOf(e.Args[0]); t != nil {
		if _, ok := t.Underlying().(*types.Map); ok {
			return // a negative map size hint does not panic
		}
	}
	for _, arg := range e.Args[1:] {
		if !a.nonNeg(arg, st) {
			a.record(e, "make", "dynamic", 0, 0, "")
			return
		}
	}
}

func (a *analyser) divSite(n ast.Node, whole, y ast.Expr, st *state) {
	if st.dead {
		return
	}
	if whole != nil {
		if tv, ok := a.info.Types[whole]; ok {
			if tv.Value != nil {
				return
			}
			if b, ok := tv.Type.Underlying().(*types.Basic); ok && b.Kind() != types.Invalid && b.Info()&types.IsInteger == 0 {
				return // float / complex division does not panic
			}
		}
	} else if t := a.info.TypeOf(y); t != nil {
		if b, ok := t.Underlying().(*types.Basic); ok && b.Kind() != types.Invalid && b.Info()&types.IsInteger == 0 {
			return
		}
	}
	if c, ok := a.constInt(y); ok && c != 0 {
		return
	}
	if tv, ok := a.info.Types[y]; ok && tv.Value != nil {
		return
	}
	l := a.lin(y, st)
	if l.kind == lfLen && !a.bail {
		if m, ok := st.minLen(l.obj); ok && m+l.c >= 1 {
			a.record(n, "div", "const", 1, m+l.c, "")
			return
		}
	}
	if l.kind == lfVar && !a.bail {
		if lo, ok := st.lo[l.obj]; ok && lo+l.c >= 1 {
			a.record(n, "div", "const", 1, lo+l.c, "")
			return
		}
	}
	a.record(n, "div", "dynamic", 0, 0, "")
}

// ------------------------------------------------------------------------------------------------ expressions

func directChildren(n ast.Node) []ast.Node {
	var out []ast.Node
	depth := 0
	ast.Inspect(n, func(c ast.Node) bool {
		if c == nil {
			depth--
			return true
		}
		depth++
		if depth == 2 {
			out = append(out, c)
			depth--
			return false
		}
		return true
	})
	return out
}

func (a *analyser) expr(e ast.Node, st *state) {
	if e == nil {
		return
	}
	switch v := e.(type) {
	case *ast.BinaryExpr:
		switch v.Op {
		case token.LAND:
			a.expr(v.X, st)
			a.expr(v.Y, a.assume(st, v.X, true))
			return
		case token.LOR:
			a.expr(v.X, st)
			a.expr(v.Y, a.assume(st, v.X, false))
			return
		case token.QUO, token.REM:
			a.expr(v.X, st)
			a.expr(v.Y, st)
			a.divSite(v, v, v.Y, st)
			return
		}
	case *ast.IndexExpr:
		a.expr(v.X, st)
		a.expr(v.Index, st)
		a.indexSite(v, st)
		return
	case *ast.SliceExpr:
		a.expr(v.X, st)
		a.expr(v.Low, st)
		a.expr(v.High, st)
		a.expr(v.Max, st)
		a.sliceSite(v, st)
		return
	case *ast.TypeAssertExpr:
		a.expr(v.X, st)
		if v.Type != nil && !st.dead {
			a.record(v, "assert", "dynamic", 0, 0, "")
			var src types.Object
			if o := a.objOf(v.X); o != nil && a.local(o) {
				src = o
			}
			a.nilRecord(v, "assert", src, st)
		}
		return
	case *ast.SelectorExpr:
		if o := a.objOf(v.X); o != nil && a.local(o) && !a.bail {
			if _, from := st.nilSrc[o]; from {
				a.nilRecord(v, "deref", o, st)
			}
		}
	case *ast.StarExpr:
		if o := a.objOf(v.X); o != nil && a.local(o) && !a.bail {
			if _, from := st.nilSrc[o]; from {
				a.nilRecord(v, "deref", o, st)
			}
		}
	case *ast.CallExpr:
		if a.builtin(v.Fun, "make") {
			for _, arg := range v.Args[1:] {
				a.expr(arg, st)
			}
			a.makeSite(v, st)
			return
		}
		a.replyCall(v)
		if a.x != nil && len(v.Args) == 4 && !st.dead {
			isExec := false
			if t := a.info.TypeOf(v.Fun); t != nil && a.x.execType != nil && types.Identical(t, a.x.execType) {
				if _, named := t.(*types.Named); named {
					isExec = true
				}
			}
			if obj := a.objOf(v.Fun); obj != nil && a.x.execs[obj] {
				isExec = true
			}
			if sel, ok := v.Fun.(*ast.SelectorExpr); ok && a.x.execs[a.info.Uses[sel.Sel]] {
				isExec = true
			}
			if isExec {
				m := int64(0)
				if x := a.lenVar(v.Args[2]); x != nil && !a.bail {
					m, _ = st.minLen(x)
				}
				a.x.calls = append(a.x.calls, execCall{File: a.file, Func: a.fn, Line: a.fset.Position(v.Pos()).Line, Text: a.text(v), MinLen: m})
			}
		}
	case *ast.FuncLit:
		a.closure(v, st)
		return
	case *ast.CompositeLit:
		a.replyLit(v)
	case *ast.KeyValueExpr:
		// a struct literal's field name is not an expression
		if _, ok := v.Key.(*ast.Ident); !ok {
			a.expr(v.Key, st)
		}
		a.expr(v.Value, st)
		return
	case *ast.ArrayType, *ast.StructType, *ast.FuncType, *ast.InterfaceType, *ast.MapType, *ast.ChanType:
		return
	}
	for _, c := range directChildren(e) {
		switch c.(type) {
		case ast.Expr:
			a.expr(c, st)
		}
	}
}

func (a *analyser) closure(f *ast.FuncLit, st *state) {
	inner := newState()
	if !st.dead && !a.bail {
		stable := func(o types.Object) bool { return a.nassign[o] == 0 && !a.untracked[o] && a.pathRoot[o] == nil }
		for k, v := range st.lens {
			if stable(k) {
				inner.lens[k] = v
			}
		}
		for k, v := range st.lo {
			if stable(k) {
				inner.lo[k] = v
			}
		}
		for k, v := range st.hi {
			if stable(k) {
				inner.hi[k] = v
			}
		}
		for k, v := range st.rel {
			if stable(k.x) && stable(k.v) {
				inner.rel[k] = v
			}
		}
		for k, v := range st.alias {
			if stable(k) && stable(v) {
				inner.alias[k] = v
			}
		}
	}
	a.block(f.Body.List, inner)
}

// ------------------------------------------------------------------------------------------------ statements

// objects assigned (not defined) anywhere below the nodes; how: +1 every assignment is an increment by a non-negative constant
func (a *analyser) assignedIn(nodes ...ast.Node) map[types.Object]bool {
	res := map[types.Object]bool{} // value: monotone (only incremented)
	a.evenStep = map[types.Object]bool{}
	mark := func(e ast.Expr, mono bool) {
		id, ok := ast.Unparen(e).(*ast.Ident)
		var obj types.Object
		if ok {
			obj = a.info.Uses[id]
		} else {
			obj, mono = a.pathObj(e), false
		}
		if obj == nil {
			return
		}
		if cur, seen := res[obj]; seen {
			res[obj] = cur && mono
		} else {
			res[obj] = mono
		}
	}
	for _, n := range nodes {
		if n == nil {
			continue
		}
		ast.Inspect(n, func(c ast.Node) bool {
			switch v := c.(type) {
			case *ast.AssignStmt:
				mono, even := false, false
				if v.Tok == token.ADD_ASSIGN && len(v.Rhs) == 1 {
					if k, ok := a.constInt(v.Rhs[0]); ok && k >= 0 {
						mono, even = true, k%2 == 0
					}
				}
				for _, l := range v.Lhs {
					mark(l, mono)
					if obj := a.objOf(l); obj != nil {
						if cur, seen := a.evenStep[obj]; seen {
							a.evenStep[obj] = cur && even
						} else {
							a.evenStep[obj] = even
						}
					}
				}
			case *ast.IncDecStmt:
				mark(v.X, v.Tok == token.INC)
				if obj := a.objOf(v.X); obj != nil {
					a.evenStep[obj] = false
				}
			case *ast.RangeStmt:
				if v.Tok == token.ASSIGN {
					if v.Key != nil {
						mark(v.Key, false)
					}
					if v.Value != nil {
						mark(v.Value, false)
					}
				}
			}
			return true
		})
	}
	return res
}

func (a *analyser) weaken(st *state, nodes ...ast.Node) *state {
	n := st.clone()
	for obj, mono := range a.assignedIn(nodes...) {
		if mono {
			lo, ok := n.lo[obj]
			p, okP := n.par[obj]
			n.kill(obj)
			if ok {
				n.lo[obj] = lo
			}
			if okP && a.evenStep[obj] {
				n.par[obj] = p
			}
		} else {
			n.kill(obj)
		}
	}
	for _, nd := range nodes {
		if nd != nil && a.containsCall(nd) {
			a.killPaths(n)
			break
		}
	}
	return n
}

// an unlabelled break below n that leaves n itself (not one of an inner loop / switch / select)
func hasBreak(list []ast.Stmt) bool {
	found := false
	var walk func(n ast.Node)
	walk = func(n ast.Node) {
		ast.Inspect(n, func(c ast.Node) bool {
			switch v := c.(type) {
			case *ast.ForStmt, *ast.RangeStmt, *ast.SwitchStmt, *ast.TypeSwitchStmt, *ast.SelectStmt, *ast.FuncLit:
				return false
			case *ast.BranchStmt:
				if v.Tok == token.BREAK && v.Label == nil {
					found = true
				}
			}
			return true
		})
	}
	for _, s := range list {
		walk(s)
	}
	return found
}

func (a *analyser) terminating(e ast.Expr) bool {
	c, ok := e.(*ast.CallExpr)
	if !ok {
		return false
	}
	if a.builtin(c.Fun, "panic") {
		return true
	}
	switch callName(c.Fun) {
	case "os.Exit", "log.Fatal", "log.Fatalf", "log.Fatalln", "log.Panic", "log.Panicf", "log.Panicln":
		return true
	}
	return false
}

func (a *analyser) block(list []ast.Stmt, st *state) *state {
	for _, s := range list {
		st = a.stmt(s, st)
	}
	return st
}

// facts about the value of rhs, to be installed on the variable it is assigned to
type valFact struct {
	lens    lenset
	hasLo   bool
	lo      int64
	hasHi   bool
	hi      int64
	aliasOf types.Object
	rels    map[types.Object]int64 // len(x) ≥ lhs + c
	hasPar  bool
	par     int
	lge     map[types.Object]int64 // len(lhs) ≥ len(z) + c
}

func (a *analyser) valueOf(lhsType types.Type, rhs ast.Expr, st *state) valFact {
	var f valFact
	if a.bail || st.dead || lhsType == nil {
		return f
	}
	rhs = ast.Unparen(rhs)
	if isIntType(lhsType) {
		l := a.lin(rhs, st)
		switch l.kind {
		case lfConst:
			f.hasLo, f.lo, f.hasHi, f.hi = true, l.c, true, l.c
			f.hasPar, f.par = true, int((l.c%2+2)%2)
		case lfLen:
			m, _ := st.minLen(l.obj)
			f.hasLo, f.lo = true, m+l.c
			if s, ok := st.lens[l.obj]; ok && s.max() != inf {
				f.hasHi, f.hi = true, s.max()+l.c
			}
			if l.c == 0 {
				f.aliasOf = l.obj
			}
			f.rels = map[types.Object]int64{l.obj: -l.c}
		case lfVar:
			if lo, ok := st.lo[l.obj]; ok {
				f.hasLo, f.lo = true, lo+l.c
			}
			if hi, ok := st.hi[l.obj]; ok {
				f.hasHi, f.hi = true, hi+l.c
			}
			f.rels = map[types.Object]int64{}
			for k, c := range st.rel {
				if k.v == l.obj {
					f.rels[k.x] = c - l.c
				}
			}
		}
		return f
	}
	if !isLenType(lhsType) {
		return f
	}
	switch v := rhs.(type) {
	case *ast.BasicLit:
		if v.Kind == token.STRING {
			if s, err := strconv.Unquote(v.Value); err == nil {
				f.lens = lenset{{int64(len(s)), int64(len(s))}}
			}
		}
	case *ast.CompositeLit:
		if _, ok := a.info.TypeOf(v).Underlying().(*types.Slice); ok {
			keyed := false
			for _, el := range v.Elts {
				if _, ok := el.(*ast.KeyValueExpr); ok {
					keyed = true
				}
			}
			if !keyed {
				f.lens = lenset{{int64(len(v.Elts)), int64(len(v.Elts))}}
			}
		}
	case *ast.SliceExpr:
		x := a.lenVar(v.X)
		if x == nil || v.Slice3 {
			break
		}
		lo, hi := linForm{kind: lfConst}, linForm{kind: lfNone}
		if v.Low != nil {
			lo = a.lin(v.Low, st)
		}
		if v.High != nil {
			hi = a.lin(v.High, st)
		}
		switch {
		case v.High == nil && lo.kind == lfConst && lo.c >= 0:
			if s, ok := st.lens[x]; ok {
				f.lens = shiftSet(s, lo.c)
			}
		case lo.kind == lfConst && hi.kind == lfConst && hi.c >= lo.c:
			f.lens = lenset{{hi.c - lo.c, hi.c - lo.c}}
		}
	case *ast.CallExpr:
		switch {
		case a.builtin(v.Fun, "make") && len(v.Args) >= 2:
			if n, ok := a.constInt(v.Args[1]); ok && n >= 0 {
				f.lens = lenset{{n, n}}
			} else if l := a.lin(v.Args[1], st); l.kind == lfLen {
				f.lge = map[types.Object]int64{l.obj: l.c}
			} else if l.kind == lfVar {
				if lo, ok := st.lo[l.obj]; ok && lo+l.c > 0 {
					f.lens = lenset{{lo + l.c, inf}}
				}
			}
		case a.builtin(v.Fun, "append") && len(v.Args) >= 1 && v.Ellipsis == token.NoPos:
			base := int64(0)
			if x := a.lenVar(v.Args[0]); x != nil {
				base, _ = st.minLen(x)
			}
			if n := base + int64(len(v.Args)-1); n > 0 {
				f.lens = lenset{{n, inf}}
			}
		case a.builtin(v.Fun, "append") && len(v.Args) >= 1:
			if x := a.lenVar(v.Args[0]); x != nil {
				if m, ok := st.minLen(x); ok && m > 0 {
					f.lens = lenset{{m, inf}}
				}
			}
		case len(v.Args) == 1:
			// string(b) / []byte(s): same length
			if tv, ok := a.info.Types[v.Fun]; ok && tv.IsType() && isLenType(tv.Type) {
				if x := a.lenVar(v.Args[0]); x != nil {
					xt, lt := x.Type().Underlying(), tv.Type.Underlying()
					_, xs := xt.(*types.Slice)
					_, ls := lt.(*types.Slice)
					byteElem := func(t types.Type) bool {
						s, ok := t.(*types.Slice)
						if !ok {
							return true
						}
						b, ok := s.Elem().Underlying().(*types.Basic)
						return ok && b.Kind() == types.Byte
					}
					if (xs || ls) && byteElem(xt) && byteElem(lt) || (!xs && !ls) {
						if s, ok := st.lens[x]; ok {
							f.lens = s
						}
					}
				}
			}
		case len(v.Args) == 2 && (callName(v.Fun) == "strings.Split" || callName(v.Fun) == "bytes.Split"):
			// Split with a non-empty separator returns at least one element
			if tv, ok := a.info.Types[v.Args[1]]; ok && tv.Value != nil && tv.Value.Kind() == constant.String && constant.StringVal(tv.Value) != "" {
				f.lens = lenset{{1, inf}}
			}
		}
	case *ast.Ident:
		if x := a.lenVar(v); x != nil {
			if s, ok := st.lens[x]; ok {
				f.lens = s
			}
		}
	}
	return f
}

func (a *analyser) install(st *state, obj types.Object, f valFact) {
	if obj == nil || !a.local(obj) || st.dead {
		return
	}
	if f.lens != nil && !f.lens.isTop() && isLenType(obj.Type()) {
		st.lens[obj] = f.lens
	}
	if isLenType(obj.Type()) {
		for z, c := range f.lge {
			if z != obj {
				st.lge[relKey{obj, z}] = c
			}
		}
	}
	if isIntType(obj.Type()) {
		if f.hasLo {
			st.lo[obj] = f.lo
		}
		if f.hasHi {
			st.hi[obj] = f.hi
		}
		if f.aliasOf != nil && f.aliasOf != obj {
			st.alias[obj] = f.aliasOf
		}
		if f.hasPar {
			st.par[obj] = f.par
		}
		for x, c := range f.rels {
			if x != obj {
				st.rel[relKey{x, obj}] = c
			}
		}
	}
}

func (a *analyser) assign(s *ast.AssignStmt, st *state) *state {
	commaOk := len(s.Lhs) == 2 && len(s.Rhs) == 1
	for _, r := range s.Rhs {
		if ta, ok := ast.Unparen(r).(*ast.TypeAssertExpr); ok && commaOk {
			a.expr(ta.X, st)
			continue
		}
		a.expr(r, st)
	}
	for _, l := range s.Lhs {
		if _, ok := ast.Unparen(l).(*ast.Ident); !ok {
			a.expr(l, st)
		}
	}
	if st.dead {
		return st
	}
	st = st.clone()
	switch s.Tok {
	case token.ASSIGN, token.DEFINE:
		var facts []valFact
		if len(s.Lhs) == len(s.Rhs) {
			for i, l := range s.Lhs {
				var f valFact
				if obj := a.objOf(l); obj != nil {
					f = a.valueOf(obj.Type(), s.Rhs[i], st)
				}
				facts = append(facts, f)
			}
		}
		for _, l := range s.Lhs {
			if obj := a.objOf(l); obj != nil {
				st.kill(obj)
			}
		}
		for i, f := range facts {
			a.install(st, a.objOf(s.Lhs[i]), f)
		}
		if !a.bail {
			a.nilFacts(st, s.Lhs, s.Rhs)
		}
	case token.QUO_ASSIGN, token.REM_ASSIGN:
		a.divSite(s, nil, s.Rhs[0], st)
		if obj := a.objOf(s.Lhs[0]); obj != nil {
			st.kill(obj)
		}
	case token.ADD_ASSIGN, token.SUB_ASSIGN:
		obj := a.objOf(s.Lhs[0])
		if obj == nil {
			break
		}
		if k, ok := a.constInt(s.Rhs[0]); ok && isIntType(obj.Type()) && a.local(obj) {
			if s.Tok == token.SUB_ASSIGN {
				k = -k
			}
			st.shift(obj, k)
		} else {
			st.kill(obj)
		}
	default:
		if obj := a.objOf(s.Lhs[0]); obj != nil {
			st.kill(obj)
		}
	}
	return st
}

func (a *analyser) stmt(s ast.Stmt, st *state) *state {
	switch s.(type) {
	case *ast.ExprStmt, *ast.AssignStmt, *ast.IncDecStmt, *ast.DeclStmt, *ast.SendStmt, *ast.GoStmt, *ast.DeferStmt:
		out := a.stmt0(s, st)
		if a.containsCall(s) && !out.dead {
			out = out.clone()
			a.killPaths(out)
		}
		return out
	case *ast.SwitchStmt:
		if sw := s.(*ast.SwitchStmt); sw.Tag != nil && a.containsCall(sw.Tag) {
			st = st.clone()
			a.killPaths(st)
		}
	}
	return a.stmt0(s, st)
}

func (a *analyser) stmt0(s ast.Stmt, st *state) *state {
	if a.bail {
		st = newState()
	}
	switch v := s.(type) {
	case nil:
		return st
	case *ast.BlockStmt:
		return a.block(v.List, st)
	case *ast.LabeledStmt:
		return a.stmt(v.Stmt, st)
	case *ast.ExprStmt:
		a.expr(v.X, st)
		if a.terminating(v.X) {
			return deadState()
		}
		return st
	case *ast.AssignStmt:
		return a.assign(v, st)
	case *ast.IncDecStmt:
		if obj := a.intVar(v.X); obj != nil {
			st = st.clone()
			if v.Tok == token.INC {
				st.shift(obj, 1)
			} else {
				st.shift(obj, -1)
			}
			return st
		}
		a.expr(v.X, st)
		if obj := a.objOf(v.X); obj != nil {
			st = st.clone()
			st.kill(obj)
		}
		return st
	case *ast.DeclStmt:
		gd, ok := v.Decl.(*ast.GenDecl)
		if !ok || gd.Tok != token.VAR {
			return st
		}
		st = st.clone()
		for _, sp := range gd.Specs {
			vs := sp.(*ast.ValueSpec)
			for _, val := range vs.Values {
				if ta, ok := ast.Unparen(val).(*ast.TypeAssertExpr); ok && len(vs.Names) == 2 && len(vs.Values) == 1 {
					a.expr(ta.X, st)
					continue
				}
				a.expr(val, st)
			}
			for i, name := range vs.Names {
				obj := a.info.Defs[name]
				if obj == nil || st.dead {
					continue
				}
				switch {
				case len(vs.Values) == len(vs.Names):
					a.install(st, obj, a.valueOf(obj.Type(), vs.Values[i], st))
				case len(vs.Values) == 0 && a.local(obj) && !a.bail:
					if isIntType(obj.Type()) {
						st.lo[obj], st.hi[obj] = 0, 0
					} else if isLenType(obj.Type()) {
						st.lens[obj] = lenset{{0, 0}}
					}
				}
			}
		}
		return st
	case *ast.ReturnStmt:
		for _, r := range v.Results {
			a.expr(r, st)
		}
		return deadState()
	case *ast.BranchStmt:
		return deadState() // labelled branches / goto put the whole function in bail mode (see funcBody)
	case *ast.GoStmt:
		a.expr(v.Call, st)
		return st
	case *ast.DeferStmt:
		a.expr(v.Call, st)
		return st
	case *ast.SendStmt:
		a.expr(v.Chan, st)
		a.expr(v.Value, st)
		return st
	case *ast.IfStmt:
		st = a.stmt(v.Init, st)
		a.expr(v.Cond, st)
		t := a.block(v.Body.List, a.assume(st, v.Cond, true))
		e := a.assume(st, v.Cond, false)
		if v.Else != nil {
			e = a.stmt(v.Else, e)
		}
		return joinState(t, e)
	case *ast.ForStmt:
		st = a.stmt(v.Init, st)
		head := a.weaken(st, v.Body, v.Post)
		if v.Cond != nil {
			a.expr(v.Cond, head)
		}
		body := head
		if v.Cond != nil {
			body = a.assume(head, v.Cond, true)
		}
		out := a.block(v.Body.List, body)
		// `continue` reaches the post statement with the state of its own path; the post statement is visited with the weakest one
		if v.Post != nil {
			a.stmt(v.Post, a.weaken(head, v.Body))
			_ = out
		}
		if st.dead {
			return st
		}
		a.forAppend(v, st, head)
		return head
	case *ast.RangeStmt:
		a.expr(v.X, st)
		nodes := []ast.Node{v.Body}
		head := a.weaken(st, nodes...)
		if v.Tok == token.ASSIGN {
			for _, kv := range []ast.Expr{v.Key, v.Value} {
				if obj := a.objOf(kv); kv != nil && obj != nil {
					head.kill(obj)
				}
			}
		}
		body := head.clone()
		if v.Key != nil && !body.dead && !a.bail {
			if key := a.intVar(v.Key); key != nil {
				t := a.info.TypeOf(v.X)
				_, isArr := arrayLen(t)
				if isLenType(t) || isArr || isIntType(t) {
					body.kill(key)
					body.lo[key] = 0
					if n, ok := arrayLen(t); ok {
						body.hi[key] = n - 1
					}
					if x := a.lenVar(v.X); x != nil {
						if _, reassigned := a.assignedIn(v.Body)[x]; !reassigned && !(a.pathRoot[x] != nil && a.containsCall(v.Body)) {
							body.rel[relKey{x, key}] = 1
						}
					}
				}
			}
		}
		a.block(v.Body.List, body)
		if st.dead {
			return st
		}
		a.rangeAppend(v, st, head)
		return head
	case *ast.SwitchStmt:
		st = a.stmt(v.Init, st)
		if v.Tag != nil {
			a.expr(v.Tag, st)
		}
		return a.switchBody(v, v.Body.List, st, func(cur *state, c ast.Expr, pol bool) *state {
			if v.Tag == nil {
				return a.assume(cur, c, pol)
			}
			n := cur.clone()
			if n.dead || a.bail {
				return n
			}
			op := token.EQL
			if !pol {
				op = token.NEQ
			}
			a.assumeCmp(n, a.lin(v.Tag, cur), op, a.lin(c, cur))
			if a.containsCall(c) {
				a.killPaths(n)
			}
			return n
		})
	case *ast.TypeSwitchStmt:
		st = a.stmt(v.Init, st)
		switch as := v.Assign.(type) {
		case *ast.AssignStmt:
			if ta, ok := as.Rhs[0].(*ast.TypeAssertExpr); ok {
				a.expr(ta.X, st)
			}
		case *ast.ExprStmt:
			if ta, ok := as.X.(*ast.TypeAssertExpr); ok {
				a.expr(ta.X, st)
			}
		}
		return a.switchBody(v, v.Body.List, st, func(cur *state, c ast.Expr, pol bool) *state { return cur.clone() })
	case *ast.SelectStmt:
		var after *state
		weak := a.weaken(st, v)
		hasDefault := false
		for _, cl := range v.Body.List {
			cc := cl.(*ast.CommClause)
			entry := st.clone()
			if cc.Comm == nil {
				hasDefault = true
			} else {
				entry = a.stmt(cc.Comm, entry)
			}
			out := a.block(cc.Body, entry)
			if hasBreak(cc.Body) {
				out = joinState(out, weak)
			}
			after = joinState(after, out)
		}
		_ = hasDefault
		if after == nil {
			return deadState() // `select {}` blocks for ever
		}
		return after
	}
	return st
}

// shared by expression and type switches; refine(cur, caseExpr, matched) gives the state in which the case matched / did not
func (a *analyser) switchBody(sw ast.Node, clauses []ast.Stmt, st *state, refine func(*state, ast.Expr, bool) *state) *state {
	weak := a.weaken(st, sw)
	var after, ft *state
	cur := st.clone()
	type pending struct {
		cc    *ast.CaseClause
		entry *state
	}
	var order []pending
	var def *ast.CaseClause
	for _, cl := range clauses {
		cc := cl.(*ast.CaseClause)
		if cc.List == nil {
			def = cc
			order = append(order, pending{cc, nil})
			continue
		}
		var entry *state
		for _, c := range cc.List {
			if _, isType := a.info.Types[c]; isType && a.info.Types[c].IsType() {
				entry = joinState(entry, cur.clone())
				continue
			}
			a.expr(c, cur)
			entry = joinState(entry, refine(cur, c, true))
			cur = refine(cur, c, false)
		}
		order = append(order, pending{cc, entry})
	}
	for _, p := range order {
		entry := p.entry
		if p.cc == def {
			entry = cur.clone()
		}
		if ft != nil {
			entry = joinState(entry, ft)
			ft = nil
		}
		body := p.cc.Body
		falls := false
		if n := len(body); n > 0 {
			if b, ok := body[n-1].(*ast.BranchStmt); ok && b.Tok == token.FALLTHROUGH {
				falls = true
				body = body[:n-1]
			}
		}
		out := a.block(body, entry)
		if hasBreak(body) {
			out = joinState(out, weak)
		}
		if falls {
			ft = out
		} else {
			after = joinState(after, out)
		}
	}
	if def == nil {
		after = joinState(after, cur)
	}
	if after == nil {
		return deadState()
	}
	return after
}

// ------------------------------------------------------------------------------------------------ per function

func (a *analyser) prepare(body ast.Node) {
	a.untracked = map[types.Object]bool{}
	a.nassign = map[types.Object]int{}
	a.counter = map[types.Object]bool{}
	a.boolDef = map[types.Object]ast.Expr{}
	a.paths, a.pathRoot, a.pathKey, a.noPath = map[string]types.Object{}, map[types.Object]types.Object{}, map[types.Object]string{}, map[string]bool{}
	killHook = a.dependents
	ast.Inspect(body, func(n ast.Node) bool {
		if u, ok := n.(*ast.UnaryExpr); ok && u.Op == token.AND {
			if _, isSel := ast.Unparen(u.X).(*ast.SelectorExpr); isSel {
				a.noPath[a.text(u.X)] = true
			}
		}
		return true
	})
	a.bail = false
	boolCand := map[types.Object]ast.Expr{}
	notCounter := map[types.Object]bool{}
	seen := map[types.Object]bool{}
	defined := map[types.Object]bool{} // declared inside the body (a parameter starts with an arbitrary value)
	def := func(e ast.Expr) {
		if id, ok := ast.Unparen(e).(*ast.Ident); ok {
			if o := a.info.Defs[id]; o != nil {
				defined[o] = true
			}
		}
	}
	use := func(e ast.Expr) types.Object {
		id, ok := ast.Unparen(e).(*ast.Ident)
		if !ok {
			return nil
		}
		return a.info.Uses[id]
	}
	either := func(e ast.Expr) types.Object {
		id, ok := ast.Unparen(e).(*ast.Ident)
		if !ok {
			return nil
		}
		if o := a.info.Uses[id]; o != nil {
			return o
		}
		return a.info.Defs[id]
	}
	empty := newState()
	counterRhs := func(e ast.Expr) bool {
		if _, ok := a.constInt(e); ok {
			return true
		}
		// len(..) ± c : the lin form needs tracked variables, so look at the shape only
		ok := true
		ast.Inspect(e, func(n ast.Node) bool {
			switch v := n.(type) {
			case *ast.BasicLit, *ast.ParenExpr:
			case *ast.BinaryExpr:
				if v.Op != token.ADD && v.Op != token.SUB {
					ok = false
				}
			case *ast.CallExpr:
				if !(a.builtin(v.Fun, "len") && len(v.Args) == 1) {
					ok = false
				}
				return false
			default:
				if n != nil {
					ok = false
				}
			}
			return ok
		})
		return ok
	}
	var walk func(n ast.Node, depth int)
	walk = func(n ast.Node, depth int) {
		ast.Inspect(n, func(c ast.Node) bool {
			switch v := c.(type) {
			case *ast.FuncLit:
				if c != n {
					walk(v.Body, depth+1)
					return false
				}
			case *ast.UnaryExpr:
				if v.Op == token.AND {
					if o := either(v.X); o != nil {
						a.untracked[o] = true
					}
				}
			case *ast.AssignStmt:
				for i, l := range v.Lhs {
					if o := use(l); o != nil {
						a.nassign[o]++
						if depth > 0 {
							a.untracked[o] = true
						}
					}
					o := either(l)
					if o == nil {
						continue
					}
					def(l)
					seen[o] = true
					if v.Tok == token.DEFINE && len(v.Lhs) == len(v.Rhs) && isDefOf(a.info, l, o) {
						if b, ok := o.Type().Underlying().(*types.Basic); ok && b.Kind() == types.Bool {
							boolCand[o] = v.Rhs[i]
						}
					}
					switch {
					case (v.Tok == token.ASSIGN || v.Tok == token.DEFINE) && len(v.Lhs) == len(v.Rhs) && counterRhs(v.Rhs[i]):
					case (v.Tok == token.ADD_ASSIGN || v.Tok == token.SUB_ASSIGN) && counterRhs(v.Rhs[0]):
					default:
						notCounter[o] = true
					}
				}
			case *ast.IncDecStmt:
				if o := use(v.X); o != nil {
					a.nassign[o]++
					seen[o] = true
					if depth > 0 {
						a.untracked[o] = true
					}
				}
			case *ast.RangeStmt:
				for _, kv := range []ast.Expr{v.Key, v.Value} {
					if kv == nil {
						continue
					}
					if o := either(kv); o != nil {
						seen[o] = true
						def(kv)
						xt := a.info.TypeOf(v.X)
						_, isArr := arrayLen(xt)
						if kv == v.Value || !(isLenType(xt) || isArr) {
							notCounter[o] = true
						}
						if v.Tok == token.ASSIGN {
							a.nassign[o]++
							if depth > 0 {
								a.untracked[o] = true
							}
						}
					}
				}
			case *ast.ValueSpec:
				for i, name := range v.Names {
					if o := a.info.Defs[name]; o != nil {
						seen[o] = true
						defined[o] = true
						if len(v.Values) == len(v.Names) && !counterRhs(v.Values[i]) || len(v.Values) != 0 && len(v.Values) != len(v.Names) {
							notCounter[o] = true
						}
					}
				}
			case *ast.BranchStmt:
				if v.Tok == token.GOTO || v.Label != nil {
					a.bail = true
				}
			}
			return true
		})
	}
	walk(body, 0)
	_ = empty
	for o, e := range boolCand {
		ok := a.nassign[o] == 0 && !a.untracked[o]
		ast.Inspect(e, func(n ast.Node) bool {
			switch v := n.(type) {
			case *ast.Ident:
				if u, isVar := a.info.Uses[v].(*types.Var); isVar && (a.nassign[u] != 0 || a.untracked[u] || u.IsField() ||
					u.Parent() == nil || u.Pkg() == nil || u.Parent() == u.Pkg().Scope()) {
					ok = false
				}
			case *ast.CallExpr:
				if !(a.builtin(v.Fun, "len") && len(v.Args) == 1) {
					ok = false // only pure conditions over lengths and integers
				}
			case *ast.FuncLit, *ast.IndexExpr, *ast.SliceExpr, *ast.StarExpr, *ast.SelectorExpr:
				ok = false
			}
			return ok
		})
		if ok {
			a.boolDef[o] = e
		}
	}
	for o := range seen {
		if !notCounter[o] && defined[o] {
			a.counter[o] = true
		}
	}
}

func funcName(fd *ast.FuncDecl) string {
	if fd.Recv == nil || len(fd.Recv.List) == 0 {
		return fd.Name.Name
	}
	var b bytes.Buffer
	t := fd.Recv.List[0].Type
	star := ""
	if s, ok := t.(*ast.StarExpr); ok {
		star, t = "*", s.X
	}
	if ix, ok := t.(*ast.IndexExpr); ok {
		t = ix.X
	}
	if ix, ok := t.(*ast.IndexListExpr); ok {
		t = ix.X
	}
	if id, ok := t.(*ast.Ident); ok {
		b.WriteString("(" + star + id.Name + ").")
	}
	b.WriteString(fd.Name.Name)
	return b.String()
}

var sitePkgs = []string{"memdb", "server", "resp", "util", "raftexample"}

func extractSites(repo string) ([]siteOut, *xinfo, error) {
	fset := token.NewFileSet()
	l := &loader{repo: repo, fset: fset, cache: map[string]*loadedPkg{}}
	l.std = importer.ForCompiler(fset, "source", nil)
	var out []siteOut
	for _, p := range sitePkgs {
		if _, err := l.Import("github.com/innovationb1ue/RedisGO/" + p); err != nil {
			return nil, nil, err
		}
	}
	x := scanExecutors(l)
	scanConstErr(l, x)
	scanNilable(l, x)
	scanAlias(l, x)
	for _, p := range sitePkgs {
		path := "github.com/innovationb1ue/RedisGO/" + p
		lp := l.cache[path]
		for i, f := range lp.files {
			if verifFile(lp.names[i], f) {
				continue
			}
			a := &analyser{fset: fset, info: lp.info, pkg: lp.pkg, file: p + "/" + lp.names[i], out: &out, x: x}
			for _, d := range f.Decls {
				switch v := d.(type) {
				case *ast.FuncDecl:
					if v.Body == nil {
						continue
					}
					a.fn = funcName(v)
					a.prepare(v.Body)
					a.computeTaint(v.Type.Params, v.Body)
					entry := newState()
					if obj := lp.info.Defs[v.Name]; obj != nil && x.execs[obj] && !x.escaped[obj] && !a.bail {
						// a registered executor: its third parameter is the command, entered with ≥ execEntryMin words
						var params []*ast.Ident
						for _, fl := range v.Type.Params.List {
							params = append(params, fl.Names...)
						}
						if len(params) == 4 {
							if cmd := a.lenVar(params[2]); cmd != nil {
								entry.lens[cmd] = lenset{{execEntryMin, inf}}
							}
						}
					}
					a.block(v.Body.List, entry)
				case *ast.GenDecl:
					if v.Tok != token.VAR {
						continue
					}
					a.fn = "<package var>"
					a.prepare(v)
					a.tainted = map[types.Object]bool{}
					for _, sp := range v.Specs {
						for _, val := range sp.(*ast.ValueSpec).Values {
							a.expr(val, newState())
						}
					}
				}
			}
		}
	}
	sort.SliceStable(out, func(i, j int) bool {
		if out[i].File != out[j].File {
			return out[i].File < out[j].File
		}
		return out[i].Line < out[j].Line
	})
	sort.SliceStable(x.calls, func(i, j int) bool {
		if x.calls[i].File != x.calls[j].File {
			return x.calls[i].File < x.calls[j].File
		}
		return x.calls[i].Line < x.calls[j].Line
	})
	sort.SliceStable(x.nils, func(i, j int) bool {
		if x.nils[i].File != x.nils[j].File {
			return x.nils[i].File < x.nils[j].File
		}
		return x.nils[i].Line < x.nils[j].Line
	})
	sort.SliceStable(x.replies, func(i, j int) bool {
		if x.replies[i].File != x.replies[j].File {
			return x.replies[i].File < x.replies[j].File
		}
		return x.replies[i].Line < x.replies[j].Line
	})
	return out, x, nil
}

func isDefOf(info *types.Info, l ast.Expr, o types.Object) bool {
	id, ok := l.(*ast.Ident)
	return ok && info.Defs[id] == o
}

// the functions registered through RegisterCommand("name", fn), and every other use of them
func scanExecutors(l *loader) *xinfo {
	x := &xinfo{execs: map[types.Object]bool{}, escaped: map[types.Object]bool{}}
	mem := l.cache["github.com/innovationb1ue/RedisGO/memdb"]
	if mem == nil || mem.pkg == nil {
		return x
	}
	if tn, ok := mem.pkg.Scope().Lookup("cmdExecutor").(*types.TypeName); ok {
		x.execType = tn.Type()
	}
	registered := map[*ast.Ident]bool{}
	for _, f := range mem.files {
		ast.Inspect(f, func(n ast.Node) bool {
			if c, ok := n.(*ast.CallExpr); ok && callName(c.Fun) == "RegisterCommand" && len(c.Args) == 2 {
				if id, ok := c.Args[1].(*ast.Ident); ok {
					if fn, ok := mem.info.Uses[id].(*types.Func); ok {
						x.execs[fn] = true
						registered[id] = true
					}
				}
			}
			return true
		})
	}
	for _, p := range sitePkgs {
		lp := l.cache["github.com/innovationb1ue/RedisGO/"+p]
		if lp == nil {
			continue
		}
		for _, f := range lp.files {
			callFun := map[*ast.Ident]bool{}
			ast.Inspect(f, func(n ast.Node) bool {
				if c, ok := n.(*ast.CallExpr); ok {
					switch fun := c.Fun.(type) {
					case *ast.Ident:
						callFun[fun] = true
					case *ast.SelectorExpr:
						callFun[fun.Sel] = true
					}
				}
				return true
			})
			ast.Inspect(f, func(n ast.Node) bool {
				if id, ok := n.(*ast.Ident); ok {
					if obj := lp.info.Uses[id]; obj != nil && x.execs[obj] && !registered[id] && !callFun[id] {
						x.escaped[obj] = true
					}
				}
				return true
			})
		}
	}
	return x
}

// for … := range x { …; y = append(y, e1 … ek); … }  where the append is a top-level statement of the body, the only assignment
// to y in the loop, and the body has no break / continue / goto: every iteration appends k elements, so after the loop
// len(y) ≥ len(y before) + k·len(x).
func (a *analyser) rangeAppend(v *ast.RangeStmt, before, after *state) {
	if a.bail || after.dead {
		return
	}
	x := a.lenVar(v.X)
	if x == nil {
		return
	}
	if _, isSlice := x.Type().Underlying().(*types.Slice); !isSlice {
		return // ranging over a string yields runes, not bytes
	}
	mx, _ := before.minLen(x)
	if _, reassigned := a.assignedIn(v.Body)[x]; reassigned {
		return
	}
	branch := false
	ast.Inspect(v.Body, func(n ast.Node) bool {
		if _, ok := n.(*ast.BranchStmt); ok {
			branch = true
		}
		return !branch
	})
	if branch {
		return
	}
	for _, s := range v.Body.List {
		as, ok := s.(*ast.AssignStmt)
		if !ok || as.Tok != token.ASSIGN || len(as.Lhs) != 1 || len(as.Rhs) != 1 {
			continue
		}
		call, ok := as.Rhs[0].(*ast.CallExpr)
		if !ok || !a.builtin(call.Fun, "append") || call.Ellipsis != token.NoPos || len(call.Args) < 2 {
			continue
		}
		y := a.lenVar(as.Lhs[0])
		if y == nil || y == x || a.lenVar(call.Args[0]) != y {
			continue
		}
		n := 0
		ast.Inspect(v.Body, func(c ast.Node) bool {
			switch w := c.(type) {
			case *ast.AssignStmt:
				for _, l := range w.Lhs {
					if a.objOf(l) == y {
						n++
					}
				}
			case *ast.IncDecStmt:
				if a.objOf(w.X) == y {
					n++
				}
			case *ast.RangeStmt:
				if a.objOf(w.Key) == y || a.objOf(w.Value) == y {
					n++
				}
			}
			return true
		})
		if n != 1 {
			continue
		}
		base, _ := before.minLen(y)
		if n := base + int64(len(call.Args)-1)*mx; n > 0 {
			after.lens[y] = lenset{{n, inf}}
		}
		after.lge[relKey{y, x}] = 0
	}
}

// functions of the inventoried packages whose every returned error is nil, a package-level `errors.New("constant")`, an inline
// errors.New / fmt.Errorf of a constant, or the error of a call of such a function (least fixed point)
func scanConstErr(l *loader, x *xinfo) {
	x.constErr = map[types.Object]bool{}
	type fdecl struct {
		fd   *ast.FuncDecl
		info *types.Info
	}
	var all []fdecl
	constVar := map[types.Object]bool{}
	isConstErrCall := func(info *types.Info, e ast.Expr) bool {
		c, ok := ast.Unparen(e).(*ast.CallExpr)
		if !ok {
			return false
		}
		n := callName(c.Fun)
		if (n == "errors.New" && len(c.Args) == 1) || (n == "fmt.Errorf" && len(c.Args) == 1) {
			tv, ok := info.Types[c.Args[0]]
			return ok && tv.Value != nil
		}
		return false
	}
	for _, p := range sitePkgs {
		lp := l.cache["github.com/innovationb1ue/RedisGO/"+p]
		if lp == nil {
			continue
		}
		for _, f := range lp.files {
			for _, d := range f.Decls {
				switch v := d.(type) {
				case *ast.FuncDecl:
					if v.Body != nil {
						all = append(all, fdecl{v, lp.info})
					}
				case *ast.GenDecl:
					if v.Tok != token.VAR {
						continue
					}
					for _, sp := range v.Specs {
						vs := sp.(*ast.ValueSpec)
						for i, name := range vs.Names {
							if len(vs.Values) == len(vs.Names) && isConstErrCall(lp.info, vs.Values[i]) {
								constVar[lp.info.Defs[name]] = true
							}
						}
					}
				}
			}
		}
	}
	// a package-level error variable must never be re-assigned
	for _, p := range sitePkgs {
		lp := l.cache["github.com/innovationb1ue/RedisGO/"+p]
		if lp == nil {
			continue
		}
		for _, f := range lp.files {
			ast.Inspect(f, func(n ast.Node) bool {
				if as, ok := n.(*ast.AssignStmt); ok {
					for _, lh := range as.Lhs {
						if id, ok := lh.(*ast.Ident); ok {
							delete(constVar, lp.info.Uses[id])
						}
					}
				}
				if u, ok := n.(*ast.UnaryExpr); ok && u.Op == token.AND {
					if id, ok := u.X.(*ast.Ident); ok {
						delete(constVar, lp.info.Uses[id])
					}
				}
				return true
			})
		}
	}
	calleeOf := func(info *types.Info, e ast.Expr) types.Object {
		c, ok := ast.Unparen(e).(*ast.CallExpr)
		if !ok {
			return nil
		}
		switch f := ast.Unparen(c.Fun).(type) {
		case *ast.Ident:
			if fn, ok := info.Uses[f].(*types.Func); ok {
				return fn
			}
		case *ast.SelectorExpr:
			if fn, ok := info.Uses[f.Sel].(*types.Func); ok {
				return fn
			}
		}
		return nil
	}
	for round := 0; round < 6; round++ {
		changed := false
		for _, d := range all {
			fd, info := d.fd, d.info
			fn := info.Defs[fd.Name]
			if fn == nil || x.constErr[fn] || fd.Type.Results == nil {
				continue
			}
			sig, ok := fn.Type().(*types.Signature)
			if !ok {
				continue
			}
			var errIdx []int
			for i := 0; i < sig.Results().Len(); i++ {
				if isErrorType(sig.Results().At(i).Type()) {
					errIdx = append(errIdx, i)
				}
			}
			if len(errIdx) == 0 {
				continue
			}
			var okExpr func(e ast.Expr, depth int) bool
			okVar := func(o types.Object, depth int) bool {
				if depth > 3 {
					return false
				}
				good := true
				ast.Inspect(fd.Body, func(n ast.Node) bool {
					switch v := n.(type) {
					case *ast.AssignStmt:
						for i, lh := range v.Lhs {
							id, isId := lh.(*ast.Ident)
							if !isId || (info.Uses[id] != o && info.Defs[id] != o) {
								continue
							}
							if len(v.Lhs) == len(v.Rhs) {
								if !okExpr(v.Rhs[i], depth+1) {
									good = false
								}
							} else if c := calleeOf(info, v.Rhs[0]); c == nil || !x.constErr[c] {
								good = false
							}
						}
					case *ast.ValueSpec:
						for i, name := range v.Names {
							if info.Defs[name] == o && len(v.Values) > 0 {
								if len(v.Values) != len(v.Names) || !okExpr(v.Values[i], depth+1) {
									good = false
								}
							}
						}
					case *ast.UnaryExpr:
						if id, isId := v.X.(*ast.Ident); isId && v.Op == token.AND && info.Uses[id] == o {
							good = false
						}
					}
					return good
				})
				return good
			}
			okExpr = func(e ast.Expr, depth int) bool {
				e = ast.Unparen(e)
				if id, isId := e.(*ast.Ident); isId {
					if id.Name == "nil" {
						return true
					}
					o := info.Uses[id]
					if o == nil {
						return false
					}
					if constVar[o] {
						return true
					}
					if v, isVar := o.(*types.Var); isVar && !v.IsField() && o.Parent() != o.Pkg().Scope() {
						return okVar(o, depth)
					}
					return false
				}
				if isConstErrCall(info, e) {
					return true
				}
				if c := calleeOf(info, e); c != nil && x.constErr[c] {
					return true
				}
				return false
			}
			good := true
			ast.Inspect(fd.Body, func(n ast.Node) bool {
				if _, isLit := n.(*ast.FuncLit); isLit {
					return false
				}
				ret, isRet := n.(*ast.ReturnStmt)
				if !isRet || !good {
					return good
				}
				switch {
				case len(ret.Results) == 0: // named results
					k := 0
					for _, f := range fd.Type.Results.List {
						for _, name := range f.Names {
							for _, i := range errIdx {
								if i == k && !okVar(info.Defs[name], 0) {
									good = false
								}
							}
							k++
						}
					}
				case len(ret.Results) == sig.Results().Len():
					for _, i := range errIdx {
						if !okExpr(ret.Results[i], 0) {
							good = false
						}
					}
				default:
					if c := calleeOf(info, ret.Results[0]); c == nil || !x.constErr[c] {
						good = false
					}
				}
				return good
			})
			if good {
				x.constErr[fn] = true
				changed = true
			}
		}
		if !changed {
			break
		}
	}
}

// ------------------------------------------------------------------------------------------------ nil / presence (fact F3, second part)

type nilSite struct {
	File  string `json:"file"`
	Func  string `json:"func"`
	Line  int    `json:"line"`
	Text  string `json:"text"`
	Kind  string `json:"kind"`  // assert | deref
	Class string `json:"class"` // guarded | unguarded
	Guard string `json:"guard,omitempty"`
	From  string `json:"from,omitempty"`
}

func (a *analyser) nilFacts(st *state, lhs, rhs []ast.Expr) {
	if len(rhs) != 1 {
		return
	}
	call, isCall := ast.Unparen(rhs[0]).(*ast.CallExpr)
	switch {
	case len(lhs) == 2:
		v, ok := a.objOf(lhs[0]), a.objOf(lhs[1])
		if v == nil || ok == nil || !a.local(v) || !a.local(ok) {
			return
		}
		if b, isB := ok.Type().Underlying().(*types.Basic); !isB || b.Kind() != types.Bool {
			return
		}
		if _, isTA := ast.Unparen(rhs[0]).(*ast.TypeAssertExpr); isCall || isTA {
			st.okOf[ok] = v
		}
		if isCall {
			if fn := a.callee(call); fn != nil && a.x != nil && a.x.nilable[originOf(fn)] {
				st.nilSrc[v] = fn.Name()
			}
		}
	case len(lhs) == 1 && isCall:
		v := a.objOf(lhs[0])
		if v == nil || !a.local(v) {
			return
		}
		if fn := a.callee(call); fn != nil && a.x != nil && a.x.nilable[originOf(fn)] {
			st.nilSrc[v] = fn.Name()
		}
	}
}

func originOf(o types.Object) types.Object {
	if f, ok := o.(*types.Func); ok {
		return f.Origin()
	}
	return o
}

func (a *analyser) nilRecord(n ast.Node, kind string, v types.Object, st *state) {
	if a.x == nil || st.dead {
		return
	}
	site := nilSite{File: a.file, Func: a.fn, Line: a.fset.Position(n.Pos()).Line, Text: a.text(n), Kind: kind, Class: "unguarded"}
	if v != nil {
		site.From = st.nilSrc[v]
		if st.nonNil[v] && !a.bail {
			site.Class = "guarded"
			site.Guard = v.Name() + " present / non-nil on every path"
		}
	}
	a.x.nils = append(a.x.nils, site)
}

// functions (of the inventoried packages) whose first result is a pointer / interface and that have a `return nil, …` somewhere
func scanNilable(l *loader, x *xinfo) {
	x.nilable = map[types.Object]bool{}
	for _, p := range sitePkgs {
		lp := l.cache["github.com/innovationb1ue/RedisGO/"+p]
		if lp == nil {
			continue
		}
		for _, f := range lp.files {
			for _, d := range f.Decls {
				fd, ok := d.(*ast.FuncDecl)
				if !ok || fd.Body == nil || fd.Type.Results == nil {
					continue
				}
				fn := lp.info.Defs[fd.Name]
				if fn == nil {
					continue
				}
				sig, ok := fn.Type().(*types.Signature)
				if !ok || sig.Results().Len() == 0 {
					continue
				}
				switch sig.Results().At(0).Type().Underlying().(type) {
				case *types.Pointer, *types.Interface:
				default:
					if _, isTP := sig.Results().At(0).Type().(*types.TypeParam); !isTP {
						continue
					}
				}
				ast.Inspect(fd.Body, func(n ast.Node) bool {
					if _, isLit := n.(*ast.FuncLit); isLit {
						return false
					}
					if ret, ok := n.(*ast.ReturnStmt); ok && len(ret.Results) > 0 {
						if id, ok := ast.Unparen(ret.Results[0]).(*ast.Ident); ok && id.Name == "nil" {
							x.nilable[fn] = true
						}
						// a zero-valued local of the result type (`var zero T; return zero`) is not recognised
					}
					return true
				})
			}
		}
	}
}

// for i := a; i < len(x); i++ { …; y = append(y, e1 … ek); … }  with the append a top-level statement of the body and the only assignment
// to y in the loop, i changed only by the post statement `i++`, x not assigned, no break / continue / goto in the body: the body runs
// max(0, len(x) − a) times, so after the loop len(y) ≥ len(x) − a (and ≥ what y had before).
func (a *analyser) forAppend(v *ast.ForStmt, before, after *state) {
	if a.bail || after.dead || v.Init == nil || v.Cond == nil || v.Post == nil {
		return
	}
	init, ok := v.Init.(*ast.AssignStmt)
	if !ok || len(init.Lhs) != 1 || len(init.Rhs) != 1 {
		return
	}
	i := a.intVar(init.Lhs[0])
	start, okS := a.constInt(init.Rhs[0])
	post, okP := v.Post.(*ast.IncDecStmt)
	cond, okC := ast.Unparen(v.Cond).(*ast.BinaryExpr)
	if i == nil || !okS || start < 0 || !okP || post.Tok != token.INC || a.objOf(post.X) != i || !okC || cond.Op != token.LSS || a.objOf(cond.X) != i {
		return
	}
	r := a.lin(cond.Y, before)
	if r.kind != lfLen || r.c > 0 {
		return
	}
	x := r.obj
	assigned := a.assignedIn(v.Body)
	if _, bad := assigned[x]; bad {
		return
	}
	if _, bad := assigned[i]; bad {
		return
	}
	branch := false
	ast.Inspect(v.Body, func(n ast.Node) bool {
		if _, ok := n.(*ast.BranchStmt); ok {
			branch = true
		}
		return !branch
	})
	if branch {
		return
	}
	for _, s := range v.Body.List {
		as, ok := s.(*ast.AssignStmt)
		if !ok || as.Tok != token.ASSIGN || len(as.Lhs) != 1 || len(as.Rhs) != 1 {
			continue
		}
		call, ok := as.Rhs[0].(*ast.CallExpr)
		if !ok || !a.builtin(call.Fun, "append") || call.Ellipsis != token.NoPos || len(call.Args) < 2 {
			continue
		}
		y := a.lenVar(as.Lhs[0])
		if y == nil || y == x || a.lenVar(call.Args[0]) != y {
			continue
		}
		n := 0
		ast.Inspect(v.Body, func(c ast.Node) bool {
			if w, ok := c.(*ast.AssignStmt); ok {
				for _, l := range w.Lhs {
					if a.objOf(l) == y {
						n++
					}
				}
			}
			if w, ok := c.(*ast.RangeStmt); ok && (a.objOf(w.Key) == y || a.objOf(w.Value) == y) {
				n++
			}
			return true
		})
		if n != 1 {
			continue
		}
		// iterations = len(x) + r.c − start (if positive)
		after.lge[relKey{y, x}] = r.c - start
		if base, ok := before.minLen(y); ok && base > 0 {
			after.lens[y] = lenset{{base, inf}}
		}
	}
}
