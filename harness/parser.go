package main

import (
	"bufio"
	"context"
	"fmt"
	"io"
	"math/rand"
	"os"
	"strconv"
	"strings"
	"time"

	"github.com/innovationb1ue/RedisGO/resp"
)

// chunkReader hands out the stream in pieces: mode 0 = whole, 1 = byte by byte, n>1 = seeded random sizes.
type chunkReader struct {
	data  []byte
	mode  int64
	rng   *rand.Rand
	sizes []int // the size of every chunk handed out (one underlying Read each), for the model's chunked reader
}

func (c *chunkReader) Read(p []byte) (int, error) {
	if len(c.data) == 0 {
		return 0, io.EOF
	}
	n := len(c.data)
	switch {
	case c.mode == 1:
		n = 1
	case c.mode > 1:
		switch c.rng.Intn(4) {
		case 0:
			n = 1
		case 1:
			n = 1 + c.rng.Intn(3)
		case 2:
			n = 1 + c.rng.Intn(64)
		default:
			n = 1 + c.rng.Intn(5000)
		}
	}
	if n > len(c.data) {
		n = len(c.data)
	}
	if n > len(p) {
		n = len(p)
	}
	copy(p, c.data[:n])
	c.data = c.data[n:]
	c.sizes = append(c.sizes, n)
	return n, nil
}

// renderSizes: "k=3,1x40,7" (run-length encoded: size x repetitions); "k=-" when nothing was read.
func renderSizes(sz []int) string {
	if len(sz) == 0 {
		return "k=-"
	}
	var parts []string
	for i := 0; i < len(sz); {
		j := i
		for j < len(sz) && sz[j] == sz[i] {
			j++
		}
		if j-i > 1 {
			parts = append(parts, fmt.Sprintf("%dx%d", sz[i], j-i))
		} else {
			parts = append(parts, strconv.Itoa(sz[i]))
		}
		i = j
	}
	return "k=" + strings.Join(parts, ",")
}

func renderVal(d resp.RedisData) string {
	switch v := d.(type) {
	case *resp.BulkData:
		if v.Data() == nil {
			return "Bn"
		}
		return "B:" + hx(v.Data())
	case *resp.ArrayData:
		if v.Data() == nil {
			return "An"
		}
		parts := make([]string, 0, len(v.Data()))
		for _, e := range v.Data() {
			parts = append(parts, renderVal(e))
		}
		return "A[" + strings.Join(parts, ";") + "]"
	case *resp.StringData:
		return "S:" + hx([]byte(v.Data()))
	case *resp.ErrorData:
		return "R:" + hx([]byte(v.Error()))
	case *resp.IntData:
		return "I:" + strconv.FormatInt(v.Data(), 10)
	case *resp.PlainData:
		return "T:" + hx([]byte(v.Data()))
	case nil:
		return "nil"
	}
	return "?"
}

func parseEvents(stream []byte, mode int64) (chunks string, events string) {
	ctx, cancel := context.WithCancel(context.Background())
	defer cancel()
	cr := &chunkReader{data: stream, mode: mode, rng: rand.New(rand.NewSource(mode))}
	ch := resp.ParseStream(ctx, cr)
	var evs []string
	timeout := time.After(20 * time.Second)
	for {
		select {
		case r, ok := <-ch:
			if !ok {
				// the parser goroutine has returned (it closed the channel): cr.sizes is no longer written
				return renderSizes(cr.sizes), strings.Join(evs, ",")
			}
			if r.Err != nil {
				if r.Err == io.EOF {
					evs = append(evs, "Z")
				} else {
					evs = append(evs, "E")
				}
			} else {
				evs = append(evs, renderVal(r.Data))
			}
		case <-timeout:
			evs = append(evs, "HANG")
			return "k=-", strings.Join(evs, ",")
		}
	}
}

// runParser: "P <stream-hex> <mode>" -> appends "k=<chunk sizes the reader handed out>" and the comma-separated event list.
// Output is flushed per line: a panic in the parser goroutine kills the process, the orchestrator restarts after it.
func runParser(args []string) {
	in := bufio.NewScanner(os.Stdin)
	in.Buffer(make([]byte, 1<<20), 1<<28)
	out := bufio.NewWriter(os.Stdout)
	for in.Scan() {
		line := in.Text()
		f := strings.Fields(line)
		if len(f) != 3 || f[0] != "P" {
			continue
		}
		mode, _ := strconv.ParseInt(f[2], 10, 64)
		ks, evs := parseEvents(unhex(f[1]), mode)
		fmt.Fprintf(out, "%s %s %s\n", line, ks, evs)
		out.Flush()
	}
}
