package main

import (
	"bufio"
	"context"
	"fmt"
	"io"
	"math/rand"
	"os"
	"strconv"
	"strings"
	"time"

	"github.com/innovationb1ue/RedisGO/resp"
)

// chunkReader hands out the stream in pieces: mode 0 = whole, 1 = byte by byte, n>1 = seeded random sizes.
type chunkReader struct {
	data []byte
	mode int64
	rng  *rand.Rand
}

func (c *chunkReader) Read(p []byte) (int, error) {
	if len(c.data) == 0 {
		return 0, io.EOF
	}
	n := len(c.data)
	switch {
	case c.mode == 1:
		n = 1
	case c.mode > 1:
		switch c.rng.Intn(4) {
		case 0:
			n = 1
		case 1:
			n = 1 + c.rng.Intn(3)
		case 2:
			n = 1 + c.rng.Intn(64)
		default:
			n = 1 + c.rng.Intn(5000)
		}
	}
	if n > len(c.data) {
		n = len(c.data)
	}
	if n > len(p) {
		n = len(p)
	}
	copy(p, c.data[:n])
	c.data = c.data[n:]
	return n, nil
}

func renderVal(d resp.RedisData) string {
	switch v := d.(type) {
	case *resp.BulkData:
		if v.Data() == nil {
			return "Bn"
		}
		return "B:" + hx(v.Data())
	case *resp.ArrayData:
		if v.Data() == nil {
			return "An"
		}
		parts := make([]string, 0, len(v.Data()))
		for _, e := range v.Data() {
			parts = append(parts, renderVal(e))
		}
		return "A[" + strings.Join(parts, ";") + "]"
	case *resp.StringData:
		return "S:" + hx([]byte(v.Data()))
	case *resp.ErrorData:
		return "R:" + hx([]byte(v.Error()))
	case *resp.IntData:
		return "I:" + strconv.FormatInt(v.Data(), 10)
	case *resp.PlainData:
		return "T:" + hx([]byte(v.Data()))
	case nil:
		return "nil"
	}
	return "?"
}

func parseEvents(stream []byte, mode int64) string {
	ctx, cancel := context.WithCancel(context.Background())
	defer cancel()
	ch := resp.ParseStream(ctx, &chunkReader{data: stream, mode: mode, rng: rand.New(rand.NewSource(mode))})
	var evs []string
	timeout := time.After(20 * time.Second)
	for {
		select {
		case r, ok := <-ch:
			if !ok {
				return strings.Join(evs, ",")
			}
			if r.Err != nil {
				if r.Err == io.EOF {
					evs = append(evs, "Z")
				} else {
					evs = append(evs, "E")
				}
			} else {
				evs = append(evs, renderVal(r.Data))
			}
		case <-timeout:
			evs = append(evs, "HANG")
			return strings.Join(evs, ",")
		}
	}
}

// runParser: "P <stream-hex> <mode>" -> appends the comma-separated event list.
// Output is flushed per line: a panic in the parser goroutine kills the process, the orchestrator restarts after it.
func runParser(args []string) {
	in := bufio.NewScanner(os.Stdin)
	in.Buffer(make([]byte, 1<<20), 1<<28)
	out := bufio.NewWriter(os.Stdout)
	for in.Scan() {
		line := in.Text()
		f := strings.Fields(line)
		if len(f) != 3 || f[0] != "P" {
			continue
		}
		mode, _ := strconv.ParseInt(f[2], 10, 64)
		fmt.Fprintf(out, "%s %s\n", line, parseEvents(unhex(f[1]), mode))
		out.Flush()
	}
}
