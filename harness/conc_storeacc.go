package main

import (
	"encoding/json"
	"fmt"
	"strings"
	"sync"
	"sync/atomic"

	"github.com/innovationb1ue/RedisGO/config"
	"github.com/innovationb1ue/RedisGO/server"
)

// storeacc (C11, C05): the accumulate idioms of the STORE forms, in which the destination is one of the sources, run by several clients
// on the SAME destination at the same moment:
//
//	SUNIONSTORE acc acc src-g-i     (src-g-i holds one member nobody else adds)      acc only grows
//	SDIFFSTORE  live live dead-g-i  (dead-g-i holds one member of live)              live only shrinks
//	SINTERSTORE mask mask keep-g    (keep-g = everything but one member of its own)  mask only shrinks
//
// Each command is atomic, so whatever the interleaving: the reply of SUNIONSTORE (the cardinality of the result) is at least the number
// of this client's earlier acknowledged unions plus the preloaded members; and at quiescence acc holds every member any acknowledged
// union added, live lacks every member any acknowledged difference removed (and holds the untouched ones), mask lacks every member an
// intersection dropped.  A STORE form that reads its sources and installs its result in two steps loses the update of whoever ran in
// between.  Added after the seeded change C11-store-mixed-lock-shared-dest (a stripe guarding both the destination and a source was
// taken shared), which the footprint trace of C05/C13 saw and the set family's own scenarios did not.
func storeAcc(seed int64, rounds int, want map[string]bool, enc *json.Encoder) {
	if !want["all"] && !want["storeacc"] {
		return
	}
	for r := 0; r < rounds; r++ {
		ngo := []int{4, 8, 16}[r%3]
		const per = 40
		rep := concReport{Scenario: "storeacc", Seed: seed + int64(r), Goroutines: ngo, Shards: []int{1024, 1, 2}[r%3]}
		config.Configures.ShardNum = rep.Shards
		mgr := server.NewManager(config.Configures)
		perturb.Store(r%2 == 1)
		fail := func(msg string) { rep.Result, rep.Detail = "invariant", msg }
		// preload
		args := []string{"SADD", "live"}
		for g := 0; g < ngo; g++ {
			for i := 0; i < per; i++ {
				args = append(args, fmt.Sprintf("d-%d-%d", g, i))
			}
		}
		args = append(args, "stay-1", "stay-2")
		runCmd(mgr, args...)
		margs := []string{"SADD", "mask"}
		for g := 0; g < ngo; g++ {
			margs = append(margs, fmt.Sprintf("k-%d", g))
		}
		margs = append(margs, "stay-1")
		runCmd(mgr, margs...)
		runCmd(mgr, "SADD", "acc", "pre-1", "pre-2")
		for g := 0; g < ngo; g++ {
			for i := 0; i < per; i++ {
				runCmd(mgr, "SADD", fmt.Sprintf("src-%d-%d", g, i), fmt.Sprintf("a-%d-%d", g, i))
				runCmd(mgr, "SADD", fmt.Sprintf("dead-%d-%d", g, i), fmt.Sprintf("d-%d-%d", g, i), "never-there")
			}
			keep := []string{"SADD", fmt.Sprintf("keep-%d", g)}
			for h := 0; h < ngo; h++ {
				if h != g {
					keep = append(keep, fmt.Sprintf("k-%d", h))
				}
			}
			keep = append(keep, "stay-1", "extra")
			runCmd(mgr, keep...)
		}
		var bad atomic.Value
		var ops atomic.Int64
		var wg sync.WaitGroup
		for g := 0; g < ngo; g++ {
			wg.Add(1)
			go func(g int) {
				defer wg.Done()
				for i := 0; i < per && bad.Load() == nil; i++ {
					out, p := runCmd(mgr, "SUNIONSTORE", "acc", "acc", fmt.Sprintf("src-%d-%d", g, i))
					ops.Add(1)
					var n int
					if _, err := fmt.Sscanf(out, ":%d\r\n", &n); p || err != nil || n < 2+i+1 || n > 2+ngo*per {
						bad.CompareAndSwap(nil, fmt.Sprintf("client %d: SUNIONSTORE acc acc src-%d-%d answered %q; acc held 2 members at the start and this client alone had added %d before (every union acknowledged)", g, g, i, out, i))
						return
					}
					out, p = runCmd(mgr, "SDIFFSTORE", "live", "live", fmt.Sprintf("dead-%d-%d", g, i))
					ops.Add(1)
					if _, err := fmt.Sscanf(out, ":%d\r\n", &n); p || err != nil || n > 2+ngo*per-(i+1) || n < 2 {
						bad.CompareAndSwap(nil, fmt.Sprintf("client %d: SDIFFSTORE live live dead-%d-%d answered %q; live held %d members at the start and this client alone had removed %d before", g, g, i, out, 2+ngo*per, i))
						return
					}
					if i == per/2 {
						out, p = runCmd(mgr, "SINTERSTORE", "mask", "mask", fmt.Sprintf("keep-%d", g))
						ops.Add(1)
						if _, err := fmt.Sscanf(out, ":%d\r\n", &n); p || err != nil || n < 1 || n > ngo {
							bad.CompareAndSwap(nil, fmt.Sprintf("client %d: SINTERSTORE mask mask keep-%d answered %q", g, g, out))
							return
						}
					}
				}
			}(g)
		}
		wg.Wait()
		perturb.Store(false)
		rep.Ops = int(ops.Load())
		rep.Result = "ok"
		if b := bad.Load(); b != nil {
			fail(b.(string))
		} else {
			acc, ok1 := flatBulkSet(first(runCmd(mgr, "SMEMBERS", "acc")))
			live, ok2 := flatBulkSet(first(runCmd(mgr, "SMEMBERS", "live")))
			mask, ok3 := flatBulkSet(first(runCmd(mgr, "SMEMBERS", "mask")))
			var miss []string
			if !ok1 || !ok2 || !ok3 {
				miss = append(miss, "SMEMBERS did not answer an array")
			}
			for g := 0; g < ngo && len(miss) < 4; g++ {
				for i := 0; i < per && len(miss) < 4; i++ {
					if !acc[fmt.Sprintf("a-%d-%d", g, i)] {
						miss = append(miss, fmt.Sprintf("acc lacks a-%d-%d although SUNIONSTORE acc acc src-%d-%d was acknowledged (a concurrent union of another client installed a result computed from the older acc)", g, i, g, i))
					}
					if live[fmt.Sprintf("d-%d-%d", g, i)] {
						miss = append(miss, fmt.Sprintf("live still holds d-%d-%d although SDIFFSTORE live live dead-%d-%d was acknowledged", g, i, g, i))
					}
				}
				if mask[fmt.Sprintf("k-%d", g)] {
					miss = append(miss, fmt.Sprintf("mask still holds k-%d although SINTERSTORE mask mask keep-%d was acknowledged", g, g))
				}
			}
			if ok1 && ok2 && ok3 && miss == nil && (len(acc) != 2+ngo*per || len(live) != 2 || !live["stay-1"] || !live["stay-2"] || len(mask) != 1 || !mask["stay-1"] || !acc["pre-1"]) {
				miss = append(miss, fmt.Sprintf("at quiescence acc has %d members (%d expected), live %d (2 expected), mask %d (1 expected)", len(acc), 2+ngo*per, len(live), len(mask)))
			}
			if miss != nil {
				fail("storeacc: " + strings.Join(miss, "; "))
			}
		}
		enc.Encode(rep)
	}
}

func first(out string, _ bool) string { return out }
