package main

// readyloop engine (C08, C07): "durability before externalisation" on the REAL Ready loop of a cluster node.
//
// One real raftexample.RaftNode (id 2 of peers {1,2,3}) runs with its real WAL and snapshot directory, its real rafthttp
// transport and its real serveChannels goroutine.  The harness plays peers 1 and 3: inbound messages go through
// RaftNode.Process, outbound messages are observed by hook H4 (VerifObserveSend: a callback that runs synchronously inside
// rc.transport.Send, i.e. inside the Ready arm, while the node is blocked there) and are then really posted by the node's
// rafthttp pipeline to stub endpoints the harness serves on the two peer URLs.  Entries delivered on the commit channel are
// consumed (ApplyDoneC closed) by the harness.
//
// ORACLE, evaluated at the moment of each externalisation by reading the node's directories from disk with a separate
// read-only open exactly as a restart would (wal.ValidSnapshotEntries + LoadNewestAvailable + wal.OpenForRead + ReadAll):
//   E1  every outgoing message m:                      on-disk HardState.Term >= m.Term
//   E2  a granting MsgVoteResp to X in term T          on-disk (Term, Vote) == (T, X); the node's own MsgVote in term T: (T, 2)
//   E3  an accepting MsgAppResp with Index i           the on-disk log reaches i and holds the entries the leader sent, with their terms
//   E4  every proposal delivered on the commit channel  its entry is on disk (the on-disk commit index may lag); a nil (snapshot)
//                                                       signal: the snapshot is on disk
//   E6  a commit index c sent by node 2 as leader that needs node 2's own copy for the quorum: the on-disk log reaches c
//   E5  restarts (`restart`: clean stop through proposeC; `crash`: the node is stopped too, but the new life starts from a copy of
//       the directories taken BEFORE the stop - what a kill -9 at that instant leaves, i.e. without whatever the WAL still
//       buffered in memory; then a new RaftNode on the same directories): the restarted node's (term, vote) is what
//       the oracle reads from disk; it is not behind anything the node externalised before (term, vote of that term, acknowledged
//       entries, delivered entries); and over the whole scenario no two grants in one term go to different candidates.
//
// stdin: one scenario per line {"name":..,"events":[..]}; stdout: one report per line.

import (
	"bufio"
	"context"
	"encoding/json"
	"fmt"
	"io"
	"log"
	"net"
	"net/http"
	"os"
	"path/filepath"
	"sort"
	"strings"
	"sync"
	"sync/atomic"
	"time"

	"github.com/innovationb1ue/RedisGO/raftexample"
	"go.etcd.io/etcd/client/pkg/v3/fileutil"
	"go.etcd.io/etcd/raft/v3"
	"go.etcd.io/etcd/raft/v3/raftpb"
	"go.etcd.io/etcd/server/v3/etcdserver/api/snap"
	"go.etcd.io/etcd/server/v3/storage/wal"
	"go.etcd.io/etcd/server/v3/storage/wal/walpb"
	"go.uber.org/zap"
)

type rlEvent struct {
	K      string   `json:"k"`
	From   uint64   `json:"from,omitempty"`
	Term   uint64   `json:"term,omitempty"`
	LT     uint64   `json:"lt,omitempty"`     // vote: term of the candidate's last entry
	LI     uint64   `json:"li,omitempty"`     // vote: index of the candidate's last entry
	PI     uint64   `json:"pi,omitempty"`     // app: index of the entry before the new ones
	PT     uint64   `json:"pt,omitempty"`     // app: its term
	Ents   []uint64 `json:"ents,omitempty"`   // app: terms of the entries pi+1, pi+2, ...
	Noop   []int    `json:"noop,omitempty"`   // app: positions in ents that carry no data (a leader's first entry)
	Commit uint64   `json:"commit,omitempty"` // app, hb
	SI     uint64   `json:"si,omitempty"`     // snap: index
	ST     uint64   `json:"st,omitempty"`     // snap: term
	Index  uint64   `json:"index,omitempty"`  // appresp
	Reject bool     `json:"reject,omitempty"` // voteresp, appresp
	ID     string   `json:"id,omitempty"`     // propose
	Ms     int      `json:"ms,omitempty"`     // wait
}

type rlScenario struct {
	Name   string    `json:"name"`
	Events []rlEvent `json:"events"`
}

type rlViolation struct {
	Clause string `json:"clause"`
	At     int    `json:"at"`
	Detail string `json:"detail"`
}

type rlReport struct {
	Scenario     string         `json:"scenario"`
	Result       string         `json:"result"` // ok | violation | error
	Violation    *rlViolation   `json:"violation,omitempty"`
	Error        string         `json:"error,omitempty"`
	EventsRun    int            `json:"events_run"`
	Lives        int            `json:"lives"`
	In           map[string]int `json:"in"`
	Out          map[string]int `json:"out"`
	Clauses      map[string]int `json:"clauses"`
	Inconclusive int            `json:"inconclusive"`
	Grants       int            `json:"grants"`
	Rejects      int            `json:"vote_rejects"`
	Accepts      int            `json:"app_accepts"`
	AppRejects   int            `json:"app_rejects"`
	Delivered    int            `json:"delivered"`
	SnapSignals  int            `json:"snapshot_signals"`
	Skipped      int            `json:"skipped_unsafe"`
	NoResponse   int            `json:"no_response"`
	Posted       int64          `json:"posted_to_peers"`
	DiskReads    int            `json:"disk_reads"`
	Seconds      float64        `json:"seconds"`
	Trace        []string       `json:"trace,omitempty"`
	Poisoned     bool           `json:"poisoned,omitempty"` // a node of this scenario could not be stopped: the process ends after this report
}

// ---------------------------------------------------------------------------------------------- what is on disk

type rlDisk struct {
	snapIndex, snapTerm uint64
	hs                  raftpb.HardState
	ents                []raftpb.Entry
}

func (d *rlDisk) last() uint64 {
	if n := len(d.ents); n > 0 {
		return d.ents[n-1].Index
	}
	return d.snapIndex
}

func (d *rlDisk) term(i uint64) (uint64, bool) {
	if i == d.snapIndex {
		return d.snapTerm, true
	}
	if n := len(d.ents); n > 0 && i >= d.ents[0].Index && i <= d.ents[n-1].Index {
		return d.ents[i-d.ents[0].Index].Term, true
	}
	return 0, false
}

func (d *rlDisk) ids() map[string]uint64 {
	m := map[string]uint64{}
	for i := range d.ents {
		if d.ents[i].Type != raftpb.EntryNormal || len(d.ents[i].Data) == 0 {
			continue
		}
		var p raftexample.RaftProposal
		if json.Unmarshal(d.ents[i].Data, &p) == nil {
			m[p.ID] = d.ents[i].Index
		}
	}
	return m
}

func (d *rlDisk) String() string {
	return fmt.Sprintf("disk{term=%d vote=%d commit=%d snap=%d/%d last=%d}", d.hs.Term, d.hs.Vote, d.hs.Commit, d.snapIndex, d.snapTerm, d.last())
}

var rlBlind = os.Getenv("VERIF_RL_BLIND_DISK") != ""

// diagnosis / "what follows": play the whole scenario although a clause has already failed
var keepGoing = os.Getenv("VERIF_RL_CONTINUE") != ""

// rlReadDiskOnce is what replayWAL does at a restart, with read-only opens (no lock is taken: it works while the node runs).
func rlReadDiskOnce(waldir, snapdir string) (*rlDisk, error) {
	lg := zap.NewNop()
	d := &rlDisk{}
	if !wal.Exist(waldir) || rlBlind {
		return d, nil // rlBlind: negative control, the oracle is shown an empty directory and must object
	}
	walSnaps, err := wal.ValidSnapshotEntries(lg, waldir)
	if err != nil {
		return nil, fmt.Errorf("ValidSnapshotEntries: %v", err)
	}
	sn, err := snap.New(lg, snapdir).LoadNewestAvailable(walSnaps)
	if err != nil && err != snap.ErrNoSnapshot {
		return nil, fmt.Errorf("LoadNewestAvailable: %v", err)
	}
	ws := walpb.Snapshot{}
	if sn != nil {
		ws.Index, ws.Term = sn.Metadata.Index, sn.Metadata.Term
		d.snapIndex, d.snapTerm = ws.Index, ws.Term
	}
	w, err := wal.OpenForRead(lg, waldir, ws)
	if err != nil {
		return nil, fmt.Errorf("OpenForRead: %v", err)
	}
	defer w.Close()
	_, hs, ents, err := w.ReadAll()
	if err != nil {
		return nil, fmt.Errorf("ReadAll: %v", err)
	}
	d.hs, d.ents = hs, ents
	return d, nil
}

// ---------------------------------------------------------------------------------------------- scenario state

type rlApp struct {
	from, term, pi, pt uint64
	ents               []raftpb.Entry
	snap               bool
}

type rlKey struct{ who, term uint64 }

type rlState struct {
	mu      sync.Mutex
	cur     int // index of the event being played
	life    int
	rep     *rlReport
	trace   []string
	viol    *rlViolation
	errText string

	waldir, snapdir string

	outbox  []raftpb.Message
	nOut    int64 // atomic: number of observed outgoing messages
	nCommit int64 // atomic: number of commit-channel deliveries handled

	extTerm   uint64            // highest term in any outgoing message
	granted   map[uint64]uint64 // term -> candidate the node voted for (its own candidacy: 2)
	grantLife map[uint64]int
	lastApp   map[rlKey]*rlApp  // last MsgApp / MsgSnap sent by leader `who` in `term`
	match     map[rlKey]uint64  // highest index the node accepted from that leader in that term
	acked     map[uint64]uint64 // index -> term of entries the node acknowledged to a leader
	ackHi     uint64            // "my log matches yours up to here", from the latest accepting MsgAppResp
	ackKey    rlKey             // the leader and term it was said to
	delivered map[string]uint64 // proposal id -> index, delivered on the commit channel
	lastDeliv uint64            // index of the last delivery in this life
	peerAck   map[rlKey]uint64  // (peer, term of node 2 as leader) -> highest index the harness acknowledged
	maxSent   map[uint64]uint64 // peer -> highest index node 2 sent in a MsgApp
}

func (s *rlState) tr(format string, a ...interface{}) {
	if len(s.trace) < 600 {
		s.trace = append(s.trace, fmt.Sprintf("[%d] ", s.cur)+fmt.Sprintf(format, a...))
	}
}

func (s *rlState) clause(c string) { s.rep.Clauses[c]++ }

func (s *rlState) violate(clause, format string, a ...interface{}) {
	if s.viol == nil {
		s.viol = &rlViolation{Clause: clause, At: s.cur, Detail: fmt.Sprintf(format, a...)}
		s.tr("VIOLATION %s: %s", clause, s.viol.Detail)
	} else {
		s.tr("ALSO %s: %s", clause, fmt.Sprintf(format, a...)) // only reached with VERIF_RL_CONTINUE (the consequences of the first one)
	}
}

func (s *rlState) fail(format string, a ...interface{}) {
	if s.errText == "" {
		s.errText = fmt.Sprintf(format, a...)
		s.tr("ERROR %s", s.errText)
	}
}

// readDisk: blocked = the node cannot write at this moment (we are inside its Send); otherwise a concurrent append may be
// half-written, which a read-only open reports as an error or as a short log: retry.
func (s *rlState) readDisk(blocked bool) *rlDisk {
	tries := 40
	if blocked {
		tries = 3
	}
	var err error
	for i := 0; i < tries; i++ {
		var d *rlDisk
		d, err = rlReadDiskOnce(s.waldir, s.snapdir)
		s.rep.DiskReads++
		if err == nil {
			return d
		}
		time.Sleep(time.Millisecond)
	}
	s.fail("the oracle cannot read the node's directories: %v", err)
	return nil
}

// observe runs inside rc.transport.Send (hook H4): the node's Ready arm is blocked here.
func (s *rlState) observe(m raftpb.Message) {
	s.mu.Lock()
	defer s.mu.Unlock()
	defer atomic.AddInt64(&s.nOut, 1)
	s.outbox = append(s.outbox, m)
	s.rep.Out[m.Type.String()]++
	d := s.readDisk(true)
	if d == nil {
		return
	}
	rdEmit(s.waldir, s.snapdir, d, &m)
	s.tr("  out %s to=%d term=%d index=%d logterm=%d commit=%d reject=%v ents=%d | %s", m.Type, m.To, m.Term, m.Index, m.LogTerm, m.Commit, m.Reject,
		len(m.Entries), d)
	defer func() { // E1 (after the clause that is specific to the message kind, so that the most telling one is reported)
		s.clause("E1")
		if d.hs.Term < m.Term {
			s.violate("E1", "node 2 sends %s to %d in term %d while its WAL holds term %d (vote %d): a restart now forgets the term it has spoken in",
				m.Type, m.To, m.Term, d.hs.Term, d.hs.Vote)
		}
		if m.Term > s.extTerm {
			s.extTerm = m.Term
		}
	}()
	switch m.Type {
	case raftpb.MsgVoteResp:
		if m.Reject {
			s.rep.Rejects++
			break
		}
		s.rep.Grants++
		s.checkVote(d, m.Term, m.To, fmt.Sprintf("node 2 grants its vote to candidate %d in term %d", m.To, m.Term))
	case raftpb.MsgVote:
		s.checkVote(d, m.Term, 2, fmt.Sprintf("node 2 asks %d for a vote in term %d (it voted for itself)", m.To, m.Term))
	case raftpb.MsgAppResp:
		if m.Reject {
			s.rep.AppRejects++
			break
		}
		s.rep.Accepts++
		s.checkAccept(d, m)
	case raftpb.MsgApp, raftpb.MsgHeartbeat:
		if m.Type == raftpb.MsgApp {
			if hi := m.Index + uint64(len(m.Entries)); hi > s.maxSent[m.To] {
				s.maxSent[m.To] = hi
			}
		}
		if m.Commit > 0 {
			others := 0
			for _, p := range []uint64{1, 3} {
				if s.peerAck[rlKey{p, m.Term}] >= m.Commit {
					others++
				}
			}
			if others < 2 {
				s.clause("E6")
				if d.last() < m.Commit {
					s.violate("E6", "node 2 (leader of term %d) announces commit index %d to %d; the quorum for it includes node 2's own copy, but its "+
						"on-disk log ends at %d", m.Term, m.Commit, m.To, d.last())
				}
			}
		}
	}
}

func (s *rlState) checkVote(d *rlDisk, term, cand uint64, what string) {
	s.clause("E2")
	switch {
	case d.hs.Term == term:
		if d.hs.Vote != cand {
			s.violate("E2", "%s, but its WAL holds (term %d, vote %d): after a restart it is free to vote again in term %d", what, d.hs.Term, d.hs.Vote, term)
		}
	case d.hs.Term > term:
		s.rep.Inconclusive++
	default:
		s.violate("E2", "%s, but its WAL holds (term %d, vote %d): after a restart it is free to vote again in term %d", what, d.hs.Term, d.hs.Vote, term)
	}
	s.clause("E5")
	if prev, ok := s.granted[term]; ok && prev != cand {
		s.violate("E5", "double vote in term %d: node 2 voted for %d in its life %d and for %d in its life %d (two candidates can each count "+
			"a majority of {1,2,3} in one term: election safety is gone)", term, prev, s.grantLife[term], cand, s.life)
	} else if !ok {
		s.granted[term] = cand
		s.grantLife[term] = s.life
	}
}

func (s *rlState) checkAccept(d *rlDisk, m raftpb.Message) {
	s.clause("E3")
	key := rlKey{m.To, m.Term}
	if m.Index > s.match[key] {
		s.match[key] = m.Index // what the leader now believes (and will send as the commit index of its heartbeats)
	}
	if d.last() < m.Index {
		s.violate("E3", "node 2 acknowledges the log up to index %d to leader %d (term %d); its on-disk log ends at %d", m.Index, m.To, m.Term, d.last())
		return
	}
	a := s.lastApp[key]
	if a == nil {
		return
	}
	if m.Index != a.pi+uint64(len(a.ents)) {
		return // the "already committed up to Index" answer to a stale append: nothing more is claimed
	}
	if key != s.ackKey || m.Index > s.ackHi {
		s.ackKey, s.ackHi = key, m.Index // a new leader may legitimately have cut the log back to here
	}
	if a.pi > d.snapIndex || (a.snap && a.pi == d.snapIndex) {
		if t, ok := d.term(a.pi); !ok || t != a.pt {
			s.violate("E3", "node 2 accepted leader %d's (term %d) %s at (index %d, term %d); on disk index %d has term %d (present=%v)",
				m.To, m.Term, map[bool]string{true: "snapshot", false: "append after"}[a.snap], a.pi, a.pt, a.pi, t, ok)
			return
		}
	} else if a.snap && d.snapIndex < a.pi {
		s.violate("E3", "node 2 acknowledged leader %d's snapshot at index %d; the newest usable snapshot on disk is at %d", m.To, a.pi, d.snapIndex)
		return
	}
	if a.snap {
		// restoring a leader's snapshot legitimately drops what lay beyond it (entries of a deposed leader that were never committed)
		for k, t := range s.acked {
			if dt, ok := d.term(k); k > a.pi && (!ok || dt != t) {
				delete(s.acked, k)
			}
		}
	}
	for i := range a.ents {
		e := &a.ents[i]
		if e.Index <= d.snapIndex {
			continue
		}
		t, ok := d.term(e.Index)
		if !ok || t != e.Term {
			s.violate("E3", "node 2 acknowledged leader %d's entry (index %d, term %d); on disk that index has term %d (present=%v)",
				m.To, e.Index, e.Term, t, ok)
			return
		}
		if s.acked[e.Index] != e.Term {
			for k := range s.acked {
				if k > e.Index {
					delete(s.acked, k)
				}
			}
		}
		s.acked[e.Index] = e.Term
	}
}

// consume is the state machine side of the commit channel.
func (s *rlState) consume(rc *raftexample.RaftNode, commitC <-chan *raftexample.RaftCommit, done chan struct{}) {
	defer close(done)
	for c := range commitC {
		s.mu.Lock()
		if c == nil {
			s.rep.SnapSignals++
			s.clause("E4")
			sn := rc.TakeSnapshot()
			d := s.readDisk(false)
			switch {
			case sn == nil:
				s.violate("E4", "the commit channel announced a snapshot (nil message) but TakeSnapshot returned nothing")
			case d != nil && d.snapIndex < sn.Metadata.Index:
				s.violate("E4", "the state machine is told to load the snapshot at index %d; the newest usable snapshot on disk is at %d",
					sn.Metadata.Index, d.snapIndex)
			default:
				s.tr("  snapshot signal index=%d", sn.Metadata.Index)
				s.lastDeliv = sn.Metadata.Index
			}
		} else {
			d := s.readDisk(false)
			if d != nil {
				ids := d.ids()
				for _, p := range c.Data {
					s.clause("E4")
					s.rep.Delivered++
					idx, ok := ids[p.ID]
					s.tr("  commit id=%s index=%d ondisk=%v | %s", p.ID, idx, ok, d)
					if !ok && d.snapIndex > s.lastDeliv {
						// the raft loop runs on while this goroutine waits for the mutex: a snapshot received from a peer and saved meanwhile covers
						// every entry up to its index, this one possibly among them (it is not in the readable log any more, and was when it was
						// delivered) - inconclusive, not an error (seen once in ~300 runs: snap=11 last=11 read for a batch delivered before it)
						s.tr("  commit id=%s: not in the readable log, snapshot %d beyond the last delivered index %d: covered", p.ID, d.snapIndex, s.lastDeliv)
						continue
					}
					if !ok {
						s.violate("E4", "proposal %s is handed to the state machine (applied, then acknowledged to its client) but no entry carrying it is "+
							"in the on-disk log (%s)", p.ID, d)
						continue
					}
					if idx <= s.lastDeliv {
						s.violate("E4", "proposal %s (index %d) is delivered after index %d in the same life: not in log order / twice", p.ID, idx, s.lastDeliv)
					}
					s.lastDeliv = idx
					s.delivered[p.ID] = idx
				}
			}
			if c.ApplyDoneC != nil {
				close(c.ApplyDoneC)
			}
		}
		s.mu.Unlock()
		atomic.AddInt64(&s.nCommit, 1)
	}
}

// promises: nothing the node has externalised may be missing from d.
func (s *rlState) promises(d *rlDisk, when string) {
	s.clause("E5")
	if d.hs.Term < s.extTerm {
		s.violate("E5", "%s: the WAL holds term %d, but node 2 has sent messages in term %d", when, d.hs.Term, s.extTerm)
		return
	}
	if g, ok := s.granted[d.hs.Term]; ok && d.hs.Vote != g {
		s.violate("E5", "%s: the WAL holds (term %d, vote %d), but node 2 voted for %d in term %d", when, d.hs.Term, d.hs.Vote, g, d.hs.Term)
		return
	}
	if d.last() < s.ackHi {
		s.violate("E5", "%s: node 2 told leader %d (term %d) that its log matches up to index %d; the log a restart reads ends at %d (newest usable "+
			"snapshot at %d, persisted commit index %d)", when, s.ackKey.who, s.ackKey.term, s.ackHi, d.last(), d.snapIndex, d.hs.Commit)
		return
	}
	idx := make([]uint64, 0, len(s.acked))
	for i := range s.acked {
		idx = append(idx, i)
	}
	sort.Slice(idx, func(a, b int) bool { return idx[a] < idx[b] })
	for _, i := range idx {
		if i <= d.snapIndex {
			continue
		}
		if t, ok := d.term(i); !ok || t != s.acked[i] {
			s.violate("E5", "%s: node 2 acknowledged entry (index %d, term %d) to its leader; on disk that index has term %d (present=%v)", when, i, s.acked[i], t, ok)
			return
		}
	}
	ids := d.ids()
	for id, i := range s.delivered {
		if i <= d.snapIndex {
			continue
		}
		if j, ok := ids[id]; !ok || j != i {
			s.violate("E5", "%s: proposal %s was applied at index %d; on disk it is at index %d (present=%v)", when, id, i, j, ok)
			return
		}
	}
}

// ---------------------------------------------------------------------------------------------- the node

type rlNode struct {
	rc       *raftexample.RaftNode
	proposeC chan *raftexample.RaftProposal
	confC    chan raftpb.ConfChangeI
	errorC   <-chan error
	drained  chan struct{}
}

func rlStart(s *rlState, peers []string) (*rlNode, error) {
	n := &rlNode{proposeC: make(chan *raftexample.RaftProposal), confC: make(chan raftpb.ConfChangeI), drained: make(chan struct{})}
	getSnapshot := func() ([]byte, error) { return []byte(`{"harness":"readyloop"}`), nil }
	commitC, errorC, ready, rc := raftexample.NewRaftNode(2, peers[1], peers, false, getSnapshot, n.proposeC, n.confC)
	n.rc, n.errorC = rc, errorC
	<-ready
	s.mu.Lock()
	s.life++
	s.rep.Lives = s.life
	s.lastDeliv = 0
	if sn := rc.TakeSnapshot(); sn != nil {
		s.lastDeliv = sn.Metadata.Index // the state machine starts from the snapshot the log was replayed from
	}
	s.waldir, s.snapdir = rc.VerifDirs()
	s.mu.Unlock()
	go s.consume(rc, commitC, n.drained)
	// the raft listener is opened after rc.Node and the transport (with its peers) are in place
	host := strings.TrimPrefix(peers[1], "http://")
	deadline := time.Now().Add(10 * time.Second)
	for {
		c, err := net.Dial("tcp", host)
		if err == nil {
			c.Close()
			break
		}
		if time.Now().After(deadline) {
			return n, fmt.Errorf("node 2 does not listen on %s: %v", host, err)
		}
		time.Sleep(500 * time.Microsecond)
	}
	wrapped := 0
	for wrapped < 2 {
		wrapped += rc.VerifObserveSend(s.observe)
		if wrapped < 2 {
			if time.Now().After(deadline) {
				return n, fmt.Errorf("hook H4: only %d of 2 peers of node 2's transport could be observed", wrapped)
			}
			time.Sleep(500 * time.Microsecond)
		}
	}
	// raft refuses to campaign while committed configuration changes (the bootstrap entries) are not applied yet: let the first
	// Ready of this life pass through the loop before the scenario goes on
	for {
		st := rc.Node.Status()
		if st.Applied >= st.Commit {
			break
		}
		if time.Now().After(deadline) {
			return n, fmt.Errorf("node 2 does not apply its committed entries after the start (applied %d, commit %d)", st.Applied, st.Commit)
		}
		time.Sleep(200 * time.Microsecond)
	}
	return n, nil
}

func (n *rlNode) stop(s *rlState) error {
	close(n.proposeC)
	tm := time.After(15 * time.Second)
	for open := true; open; {
		select {
		case _, ok := <-n.errorC:
			open = ok
		case <-tm:
			return fmt.Errorf("node 2 did not stop within 15 s of closing proposeC")
		}
	}
	select {
	case <-n.drained:
	case <-tm:
		return fmt.Errorf("the commit channel was not closed")
	}
	// serveChannels closes the WAL (dropping its file locks) after stop() returned: wait until every segment can be locked
	deadline := time.Now().Add(10 * time.Second)
	for {
		names, _ := filepath.Glob(filepath.Join(s.waldir, "*.wal"))
		busy := ""
		for _, p := range names {
			l, err := fileutil.TryLockFile(p, os.O_WRONLY, fileutil.PrivateFileMode)
			if err != nil {
				busy = p
				break
			}
			l.Close()
		}
		if busy == "" {
			return nil
		}
		if time.Now().After(deadline) {
			return fmt.Errorf("the WAL segment %s stays locked after the node stopped", busy)
		}
		time.Sleep(500 * time.Microsecond)
	}
}

func rlCopyDir(src, dst string) error {
	if err := os.MkdirAll(dst, 0o750); err != nil {
		return err
	}
	ents, err := os.ReadDir(src)
	if err != nil {
		return err
	}
	for _, e := range ents {
		if e.IsDir() || strings.HasSuffix(e.Name(), ".tmp") {
			continue // the preallocated next segment of the WAL's file pipeline is not part of the log
		}
		b, err := os.ReadFile(filepath.Join(src, e.Name()))
		if err != nil {
			return err
		}
		if err := os.WriteFile(filepath.Join(dst, e.Name()), b, 0o600); err != nil {
			return err
		}
	}
	return nil
}

func newDiscardStdLogger() *log.Logger { return log.New(io.Discard, "", 0) }

func rlEntry(idx, term uint64, empty bool) raftpb.Entry {
	e := raftpb.Entry{Type: raftpb.EntryNormal, Index: idx, Term: term}
	if !empty {
		e.Data = (&raftexample.RaftProposal{Data: "x", ID: fmt.Sprintf("i%dt%d", idx, term)}).ToBytes()
	}
	return e
}

// waitOut waits until an outgoing message satisfying pred has been observed after position `from` of the outbox.
func (s *rlState) waitOut(from int, need int, pred func(m raftpb.Message) bool, timeout time.Duration) bool {
	deadline := time.Now().Add(timeout)
	for {
		s.mu.Lock()
		got := 0
		for _, m := range s.outbox[from:] {
			if pred(m) {
				got++
			}
		}
		bad := (s.viol != nil && !keepGoing) || s.errText != ""
		s.mu.Unlock()
		if got >= need || bad {
			return true
		}
		if time.Now().After(deadline) {
			return false
		}
		time.Sleep(100 * time.Microsecond)
	}
}

// settle: wait until the node has nothing in flight (no new outgoing message, no new delivery for `quiet`).
func (s *rlState) settle(n *rlNode, quiet, max time.Duration) {
	deadline := time.Now().Add(max)
	for {
		a, b := atomic.LoadInt64(&s.nOut), atomic.LoadInt64(&s.nCommit)
		n.rc.Node.Status() // served by raft's own loop: everything stepped before has been handled by raft
		time.Sleep(quiet)
		if (a == atomic.LoadInt64(&s.nOut) && b == atomic.LoadInt64(&s.nCommit)) || time.Now().After(deadline) {
			return
		}
	}
}

func (s *rlState) outLen() int {
	s.mu.Lock()
	defer s.mu.Unlock()
	return len(s.outbox)
}

func rlRunScenario(sc rlScenario, peers []string, posted *int64) *rlReport {
	rep := &rlReport{Scenario: sc.Name, Result: "ok", In: map[string]int{}, Out: map[string]int{}, Clauses: map[string]int{}}
	s := &rlState{rep: rep, granted: map[uint64]uint64{}, grantLife: map[uint64]int{}, lastApp: map[rlKey]*rlApp{}, match: map[rlKey]uint64{},
		acked: map[uint64]uint64{}, delivered: map[string]uint64{}, peerAck: map[rlKey]uint64{}, maxSent: map[uint64]uint64{}}
	t0 := time.Now()
	p0 := atomic.LoadInt64(posted)
	s.cur = -1
	ctx := context.Background()
	n, err := rlStart(s, peers)
	if err != nil {
		s.fail("start: %v", err)
	}
	stopped := false
	bad := func() bool {
		s.mu.Lock()
		defer s.mu.Unlock()
		return (s.viol != nil && !keepGoing) || s.errText != ""
	}
	step := func(m raftpb.Message) {
		c, cancel := context.WithTimeout(ctx, 5*time.Second)
		defer cancel()
		if err := n.rc.Process(c, m); err != nil {
			s.mu.Lock()
			s.fail("Process(%s from %d): %v", m.Type, m.From, err)
			s.mu.Unlock()
		}
	}
	for i := 0; i < len(sc.Events) && !bad(); i++ {
		ev := sc.Events[i]
		s.mu.Lock()
		s.cur = i
		rep.EventsRun = i + 1
		rep.In[ev.K]++
		evj, _ := json.Marshal(ev)
		s.tr("in %s", evj)
		s.mu.Unlock()
		from := s.outLen()
		expectResp := func(typ raftpb.MessageType, to uint64) {
			if !s.waitOut(from, 1, func(m raftpb.Message) bool { return m.Type == typ && m.To == to }, 3*time.Second) {
				s.mu.Lock()
				rep.NoResponse++
				s.tr("  no %s to %d within 3 s", typ, to)
				s.mu.Unlock()
			}
		}
		switch ev.K {
		case "vote":
			st := n.rc.Node.Status()
			step(raftpb.Message{Type: raftpb.MsgVote, From: ev.From, To: 2, Term: ev.Term, LogTerm: ev.LT, Index: ev.LI})
			if ev.Term >= st.Term {
				expectResp(raftpb.MsgVoteResp, ev.From)
			} else {
				s.settle(n, time.Millisecond, 20*time.Millisecond)
			}
		case "app", "snap":
			st := n.rc.Node.Status()
			a := &rlApp{from: ev.From, term: ev.Term, pi: ev.PI, pt: ev.PT}
			m := raftpb.Message{Type: raftpb.MsgApp, From: ev.From, To: 2, Term: ev.Term, LogTerm: ev.PT, Index: ev.PI, Commit: ev.Commit}
			if ev.K == "snap" {
				a.snap, a.pi, a.pt = true, ev.SI, ev.ST
				m = raftpb.Message{Type: raftpb.MsgSnap, From: ev.From, To: 2, Term: ev.Term, Snapshot: raftpb.Snapshot{
					Data:     []byte(fmt.Sprintf(`{"snapshot-of-leader":%d,"index":%d}`, ev.From, ev.SI)),
					Metadata: raftpb.SnapshotMetadata{Index: ev.SI, Term: ev.ST, ConfState: raftpb.ConfState{Voters: []uint64{1, 2, 3}}}}}
			} else {
				noop := map[int]bool{}
				for _, p := range ev.Noop {
					noop[p] = true
				}
				for j, t := range ev.Ents {
					a.ents = append(a.ents, rlEntry(ev.PI+1+uint64(j), t, noop[j]))
				}
				m.Entries = a.ents
				// a conforming leader never contradicts a committed entry (raft panics on it): refuse to play a non-conforming one
				if ev.Term >= st.Term {
					s.mu.Lock()
					d := s.readDisk(false)
					s.mu.Unlock()
					unsafe := false
					for k := range a.ents {
						if d != nil && a.ents[k].Index <= st.Commit {
							if t, ok := d.term(a.ents[k].Index); ok && t != a.ents[k].Term {
								unsafe = true
							}
						}
					}
					if unsafe {
						s.mu.Lock()
						rep.Skipped++
						s.tr("  skipped: the append contradicts a committed entry")
						s.mu.Unlock()
						continue
					}
				}
			}
			s.mu.Lock()
			s.lastApp[rlKey{ev.From, ev.Term}] = a
			s.mu.Unlock()
			step(m)
			if ev.Term >= st.Term {
				expectResp(raftpb.MsgAppResp, ev.From)
				s.settle(n, 500*time.Microsecond, 50*time.Millisecond)
			} else {
				s.settle(n, time.Millisecond, 20*time.Millisecond)
			}
		case "hb":
			st := n.rc.Node.Status()
			s.mu.Lock()
			mt := s.match[rlKey{ev.From, ev.Term}]
			s.mu.Unlock()
			if ev.Commit > mt {
				// a leader sends min(match, commit) in a heartbeat; anything above the follower's log makes raft panic by design
				s.mu.Lock()
				rep.Skipped++
				s.tr("  skipped: heartbeat commit %d above the index %d node 2 acknowledged to leader %d in term %d", ev.Commit, mt, ev.From, ev.Term)
				s.mu.Unlock()
				continue
			}
			step(raftpb.Message{Type: raftpb.MsgHeartbeat, From: ev.From, To: 2, Term: ev.Term, Commit: ev.Commit})
			if ev.Term >= st.Term {
				expectResp(raftpb.MsgHeartbeatResp, ev.From)
				s.settle(n, 500*time.Microsecond, 50*time.Millisecond)
			} else {
				s.settle(n, time.Millisecond, 20*time.Millisecond)
			}
		case "campaign":
			if n.rc.Node.Status().RaftState == raft.StateLeader {
				s.mu.Lock()
				rep.Skipped++
				s.tr("  skipped: node 2 leads already")
				s.mu.Unlock()
				continue
			}
			c, cancel := context.WithTimeout(ctx, 5*time.Second)
			err := n.rc.Node.Campaign(c)
			cancel()
			if err != nil {
				s.mu.Lock()
				s.fail("Campaign: %v", err)
				s.mu.Unlock()
				break
			}
			if !s.waitOut(from, 2, func(m raftpb.Message) bool { return m.Type == raftpb.MsgVote }, 3*time.Second) {
				s.mu.Lock()
				rep.NoResponse++
				s.tr("  no MsgVote to both peers within 3 s")
				s.mu.Unlock()
			}
		case "voteresp":
			step(raftpb.Message{Type: raftpb.MsgVoteResp, From: ev.From, To: 2, Term: ev.Term, Reject: ev.Reject})
			s.settle(n, 2*time.Millisecond, 100*time.Millisecond)
		case "appresp":
			s.mu.Lock()
			ms := s.maxSent[ev.From]
			if !ev.Reject && ev.Index <= ms && ev.Index > s.peerAck[rlKey{ev.From, ev.Term}] {
				s.peerAck[rlKey{ev.From, ev.Term}] = ev.Index
			}
			s.mu.Unlock()
			if !ev.Reject && ev.Index > ms {
				s.mu.Lock()
				rep.Skipped++
				s.tr("  skipped: peer %d cannot acknowledge index %d, node 2 sent it entries up to %d", ev.From, ev.Index, ms)
				s.mu.Unlock()
				continue
			}
			step(raftpb.Message{Type: raftpb.MsgAppResp, From: ev.From, To: 2, Term: ev.Term, Index: ev.Index, Reject: ev.Reject, RejectHint: ev.Index})
			s.settle(n, 2*time.Millisecond, 100*time.Millisecond)
		case "hbresp":
			step(raftpb.Message{Type: raftpb.MsgHeartbeatResp, From: ev.From, To: 2, Term: ev.Term})
			s.settle(n, time.Millisecond, 50*time.Millisecond)
		case "propose":
			if n.rc.Node.Status().Lead == 0 {
				// raftexample's proposal goroutine calls Node.Propose without a deadline: with no leader known it blocks there, and
				// then it never notices that proposeC was closed (the node could not be stopped in-process any more)
				s.mu.Lock()
				rep.Skipped++
				s.tr("  skipped: no leader known, the proposal would block the node's proposal goroutine")
				s.mu.Unlock()
				continue
			}
			select {
			case n.proposeC <- &raftexample.RaftProposal{Data: "x", ID: ev.ID}:
			case <-time.After(5 * time.Second):
				s.mu.Lock()
				s.fail("the node does not take proposals")
				s.mu.Unlock()
			}
			s.settle(n, 2*time.Millisecond, 100*time.Millisecond)
		case "wait":
			ms := ev.Ms
			if ms > 1000 {
				ms = 1000
			}
			time.Sleep(time.Duration(ms) * time.Millisecond)
		case "restart", "crash":
			img := ""
			if ev.K == "crash" {
				// what a kill -9 at this instant leaves behind: the files as they are now (nothing the node still buffers in memory)
				s.settle(n, time.Millisecond, 50*time.Millisecond)
				img = "crash-image"
				os.RemoveAll(img)
				var cerr error
				for _, dir := range []string{s.waldir, s.snapdir} {
					if e := rlCopyDir(dir, filepath.Join(img, dir)); e != nil {
						cerr = e
					}
				}
				if cerr != nil {
					s.mu.Lock()
					s.fail("crash image: %v", cerr)
					s.mu.Unlock()
					break
				}
			}
			if err := n.stop(s); err != nil {
				s.mu.Lock()
				s.fail("stop: %v", err)
				rep.Poisoned = true
				s.mu.Unlock()
				stopped = true
				break
			}
			how := "clean stop"
			if img != "" {
				how = "crash (restart from the files as they were at that instant)"
				for _, dir := range []string{s.waldir, s.snapdir} {
					os.RemoveAll(dir)
					if e := os.Rename(filepath.Join(img, dir), dir); e != nil {
						s.mu.Lock()
						s.fail("crash image: %v", e)
						s.mu.Unlock()
					}
				}
				os.RemoveAll(img)
			}
			s.mu.Lock()
			d := s.readDisk(false)
			if d != nil {
				s.tr("  %s | %s", how, d)
				s.promises(d, fmt.Sprintf("after the %s that ends life %d", how, s.life))
			}
			s.mu.Unlock()
			if bad() {
				stopped = true
				break
			}
			n, err = rlStart(s, peers)
			if err != nil {
				s.mu.Lock()
				s.fail("restart: %v", err)
				s.mu.Unlock()
				break
			}
			st := n.rc.Node.Status()
			s.mu.Lock()
			s.clause("E5")
			s.tr("  restarted: term=%d vote=%d commit=%d", st.Term, st.Vote, st.Commit)
			if d != nil && (st.Term != d.hs.Term || st.Vote != d.hs.Vote || st.Commit < d.hs.Commit) {
				s.violate("E5", "the restarted node holds (term %d, vote %d, commit %d); a read of its directories gave (term %d, vote %d, commit %d)",
					st.Term, st.Vote, st.Commit, d.hs.Term, d.hs.Vote, d.hs.Commit)
			}
			if st.Term < s.extTerm {
				s.violate("E5", "the restarted node is in term %d; before the restart it sent messages in term %d", st.Term, s.extTerm)
			}
			if g, ok := s.granted[st.Term]; ok && st.Vote != g {
				s.violate("E5", "the restarted node holds (term %d, vote %d); before the restart it voted for %d in that term", st.Term, st.Vote, g)
			}
			s.mu.Unlock()
		default:
			s.mu.Lock()
			s.fail("unknown event kind %q", ev.K)
			s.mu.Unlock()
		}
	}
	if !stopped && n != nil && n.rc != nil {
		if err := n.stop(s); err != nil {
			s.mu.Lock()
			s.fail("final stop: %v", err)
			rep.Poisoned = true
			s.mu.Unlock()
		} else if !bad() {
			s.mu.Lock()
			s.cur = len(sc.Events)
			if d := s.readDisk(false); d != nil {
				s.tr("final stop | %s", d)
				s.promises(d, "at the end of the scenario")
			}
			s.mu.Unlock()
		}
	}
	s.mu.Lock()
	defer s.mu.Unlock()
	rep.Seconds = time.Since(t0).Seconds()
	rep.Posted = atomic.LoadInt64(posted) - p0
	if s.viol != nil {
		rep.Result, rep.Violation = "violation", s.viol
	} else if s.errText != "" {
		rep.Result, rep.Error = "error", s.errText
	}
	if rep.Result != "ok" || rep.NoResponse > 0 || os.Getenv("VERIF_RL_TRACE") != "" {
		rep.Trace = s.trace
		if len(rep.Trace) > 120 {
			rep.Trace = append([]string{"..."}, rep.Trace[len(rep.Trace)-120:]...)
		}
	}
	return rep
}

func runReadyloop(args []string) {
	realOut := os.Stdout
	// zap.NewExample() (the node's logger) writes to os.Stdout: keep the report stream clean
	if devnull, err := os.OpenFile(os.DevNull, os.O_WRONLY, 0); err == nil {
		os.Stdout = devnull
	}
	if os.Getenv("VERIF_RL_RAFTLOG") == "" {
		raft.SetLogger(&raft.DefaultLogger{Logger: newDiscardStdLogger()})
	}
	wal.SegmentSizeBytes = 1 << 20 // the exported test knob: 64 MB preallocated per life would dominate the run time
	base := os.Getenv("VERIF_TMP")
	if base == "" {
		base = os.TempDir()
	}
	root, err := os.MkdirTemp(base, "verif-readyloop-")
	if err != nil {
		fmt.Fprintln(os.Stderr, "readyloop:", err)
		os.Exit(2)
	}
	defer os.RemoveAll(root)

	// peers 1 and 3: stub rafthttp endpoints owned by the harness (what node 2's pipeline posts is counted and dropped; the
	// oracle has already seen every message inside Send)
	var posted int64
	peers := make([]string, 3)
	for _, i := range []int{0, 2} {
		ln, err := net.Listen("tcp", "127.0.0.1:0")
		if err != nil {
			fmt.Fprintln(os.Stderr, "readyloop:", err)
			os.Exit(2)
		}
		peers[i] = "http://" + ln.Addr().String()
		mux := http.NewServeMux()
		mux.HandleFunc("/raft", func(w http.ResponseWriter, r *http.Request) {
			io.Copy(io.Discard, r.Body)
			atomic.AddInt64(&posted, 1)
			w.WriteHeader(http.StatusNoContent)
		})
		mux.HandleFunc("/", func(w http.ResponseWriter, r *http.Request) { http.NotFound(w, r) })
		go (&http.Server{Handler: mux}).Serve(ln)
	}
	ln, err := net.Listen("tcp", "127.0.0.1:0")
	if err != nil {
		fmt.Fprintln(os.Stderr, "readyloop:", err)
		os.Exit(2)
	}
	peers[1] = "http://" + ln.Addr().String()
	ln.Close()

	in := bufio.NewScanner(os.Stdin)
	in.Buffer(make([]byte, 1<<20), 1<<26)
	out := bufio.NewWriter(realOut)
	defer out.Flush()
	k := 0
	for in.Scan() {
		line := strings.TrimSpace(in.Text())
		if line == "" {
			continue
		}
		var sc rlScenario
		if err := json.Unmarshal([]byte(line), &sc); err != nil {
			b, _ := json.Marshal(&rlReport{Scenario: "?", Result: "error", Error: "bad scenario line: " + err.Error()})
			fmt.Fprintf(out, "%s\n", b)
			out.Flush()
			continue
		}
		k++
		dir := filepath.Join(root, fmt.Sprintf("s%d", k))
		if err := os.Mkdir(dir, 0o750); err == nil {
			err = os.Chdir(dir)
		}
		if err != nil {
			fmt.Fprintln(os.Stderr, "readyloop:", err)
			os.Exit(2)
		}
		fmt.Fprintf(os.Stderr, "readyloop: scenario %s\n", sc.Name)
		rdReset()
		rep := rlRunScenario(sc, peers, &posted)
		os.Chdir(root)
		os.RemoveAll(dir)
		b, _ := json.Marshal(rep)
		fmt.Fprintf(out, "%s\n", b)
		out.Flush()
		if rep.Poisoned {
			os.RemoveAll(root)
			os.Exit(3) // a node that does not stop keeps its port and goroutines: the caller continues in a new process
		}
	}
}
