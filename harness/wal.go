package main

// wal engine (property C16): operation sequences against the real etcd wal / snap packages in a temp dir, the file
// images after every operation, and the mutilation enumeration on the real code (torn unsynced tail sectors,
// single-byte corruption), each case with the real code's verdict and the property's oracle evaluated directly.
//
// input lines (from vlib/props/c16.py)            output: the line + observation, and generated case lines
//   WC <segsize> <meta-hex|nil>                     ... => files=<name:size:hex,..> synced=1
//   WS <term> <vote> <commit> <n> {<type> <term> <index> <data-hex|nil>}*   ... => files=.. synced=0|1
//   WN <index> <term> <nvoters|nil>                 ... => conf=<hex|nil> files=.. synced=1
//   WX                                              ... => files=.. synced=1
//   WM torn <maxExhaustive> <randomSubsets> <seed>  WT <i> <j> <snapIndex> <snapTerm> <sectors|-> => <verdict> oracle=..
//                                                   WK <j> => <verdict> oracle=..   (crash inside the cut that op j performed)
//   WM byte <smallLimit> <stride> <tailStride>      WB <j> <file> <off> <byte> <snapIndex> <snapTerm> cls=<c> => <verdict> oracle=..
//   SN                                              (new snapshot directory)
//   SF <term> <index> <nvoters> <data-hex|nil>      ... => payload=<hex> name=<file> file=<hex>
//   SM <stride>                                     SB <off> <byte> <wanted> => <verdict> oracle=..

import (
	"bufio"
	"bytes"
	"encoding/binary"
	"fmt"
	"hash/crc32"
	"io"
	"math/rand"
	"os"
	"path/filepath"
	"sort"
	"strconv"
	"strings"

	"github.com/prometheus/client_golang/prometheus"
	"go.etcd.io/etcd/pkg/v3/pbutil"
	"go.etcd.io/etcd/raft/v3/raftpb"
	"go.etcd.io/etcd/server/v3/etcdserver/api/snap"
	"go.etcd.io/etcd/server/v3/storage/wal"
	"go.etcd.io/etcd/server/v3/storage/wal/walpb"
	"go.uber.org/zap"
)

var castagnoli = crc32.MakeTable(crc32.Castagnoli)

type diskState struct {
	names []string
	files [][]byte
}

type logRec struct {
	kind int // 2 entry, 3 state, 5 snapshot (no effect on the view)
	ent  raftpb.Entry
	st   raftpb.HardState
}

type walScenario struct {
	base    string
	dir     string
	work    string
	w       *wal.WAL
	states  []diskState
	synced  []bool
	nlog    []int // number of logical records written after op k
	logical []logRec
	snaps   []walpb.Snapshot
	prevSt  raftpb.HardState
}

func hxn(b []byte) string {
	if b == nil {
		return "nil"
	}
	return hx(b)
}

func unhexn(s string) []byte {
	if s == "nil" {
		return nil
	}
	return unhex(s)
}

func readState(dir string) diskState {
	des, err := os.ReadDir(dir)
	if err != nil {
		panic(err)
	}
	var ds diskState
	for _, de := range des {
		if strings.HasSuffix(de.Name(), ".wal") {
			ds.names = append(ds.names, de.Name())
		}
	}
	sort.Strings(ds.names)
	for _, n := range ds.names {
		b, err := os.ReadFile(filepath.Join(dir, n))
		if err != nil {
			panic(err)
		}
		ds.files = append(ds.files, b)
	}
	return ds
}

func renderFiles(ds diskState) string {
	var parts []string
	for i, n := range ds.names {
		b := ds.files[i]
		t := len(b)
		for t > 0 && b[t-1] == 0 {
			t--
		}
		parts = append(parts, fmt.Sprintf("%s:%d:%s", strings.TrimSuffix(n, ".wal"), len(b), hx(b[:t])))
	}
	return strings.Join(parts, ",")
}

// the harness's own frame walker: end offset of the last frame, and the class of every byte offset
func walkFrames(b []byte) (end int, cls []byte) {
	cls = make([]byte, len(b))
	for i := range cls {
		cls[i] = 'z' // zero tail / beyond the last frame
	}
	o := 0
	for o+8 <= len(b) {
		l := binary.LittleEndian.Uint64(b[o:])
		if l == 0 {
			break
		}
		rec := int(l & ^(uint64(0xff) << 56))
		pad := 0
		if int64(l) < 0 {
			pad = int((l >> 56) & 7)
		}
		if o+8+rec+pad > len(b) {
			break
		}
		for i := 0; i < 8; i++ {
			cls[o+i] = 'h'
		}
		body := b[o+8 : o+8+rec]
		p := o + 8
		// tag, type varint, tag, crc varint, [tag, len varint, data]
		k := 0
		mark := func(c byte, n int) {
			for i := 0; i < n && k < len(body); i++ {
				cls[p+k] = c
				k++
			}
		}
		vlen := func() int {
			n := 0
			for k+n < len(body) {
				n++
				if body[k+n-1] < 0x80 {
					break
				}
			}
			return n
		}
		mark('g', 1)
		mark('t', vlen())
		mark('g', 1)
		mark('c', vlen())
		if k < len(body) {
			mark('g', 1)
			mark('l', vlen())
			mark('d', len(body)-k)
		}
		for i := 0; i < pad; i++ {
			cls[o+8+rec+i] = 'p'
		}
		o += 8 + rec + pad
	}
	return o, cls
}

func entsDigest(ents []raftpb.Entry) uint32 {
	var c uint32
	var w [8]byte
	put := func(v uint64) {
		binary.LittleEndian.PutUint64(w[:], v)
		c = crc32.Update(c, castagnoli, w[:])
	}
	for _, e := range ents {
		put(e.Index)
		put(e.Term)
		put(uint64(uint32(e.Type)))
		if e.Data == nil {
			put(^uint64(0))
		} else {
			put(uint64(len(e.Data)))
			c = crc32.Update(c, castagnoli, e.Data)
		}
	}
	return c
}

func errClass(err error) string {
	if err == nil {
		return "ok"
	}
	s := err.Error()
	switch {
	case err == io.ErrUnexpectedEOF:
		return "ueof"
	case err == wal.ErrCRCMismatch || err == walpb.ErrCRCMismatch:
		return "crc"
	case err == wal.ErrSliceOutOfRange:
		return "oor"
	case err == wal.ErrMetadataConflict:
		return "metaconflict"
	case err == wal.ErrSnapshotMismatch:
		return "snapmismatch"
	case err == wal.ErrSnapshotNotFound:
		return "snapnotfound"
	case strings.HasPrefix(s, "unexpected block type"):
		return "badtype"
	case strings.HasPrefix(s, "wal: max entry size limit exceeded"):
		return "maxentry"
	case strings.HasPrefix(s, "proto:"):
		return "pb"
	case strings.HasPrefix(s, "wal: file not found which matches the snapshot index"):
		return "nofile"
	}
	return "other:" + strings.ReplaceAll(s, " ", "_")
}

func viewSig(st raftpb.HardState, ents []raftpb.Entry) string {
	return fmt.Sprintf("%d.%d.%d/%d/%08x", st.Term, st.Vote, st.Commit, len(ents), entsDigest(ents))
}

type raOut struct {
	err  string
	sig  string
	text string
}

func readAllProbe(dir string, sn walpb.Snapshot, write bool) (r raOut) {
	defer func() {
		if e := recover(); e != nil {
			r = raOut{err: "panic", text: "panic"}
		}
	}()
	var w *wal.WAL
	var err error
	if write {
		w, err = wal.Open(zap.NewNop(), dir, sn)
	} else {
		w, err = wal.OpenForRead(zap.NewNop(), dir, sn)
	}
	if err != nil {
		c := "open-" + errClass(err)
		return raOut{err: c, text: c}
	}
	defer w.Close()
	meta, st, ents, err := w.ReadAll()
	c := errClass(err)
	sig := viewSig(st, ents)
	return raOut{err: c, sig: sig, text: c + "/" + hxn(meta) + "/" + sig}
}

// aftermathProbe: life goes on after the crash.  The directory holds the (possibly repaired) log as the write-mode open left it; it is
// opened again for writing and `grow` bytes of further entries are saved and synced in 4 (long tails: 24) records; after every record the
// directory is read as a restarting node would read it (so the log's end stops at many places inside whatever the interrupted write left
// behind): every read must return what the first open returned followed by exactly the entries saved since; finally close + reopen.  Returns "ok", "skip:<why>" (the log could not be opened for writing: judged by the other verdicts) or a description.
func aftermathProbe(dir string, sn walpb.Snapshot, grow int) (res string) {
	defer func() {
		if e := recover(); e != nil {
			res = fmt.Sprintf("panic:%v", e)
		}
	}()
	steps := 4
	if grow > 64*512 {
		steps = 24
	}
	per := grow/steps + 64
	w, err := wal.Open(zap.NewNop(), dir, sn)
	if err != nil {
		return "skip:open-" + errClass(err)
	}
	closed := false
	defer func() {
		if !closed {
			w.Close()
		}
	}()
	_, st, ents, err := w.ReadAll()
	if err != nil {
		return "skip:" + errClass(err)
	}
	all := append([]raftpb.Entry(nil), ents...)
	idx, term := sn.Index, sn.Term
	if len(all) > 0 {
		idx, term = all[len(all)-1].Index, all[len(all)-1].Term
	}
	if st.Term > term {
		term = st.Term
	}
	for k := 0; k < steps; k++ {
		idx++
		data := make([]byte, per)
		for i := range data {
			data[i] = byte(0x41 + (i+k)%23)
		}
		e := raftpb.Entry{Term: term, Index: idx, Data: data}
		st.Term, st.Commit = term, idx
		if err := w.Save(st, []raftpb.Entry{e}); err != nil {
			return fmt.Sprintf("step %d: save-%s", k, errClass(err))
		}
		all = append(all, e)
		// what a restart at this moment would read (the save has been synced)
		if got := readAllProbe(dir, sn, false); got.err != "ok" || got.sig != viewSig(st, all) {
			return fmt.Sprintf("step %d: a reader after the synced save gets %s want=%s", k, got.text, viewSig(st, all))
		}
	}
	closed = true
	if err := w.Close(); err != nil {
		return "close-" + errClass(err)
	}
	if got := readAllProbe(dir, sn, true); got.err != "ok" || got.sig != viewSig(st, all) {
		return fmt.Sprintf("reopen for writing=%s want=%s", got.text, viewSig(st, all))
	}
	return "ok"
}

func verifyProbe(dir string, sn walpb.Snapshot) (c string, st string) {
	defer func() {
		if e := recover(); e != nil {
			c, st = "panic", ""
		}
	}()
	hs, err := wal.Verify(zap.NewNop(), dir, sn)
	if err != nil {
		return errClass(err), ""
	}
	return "ok", fmt.Sprintf("%d.%d.%d", hs.Term, hs.Vote, hs.Commit)
}

func repairProbe(dir string) (ok string) {
	defer func() {
		if e := recover(); e != nil {
			ok = "panic"
		}
	}()
	if wal.Repair(zap.NewNop(), dir) {
		return "1"
	}
	return "0"
}

func (sc *walScenario) snapshotDisk(synced bool) string {
	ds := readState(sc.dir)
	sc.states = append(sc.states, ds)
	sc.synced = append(sc.synced, synced)
	sc.nlog = append(sc.nlog, len(sc.logical))
	s := "0"
	if synced {
		s = "1"
	}
	return "files=" + renderFiles(ds) + " synced=" + s
}

// views of the log (opened at the zero snapshot) after each logical record
type viewTab struct {
	sigs   map[string][]int
	states map[string]bool
}

func (sc *walScenario) views(start uint64) viewTab {
	vt := viewTab{sigs: map[string][]int{}, states: map[string]bool{}}
	var ents []raftpb.Entry
	var st raftpb.HardState
	add := func(k int) {
		s := viewSig(st, ents)
		vt.sigs[s] = append(vt.sigs[s], k)
		vt.states[fmt.Sprintf("%d.%d.%d", st.Term, st.Vote, st.Commit)] = true
	}
	add(0)
	for k, lr := range sc.logical {
		switch lr.kind {
		case 2:
			if lr.ent.Index > start {
				up := lr.ent.Index - start - 1
				if up <= uint64(len(ents)) {
					ents = append(ents[:up:up], lr.ent)
				}
			}
		case 3:
			st = lr.st
		}
		add(k + 1)
	}
	return vt
}

func (vt viewTab) atLeast(sig string, k int) bool {
	for _, x := range vt.sigs[sig] {
		if x >= k {
			return true
		}
	}
	return false
}

func writeFiles(dir string, ds diskState) {
	des, _ := os.ReadDir(dir)
	for _, de := range des {
		os.Remove(filepath.Join(dir, de.Name()))
	}
	for i, n := range ds.names {
		if err := os.WriteFile(filepath.Join(dir, n), ds.files[i], 0o600); err != nil {
			panic(err)
		}
	}
}

func cleanExtra(dir string) {
	des, _ := os.ReadDir(dir)
	for _, de := range des {
		if !strings.HasSuffix(de.Name(), ".wal") {
			os.Remove(filepath.Join(dir, de.Name()))
		}
	}
}

// probeCase runs the real code on the work directory holding `ds` with file `fi` replaced by `mut`.
// Returns the verdict text and the pieces the oracle needs.
type caseOut struct {
	text           string
	rd, wr, rp     raOut
	vfc, vfs, rpOK string
	am             string // aftermath verdict ("" = not run)
}

func (sc *walScenario) probeCase(ds diskState, fi int, mut []byte, sn walpb.Snapshot, aftermath ...int) caseOut {
	var co caseOut
	last := len(ds.names) - 1
	path := func(i int) string { return filepath.Join(sc.work, ds.names[i]) }
	must := func(err error) {
		if err != nil {
			panic(err)
		}
	}
	content := func(i int) []byte {
		if i == fi {
			return mut
		}
		return ds.files[i]
	}
	must(os.WriteFile(path(fi), mut, 0o600))
	co.rd = readAllProbe(sc.work, sn, false)
	co.vfc, co.vfs = verifyProbe(sc.work, sn)
	co.wr = readAllProbe(sc.work, sn, true)
	after, err := os.ReadFile(path(last))
	must(err)
	tail := "same"
	if !bytes.Equal(after, content(last)) {
		tail = fmt.Sprintf("%d:%08x", len(after), crc32.Checksum(after, castagnoli))
	}
	rp := "-"
	if co.wr.err == "ueof" {
		must(os.WriteFile(path(last), content(last), 0o600))
		co.rpOK = repairProbe(sc.work)
		fi2, err := os.Stat(path(last))
		must(err)
		co.rp = readAllProbe(sc.work, sn, true)
		rp = fmt.Sprintf("%s:%d:%s", co.rpOK, fi2.Size(), co.rp.text)
	}
	if len(aftermath) > 0 && (co.wr.err == "ok" || (co.wr.err == "ueof" && co.rpOK == "1" && co.rp.err == "ok")) {
		if co.wr.err == "ok" {
			// the state the write-mode open left behind (tail cleared by the real code)
			must(os.WriteFile(path(last), after, 0o600))
		}
		co.am = aftermathProbe(sc.work, sn, aftermath[0])
		// drop whatever segments the aftermath added
		des, _ := os.ReadDir(sc.work)
		for _, de := range des {
			known := false
			for _, n := range ds.names {
				known = known || n == de.Name()
			}
			if !known {
				os.Remove(filepath.Join(sc.work, de.Name()))
			}
		}
	}
	cleanExtra(sc.work)
	must(os.WriteFile(path(last), ds.files[last], 0o600))
	if fi != last {
		must(os.WriteFile(path(fi), ds.files[fi], 0o600))
	}
	co.text = fmt.Sprintf("rd=%s vf=%s/%s wr=%s tail=%s rp=%s", co.rd.text, co.vfc, co.vfs, co.wr.text, tail, rp)
	return co
}

func (sc *walScenario) tornCases(out *bufio.Writer, maxEx, nRandom int, seed int64) {
	rng := rand.New(rand.NewSource(seed))
	vt := sc.views(0)
	zero := walpb.Snapshot{}
	caseNo, aftermathOK := 0, 0
	defer func() { fmt.Fprintf(out, "WA aftermath-ok=%d of %d torn cases\n", aftermathOK, caseNo) }()
	for i := 0; i < len(sc.states); i++ {
		if !sc.synced[i] {
			continue
		}
		for j := i; j < len(sc.states) && j <= i+3; j++ {
			si, sj := sc.states[i], sc.states[j]
			if len(si.names) != len(sj.names) || si.names[len(si.names)-1] != sj.names[len(sj.names)-1] {
				break
			}
			last := len(sj.names) - 1
			P, _ := walkFrames(si.files[last])
			Q, _ := walkFrames(sj.files[last])
			if j > i && Q <= P {
				continue
			}
			var sectors []int
			if Q > P {
				for s := P / 512; s <= (Q-1)/512; s++ {
					sectors = append(sectors, s)
				}
			}
			var subsets [][]int
			n := len(sectors)
			if n <= maxEx {
				for m := 0; m < 1<<uint(n); m++ {
					var ss []int
					for b := 0; b < n; b++ {
						if m>>uint(b)&1 == 1 {
							ss = append(ss, sectors[b])
						}
					}
					subsets = append(subsets, ss)
				}
			} else {
				subsets = append(subsets, nil, sectors)
				// one lost sector / one surviving sector, for every sector — or, for very long tails (> 64 sectors), for the first two,
				// the last two and a seeded sample
				pick := map[int]bool{}
				if n > 64 {
					pick[0], pick[1], pick[n-2], pick[n-1] = true, true, true, true
					for len(pick) < 10 {
						pick[rng.Intn(n)] = true
					}
				}
				for b := 0; b < n; b++ {
					if n > 64 && !pick[b] {
						continue
					}
					subsets = append(subsets, []int{sectors[b]})
					var ss []int
					for c := 0; c < n; c++ {
						if c != b {
							ss = append(ss, sectors[c])
						}
					}
					subsets = append(subsets, ss)
				}
				for r := 0; r < nRandom; r++ {
					var ss []int
					for b := 0; b < n; b++ {
						if rng.Intn(2) == 1 {
							ss = append(ss, sectors[b])
						}
					}
					subsets = append(subsets, ss)
				}
			}
			writeFiles(sc.work, sj)
			for _, ss := range subsets {
				mut := append([]byte(nil), sj.files[last]...)
				old := si.files[last]
				for _, s := range ss {
					for o := s * 512; o < (s+1)*512 && o < len(mut); o++ {
						if o < len(old) {
							mut[o] = old[o]
						} else {
							mut[o] = 0
						}
					}
				}
				var co caseOut
				caseNo++
				if n > 64 || caseNo%8 == 0 {
					co = sc.probeCase(sj, last, mut, zero, Q-P+1024)
				} else {
					co = sc.probeCase(sj, last, mut, zero)
				}
				// the property's oracle: everything synced at i is there, then whole later records, nothing else;
				// a torn final record is repairable
				need := sc.nlog[i]
				var viol []string
				if co.rd.err != "ok" || !vt.atLeast(co.rd.sig, need) {
					viol = append(viol, "read-mode:"+co.rd.text)
				}
				switch co.wr.err {
				case "ok":
					if !vt.atLeast(co.wr.sig, need) {
						viol = append(viol, "write-mode:"+co.wr.text)
					}
				case "ueof":
					if co.rpOK != "1" || co.rp.err != "ok" || !vt.atLeast(co.rp.sig, need) {
						viol = append(viol, "repair:"+co.rpOK+":"+co.rp.text)
					}
				default:
					viol = append(viol, "fatal:"+co.wr.text)
				}
				if co.vfc != "ok" || !vt.states[co.vfs] {
					viol = append(viol, "verify:"+co.vfc+"/"+co.vfs)
				}
				if co.am != "" && co.am != "ok" && !strings.HasPrefix(co.am, "skip:") {
					viol = append(viol, "aftermath:"+co.am)
				}
				if co.am == "ok" {
					aftermathOK++
				}
				or := "ok"
				if len(viol) > 0 {
					or = "VIOL:" + strings.Join(viol, ";")
				}
				var sl []string
				for _, s := range ss {
					sl = append(sl, strconv.Itoa(s))
				}
				st := "-"
				if len(sl) > 0 {
					st = strings.Join(sl, ",")
				}
				fmt.Fprintf(out, "WT %d %d 0 0 %s => %s oracle=%s\n", i, j, st, co.text, or)
			}
		}
	}
}

// crash inside cut(): the old segment is truncated to its last frame and synced, the new one not yet renamed into place
func (sc *walScenario) cutCases(out *bufio.Writer) {
	vt := sc.views(0)
	for j := 1; j < len(sc.states); j++ {
		sj := sc.states[j]
		if len(sj.names) <= len(sc.states[j-1].names) {
			continue
		}
		ds := diskState{names: sj.names[:len(sj.names)-1], files: sj.files[:len(sj.files)-1]}
		writeFiles(sc.work, ds)
		last := len(ds.names) - 1
		co := sc.probeCase(ds, last, ds.files[last], walpb.Snapshot{})
		need := sc.nlog[j]
		or := "ok"
		if co.rd.err != "ok" || !vt.atLeast(co.rd.sig, need) || co.wr.err != "ok" || !vt.atLeast(co.wr.sig, need) || co.vfc != "ok" {
			or = "VIOL:cut:" + co.rd.text + ";" + co.wr.text
		}
		fmt.Fprintf(out, "WK %d => %s oracle=%s\n", j, co.text, or)
	}
}

func (sc *walScenario) byteCases(out *bufio.Writer, smallLimit, stride, tailStride int) {
	j := len(sc.states) - 1
	ds := sc.states[j]
	writeFiles(sc.work, ds)
	starts := []walpb.Snapshot{{}}
	if len(sc.snaps) > 0 {
		starts = append(starts, sc.snaps[len(sc.snaps)-1])
	}
	for si, sn := range starts {
		vt := sc.views(sn.Index)
		for fi := range ds.names {
			b := ds.files[fi]
			end, cls := walkFrames(b)
			step := 1
			if end > smallLimit {
				step = stride
			}
			var offs []int
			for o := 0; o < end; o += step {
				offs = append(offs, o)
			}
			if step > 1 {
				// every framing byte (length fields, tags, type, crc field, data length) regardless of the stride
				for o := 0; o < end; o++ {
					if cls[o] != 'd' && o%step != 0 {
						offs = append(offs, o)
					}
				}
			}
			for o := end; o < len(b) && o < end+24; o++ {
				offs = append(offs, o)
			}
			for o := end + 24 + tailStride; o < len(b); o += tailStride {
				offs = append(offs, o)
			}
			if si > 0 && step == 1 {
				// second start snapshot: framing bytes and a stride of the rest
				var keep []int
				for _, o := range offs {
					if o >= end || cls[o] != 'd' || o%7 == 0 {
						keep = append(keep, o)
					}
				}
				offs = keep
			}
			sort.Ints(offs)
			for _, o := range offs {
				for _, nb := range []byte{0x00, b[o] ^ 1, 0xff} {
					if nb == b[o] {
						continue
					}
					mut := append([]byte(nil), b...)
					mut[o] = nb
					co := sc.probeCase(ds, fi, mut, sn)
					// oracle: whatever is read back is an unmodified prefix of what was written, or an error
					var viol []string
					chk := func(tag string, r raOut) {
						if r.err == "ok" && !vt.atLeast(r.sig, 0) {
							viol = append(viol, tag+":"+r.text)
						}
					}
					chk("read-mode", co.rd)
					chk("write-mode", co.wr)
					if co.wr.err == "ueof" {
						chk("repair", co.rp)
					}
					if co.vfc == "ok" && !vt.states[co.vfs] {
						viol = append(viol, "verify:"+co.vfs)
					}
					if co.rd.err == "panic" || co.wr.err == "panic" || co.vfc == "panic" {
						viol = append(viol, "panic")
					}
					or := "ok"
					if len(viol) > 0 {
						or = "VIOL:" + strings.Join(viol, ";")
					}
					fmt.Fprintf(out, "WB %d %d %d %d %d %d cls=%c old=%02x => %s oracle=%s\n", j, fi, o, nb, sn.Index, sn.Term, cls[o], b[o], co.text, or)
				}
			}
		}
	}
}

// ---------------------------------------------------------------------------------------- snapshots

type snapScenario struct {
	dir      string
	names    []string
	files    [][]byte
	payloads [][]byte
	metas    []walpb.Snapshot
}

func (ss *snapScenario) reset() {
	des, _ := os.ReadDir(ss.dir)
	for _, de := range des {
		os.Remove(filepath.Join(ss.dir, de.Name()))
	}
	for i, n := range ss.names {
		if err := os.WriteFile(filepath.Join(ss.dir, n), ss.files[i], 0o600); err != nil {
			panic(err)
		}
	}
}

func (ss *snapScenario) load(wanted []walpb.Snapshot, all bool) (text string, payload []byte) {
	defer func() {
		if e := recover(); e != nil {
			text, payload = "panic", nil
		}
	}()
	s := snap.New(zap.NewNop(), ss.dir)
	var sn *raftpb.Snapshot
	var err error
	if all {
		sn, err = s.Load()
	} else {
		sn, err = s.LoadNewestAvailable(wanted)
	}
	broken := 0
	des, _ := os.ReadDir(ss.dir)
	for _, de := range des {
		if strings.HasSuffix(de.Name(), ".broken") {
			broken++
		}
	}
	if err != nil {
		c := "other:" + strings.ReplaceAll(err.Error(), " ", "_")
		if err == snap.ErrNoSnapshot {
			c = "nosnap"
		}
		return fmt.Sprintf("%s/broken=%d", c, broken), nil
	}
	p := pbutil.MustMarshal(sn)
	return fmt.Sprintf("ok:%d:%d:%08x/broken=%d", sn.Metadata.Term, sn.Metadata.Index, crc32.Checksum(p, castagnoli), broken), p
}

func (ss *snapScenario) cases(out *bufio.Writer, stride int) {
	// newest file = last in name order
	order := make([]int, len(ss.names))
	for i := range order {
		order[i] = i
	}
	sort.Slice(order, func(a, b int) bool { return ss.names[order[a]] > ss.names[order[b]] })
	newest := order[0]
	b := ss.files[newest]
	wants := map[string][]walpb.Snapshot{"all": nil, "every": ss.metas}
	if len(order) > 1 {
		var w []walpb.Snapshot
		for _, i := range order[1:] {
			w = append(w, ss.metas[i])
		}
		wants["older"] = w
		wants["oldest"] = []walpb.Snapshot{ss.metas[order[len(order)-1]]}
	}
	keys := []string{"all", "every", "older", "oldest"}
	for o := 0; o < len(b); o += stride {
		for _, nb := range []byte{0x00, b[o] ^ 1, 0xff} {
			if nb == b[o] {
				continue
			}
			for _, k := range keys {
				w, ok := wants[k]
				if !ok {
					continue
				}
				ss.reset()
				mut := append([]byte(nil), b...)
				mut[o] = nb
				if err := os.WriteFile(filepath.Join(ss.dir, ss.names[newest]), mut, 0o600); err != nil {
					panic(err)
				}
				text, p := ss.load(w, k == "all")
				// oracle: the newest intact matching snapshot, or an error; never damaged data
				or := "ok"
				if p != nil {
					exp := -1
					for _, i := range order[1:] {
						if k == "all" || k == "every" || k == "older" || (k == "oldest" && i == order[len(order)-1]) {
							exp = i
							break
						}
					}
					if exp < 0 || !bytes.Equal(p, ss.payloads[exp]) {
						or = "VIOL:returned-not-the-next-intact-snapshot"
					}
				} else if len(order) > 1 && !strings.HasPrefix(text, "nosnap") {
					or = "VIOL:" + text
				} else if len(order) > 1 {
					or = "VIOL:no-fallback"
				}
				fmt.Fprintf(out, "SB %d %d %s => %s oracle=%s\n", o, nb, k, text, or)
			}
		}
	}
	ss.reset()
}

// ---------------------------------------------------------------------------------------- main loop

func runWal(args []string) {
	in := bufio.NewScanner(os.Stdin)
	in.Buffer(make([]byte, 1<<20), 1<<28)
	out := bufio.NewWriter(os.Stdout)
	defer out.Flush()
	tmp := os.Getenv("VERIF_TMP")
	if tmp == "" {
		tmp = os.TempDir()
	}
	base, err := os.MkdirTemp(tmp, "verif-wal-")
	if err != nil {
		panic(err)
	}
	defer os.RemoveAll(base)
	var sc *walScenario
	var ss *snapScenario
	nsc := 0
	atoi := func(s string) int {
		n, err := strconv.ParseInt(s, 10, 64)
		if err != nil {
			panic("bad int " + s)
		}
		return int(n)
	}
	atou := func(s string) uint64 {
		n, err := strconv.ParseUint(s, 10, 64)
		if err != nil {
			panic("bad uint " + s)
		}
		return n
	}
	for in.Scan() {
		line := in.Text()
		f := strings.Fields(line)
		if len(f) == 0 {
			continue
		}
		switch f[0] {
		case "WC":
			if sc != nil && sc.w != nil {
				sc.w.Close()
			}
			nsc++
			d := filepath.Join(base, fmt.Sprintf("s%d", nsc))
			sc = &walScenario{base: d, dir: filepath.Join(d, "wal"), work: filepath.Join(d, "work")}
			os.MkdirAll(sc.work, 0o700)
			wal.SegmentSizeBytes = int64(atoi(f[1]))
			w, err := wal.Create(zap.NewNop(), sc.dir, unhexn(f[2]))
			if err != nil {
				panic(err)
			}
			sc.w = w
			sc.logical = append(sc.logical, logRec{kind: 5})
			fmt.Fprintf(out, "%s => %s\n", line, sc.snapshotDisk(true))
		case "WS":
			st := raftpb.HardState{Term: atou(f[1]), Vote: atou(f[2]), Commit: atou(f[3])}
			n := atoi(f[4])
			var ents []raftpb.Entry
			for i := 0; i < n; i++ {
				g := f[5+4*i:]
				ents = append(ents, raftpb.Entry{Type: raftpb.EntryType(atoi(g[0])), Term: atou(g[1]), Index: atou(g[2]), Data: unhexn(g[3])})
			}
			before := readState(sc.dir)
			fs0 := walFsyncs()
			if err := sc.w.Save(st, ents); err != nil {
				panic(err)
			}
			observed := walFsyncs() > fs0
			for _, e := range ents {
				sc.logical = append(sc.logical, logRec{kind: 2, ent: e})
			}
			empty := st.Term == 0 && st.Vote == 0 && st.Commit == 0
			if !empty {
				sc.logical = append(sc.logical, logRec{kind: 3, st: st})
			}
			// raft.MustSync, or a cut (a new file appeared)
			synced := len(ents) != 0 || (!empty && (st.Vote != sc.prevSt.Vote || st.Term != sc.prevSt.Term))
			if !empty {
				sc.prevSt = st
			}
			obs := sc.snapshotDisk(false)
			if len(sc.states[len(sc.states)-1].names) != len(before.names) {
				synced = true
			}
			// `synced` is what the contract demands (raft.MustSync, or a cut); what is recorded and reported is what was OBSERVED
			sc.synced[len(sc.synced)-1] = observed
			if observed {
				obs = strings.TrimSuffix(obs, "synced=0") + "synced=1"
			}
			if synced && !observed {
				// the save call has completed, the caller will externalise (vote, acknowledge) - and a power failure now loses it
				obs += fmt.Sprintf(" nosync=Save(term=%d,vote=%d,commit=%d,entries=%d)-returned-without-fdatasync;after-a-power-failure-ReadAll-returns:%s",
					st.Term, st.Vote, st.Commit, len(ents), sc.powerFailView(base))
			}
			fmt.Fprintf(out, "%s => %s\n", line, obs)
		case "WN":
			sn := walpb.Snapshot{Index: atou(f[1]), Term: atou(f[2])}
			conf := "nil"
			if f[3] != "nil" {
				cs := &raftpb.ConfState{}
				for v := 1; v <= atoi(f[3]); v++ {
					cs.Voters = append(cs.Voters, uint64(v))
				}
				sn.ConfState = cs
				conf = hx(pbutil.MustMarshal(cs))
			}
			fs0 := walFsyncs()
			if err := sc.w.SaveSnapshot(sn); err != nil {
				fmt.Fprintf(out, "%s => conf=%s refused files=- synced=0\n", line, conf)
				continue
			}
			observed := walFsyncs() > fs0
			sc.snaps = append(sc.snaps, sn)
			sc.logical = append(sc.logical, logRec{kind: 5})
			obs := sc.snapshotDisk(observed)
			if !observed {
				obs += fmt.Sprintf(" nosync=SaveSnapshot(index=%d,term=%d)-returned-without-fdatasync;after-a-power-failure-ReadAll-returns:%s", sn.Index, sn.Term, sc.powerFailView(base))
			}
			fmt.Fprintf(out, "%s => conf=%s %s\n", line, conf, obs)
		case "WX":
			if err := sc.w.Close(); err != nil {
				panic(err)
			}
			sc.w = nil
			fmt.Fprintf(out, "%s => %s\n", line, sc.snapshotDisk(true))
		case "WM":
			if f[1] == "torn" {
				sc.tornCases(out, atoi(f[2]), atoi(f[3]), int64(atoi(f[4])))
				sc.cutCases(out)
			} else {
				sc.byteCases(out, atoi(f[2]), atoi(f[3]), atoi(f[4]))
			}
		case "SN":
			nsc++
			d := filepath.Join(base, fmt.Sprintf("snap%d", nsc))
			os.MkdirAll(d, 0o700)
			ss = &snapScenario{dir: d}
			fmt.Fprintf(out, "%s\n", line)
		case "SF":
			cs := raftpb.ConfState{}
			for v := 1; v <= atoi(f[3]); v++ {
				cs.Voters = append(cs.Voters, uint64(v))
			}
			sn := raftpb.Snapshot{Data: unhexn(f[4]), Metadata: raftpb.SnapshotMetadata{ConfState: cs, Index: atou(f[2]), Term: atou(f[1])}}
			if err := snap.New(zap.NewNop(), ss.dir).SaveSnap(sn); err != nil {
				panic(err)
			}
			name := fmt.Sprintf("%016x-%016x.snap", sn.Metadata.Term, sn.Metadata.Index)
			b, err := os.ReadFile(filepath.Join(ss.dir, name))
			if err != nil {
				panic(err)
			}
			p := pbutil.MustMarshal(&sn)
			ss.names = append(ss.names, name)
			ss.files = append(ss.files, b)
			ss.payloads = append(ss.payloads, p)
			ss.metas = append(ss.metas, walpb.Snapshot{Index: sn.Metadata.Index, Term: sn.Metadata.Term})
			fmt.Fprintf(out, "%s => payload=%s name=%s file=%s\n", line, hx(p), name, hx(b))
		case "SM":
			ss.cases(out, atoi(f[1]))
		}
		out.Flush()
	}
	if sc != nil && sc.w != nil {
		sc.w.Close()
	}
}

// walFsyncs is the number of fdatasync calls the wal package has made so far: the sample count of its own histogram
// etcd_disk_wal_fsync_duration_seconds (wal.sync and the file pipeline observe it around every fileutil.Fdatasync).  The harness
// OBSERVES the sync points with it instead of assuming raft.MustSync was honoured (seeded change C16-mustsync-after-savestate: the
// rule was evaluated after w.state had been overwritten, so a Save that only changed Term/Vote returned without fdatasync).
func walFsyncs() uint64 {
	mfs, err := prometheus.DefaultGatherer.Gather()
	if err != nil {
		panic(err)
	}
	for _, mf := range mfs {
		if mf.GetName() == "etcd_disk_wal_fsync_duration_seconds" {
			var n uint64
			for _, m := range mf.GetMetric() {
				n += m.GetHistogram().GetSampleCount()
			}
			return n
		}
	}
	panic("metric etcd_disk_wal_fsync_duration_seconds not registered")
}

// powerFailView: what ReadAll returns from the newest image that is known to be on stable storage (the last state after which an
// fdatasync was observed) - i.e. after a power failure that loses every sector written since
func (sc *walScenario) powerFailView(base string) string {
	j := -1
	for i := len(sc.states) - 2; i >= 0; i-- { // the newest state is the one just produced by the unsynced call
		if sc.synced[i] {
			j = i
			break
		}
	}
	if j < 0 {
		return "no-synced-state"
	}
	d, err := os.MkdirTemp(base, "pf")
	if err != nil {
		panic(err)
	}
	defer os.RemoveAll(d)
	ds := sc.states[j]
	for i, n := range ds.names {
		if err := os.WriteFile(filepath.Join(d, n), ds.files[i], 0o600); err != nil {
			panic(err)
		}
	}
	w, err := wal.OpenForRead(zap.NewNop(), d, walpb.Snapshot{})
	if err != nil {
		return "open:" + strings.ReplaceAll(err.Error(), " ", "_")
	}
	defer w.Close()
	_, st, ents, err := w.ReadAll()
	if err != nil {
		return "readall:" + strings.ReplaceAll(err.Error(), " ", "_")
	}
	return fmt.Sprintf("term=%d,vote=%d,commit=%d,entries=%d", st.Term, st.Vote, st.Commit, len(ents))
}
