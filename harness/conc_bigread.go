package main

import (
	"encoding/json"
	"fmt"
	"strconv"
	"strings"
	"sync"
	"sync/atomic"
	"time"

	"github.com/innovationb1ue/RedisGO/config"
	"github.com/innovationb1ue/RedisGO/server"
)

// bigread scenario (C05): containers large enough that listing them is not instantaneous (2 000 - 4 000 elements), so that whatever a
// listing command builds or caches while it walks the container is exposed to the other clients for a measurable time.  One container
// per family (sorted set, hash, set, list) is preloaded; writers only ADD new elements (each addition acknowledged before the next);
// readers list the whole container through every listing command of the family.  For a grow-only container linearizability of a
// listing has a direct form that needs no search:
//   - every element whose addition was ACKNOWLEDGED before the listing was INVOKED is in the reply (in particular all preloaded ones),
//   - every element of the reply was at least INVOKED before the listing RETURNED,
//   - no element twice, and the order is the family's (score order for ZRANGE incl. REV, insertion order for LRANGE),
//   - the reported cardinalities (HLEN, SCARD, LLEN, array length of the listing) lie between the two counts above.
//
// Added after the seeded change C05-zrange-rlock-shared-cache (ZRANGE under the read lock filling a shared lazily built cache in place:
// a second reader saw the half-built listing), which the small porcupine scenarios cannot reach: with four members the window is a
// few nanoseconds.
type bigreadFamily struct {
	name    string
	key     string
	add     func(i int) []string // command adding element i
	elem    func(i int) string   // the element's text in listings
	listers [][]string           // listing commands; each replies a flat array
	stride  []int                // how many array items one element occupies in that listing (WITHSCORES / HGETALL: 2)
	ordered []int                // 0 unordered, 1 ascending by index, -1 descending by index
	card    []string             // cardinality command, or nil
	sample  []string             // random-selection command (flat array of element names), or nil
}

func bigreadFamilies() []bigreadFamily {
	pad := func(i int) string { return fmt.Sprintf("m%06d", i) }
	return []bigreadFamily{
		{name: "zset", key: "bigz",
			add:     func(i int) []string { return []string{"ZADD", "bigz", strconv.Itoa(i), pad(i)} },
			elem:    pad,
			listers: [][]string{{"ZRANGE", "bigz", "0", "-1"}, {"ZRANGE", "bigz", "0", "-1", "WITHSCORES"}, {"ZRANGE", "bigz", "0", "-1", "REV"}},
			stride:  []int{1, 2, 1}, ordered: []int{1, 1, -1}},
		{name: "hash", key: "bigh",
			add:     func(i int) []string { return []string{"HSET", "bigh", pad(i), "v"} },
			elem:    pad,
			listers: [][]string{{"HKEYS", "bigh"}, {"HGETALL", "bigh"}},
			stride:  []int{1, 2}, ordered: []int{0, 0}, card: []string{"HLEN", "bigh"}, sample: []string{"HRANDFIELD", "bigh", "7"}},
		{name: "set", key: "bigs",
			add:     func(i int) []string { return []string{"SADD", "bigs", pad(i)} },
			elem:    pad,
			listers: [][]string{{"SMEMBERS", "bigs"}, {"SUNION", "bigs"}},
			stride:  []int{1, 1}, ordered: []int{0, 0}, card: []string{"SCARD", "bigs"}, sample: []string{"SRANDMEMBER", "bigs", "7"}},
		{name: "list", key: "bigl",
			add:     func(i int) []string { return []string{"RPUSH", "bigl", pad(i)} },
			elem:    pad,
			listers: [][]string{{"LRANGE", "bigl", "0", "-1"}},
			stride:  []int{1}, ordered: []int{1}, card: []string{"LLEN", "bigl"}},
	}
}

// flatBulks decodes "*n\r\n$k\r\n...\r\n..." into its bulk strings (nil, false when the reply is anything else)
func flatBulks(reply string) ([]string, bool) {
	if !strings.HasPrefix(reply, "*") {
		return nil, false
	}
	nl := strings.Index(reply, "\r\n")
	if nl < 0 {
		return nil, false
	}
	n, err := strconv.Atoi(reply[1:nl])
	if err != nil || n < 0 {
		return nil, false
	}
	out := make([]string, 0, n)
	p := nl + 2
	for len(out) < n {
		if p >= len(reply) || reply[p] != '$' {
			return nil, false
		}
		e := strings.Index(reply[p:], "\r\n")
		if e < 0 {
			return nil, false
		}
		l, err := strconv.Atoi(reply[p+1 : p+e])
		if err != nil || l < 0 || p+e+2+l+2 > len(reply) {
			return nil, false
		}
		out = append(out, reply[p+e+2:p+e+2+l])
		p += e + 2 + l + 2
	}
	return out, p == len(reply)
}

func bigRead(seed int64, rounds int, want map[string]bool, enc *json.Encoder) {
	if !want["all"] && !want["bigread"] {
		return
	}
	fams := bigreadFamilies()
	for rf := 0; rf < rounds*len(fams); rf++ {
		r, f := rf/len(fams), fams[rf%len(fams)]
		pre := []int{2000, 4000}[r%2]
		rep := concReport{Scenario: "bigread-" + f.name, Seed: seed + int64(r), Goroutines: 6, Shards: []int{1, 1024}[r%2]}
		config.Configures.ShardNum = rep.Shards
		mgr := server.NewManager(config.Configures)
		// preload in batches through the same commands
		for i := 0; i < pre; i++ {
			if out, p := runCmd(mgr, f.add(i)...); p || strings.HasPrefix(out, "-") {
				rep.Result, rep.Detail = "invariant", "preload refused: "+out
				break
			}
		}
		if rep.Result != "" {
			enc.Encode(rep)
			continue
		}
		index := func(s string) (int, bool) {
			if len(s) != 7 || s[0] != 'm' {
				return 0, false
			}
			n, err := strconv.Atoi(s[1:])
			return n, err == nil
		}
		var invoked, acked atomic.Int64 // elements [0, invoked) have been sent, [0, acked) acknowledged (one writer: additions are sequential)
		invoked.Store(int64(pre))
		acked.Store(int64(pre))
		var bad atomic.Value
		var reads atomic.Int64
		stop := make(chan struct{})
		var wg sync.WaitGroup
		wg.Add(1)
		go func() { // the writer
			defer wg.Done()
			for i := pre; ; i++ {
				select {
				case <-stop:
					return
				default:
				}
				invoked.Store(int64(i + 1))
				out, p := runCmd(mgr, f.add(i)...)
				if p || (out != ":1\r\n" && !(f.name == "list" && out == fmt.Sprintf(":%d\r\n", i+1))) {
					bad.CompareAndSwap(nil, fmt.Sprintf("%s answered %q", strings.Join(f.add(i), " "), out))
					return
				}
				acked.Store(int64(i + 1))
				if i%8 == 0 {
					time.Sleep(50 * time.Microsecond) // leave the readers room between invalidations
				}
			}
		}()
		const perReader = 30
		for g := 0; g < 5; g++ {
			wg.Add(1)
			go func(g int) {
				defer wg.Done()
				for i := 0; i < perReader && bad.Load() == nil; i++ {
					li := (i + g) % len(f.listers)
					lo := acked.Load()
					out, p := runCmd(mgr, f.listers[li]...)
					hi := invoked.Load()
					reads.Add(1)
					who := strings.Join(f.listers[li], " ")
					if p {
						bad.CompareAndSwap(nil, who+" panicked: "+out)
						return
					}
					items, ok := flatBulks(out)
					if !ok || len(items)%f.stride[li] != 0 {
						bad.CompareAndSwap(nil, fmt.Sprintf("%s: malformed reply (%d bytes)", who, len(out)))
						return
					}
					n := len(items) / f.stride[li]
					if int64(n) < lo || int64(n) > hi {
						bad.CompareAndSwap(nil, fmt.Sprintf("%s listed %d elements; %d additions had been acknowledged before it was invoked and %d invoked when it returned", who, n, lo, hi))
						return
					}
					seen := make([]bool, hi)
					last := -1
					for j := 0; j < n; j++ {
						ix, ok := index(items[j*f.stride[li]])
						if !ok || int64(ix) >= hi {
							bad.CompareAndSwap(nil, fmt.Sprintf("%s returned %q, which no client had added when it returned", who, items[j*f.stride[li]]))
							return
						}
						if seen[ix] {
							bad.CompareAndSwap(nil, fmt.Sprintf("%s returned %q twice", who, items[j*f.stride[li]]))
							return
						}
						seen[ix] = true
						if f.ordered[li] != 0 && j > 0 && (ix-last)*f.ordered[li] <= 0 {
							bad.CompareAndSwap(nil, fmt.Sprintf("%s out of order at position %d: %q after %q", who, j, items[j*f.stride[li]], f.elem(last)))
							return
						}
						last = ix
					}
					for ix := int64(0); ix < lo; ix++ {
						if !seen[ix] {
							bad.CompareAndSwap(nil, fmt.Sprintf("%s (%d elements) lacks %q, whose addition was acknowledged before the command was invoked", who, n, f.elem(int(ix))))
							return
						}
					}
					if f.sample != nil {
						// random selection right after a change (the writer keeps adding): only elements that exist may come back, and nothing may crash
						out, p := runCmd(mgr, f.sample...)
						hi3 := invoked.Load()
						if p {
							bad.CompareAndSwap(nil, strings.Join(f.sample, " ")+" panicked: "+out)
							return
						}
						its, ok := flatBulks(out)
						if !ok || len(its) != 7 {
							bad.CompareAndSwap(nil, fmt.Sprintf("%s answered %q (7 distinct elements of a container of thousands expected)", strings.Join(f.sample, " "), out[:imin(len(out), 120)]))
							return
						}
						seen7 := map[string]bool{}
						for _, it := range its {
							ix, ok := index(it)
							if !ok || int64(ix) >= hi3 || seen7[it] {
								bad.CompareAndSwap(nil, fmt.Sprintf("%s returned %q (not an element / twice)", strings.Join(f.sample, " "), it))
								return
							}
							seen7[it] = true
						}
					}
					if f.card != nil && i%3 == 0 {
						lo2 := acked.Load()
						out, _ := runCmd(mgr, f.card...)
						hi2 := invoked.Load()
						c, err := strconv.ParseInt(strings.TrimSuffix(strings.TrimPrefix(out, ":"), "\r\n"), 10, 64)
						if err != nil || c < lo2 || c > hi2 {
							bad.CompareAndSwap(nil, fmt.Sprintf("%s answered %q; between %d and %d elements existed", strings.Join(f.card, " "), out, lo2, hi2))
							return
						}
					}
				}
			}(g)
		}
		done := make(chan struct{})
		go func() { wg.Wait(); close(done) }()
		go func() {
			for reads.Load() < 5*perReader && bad.Load() == nil {
				select {
				case <-done:
					return
				default:
				}
				time.Sleep(2 * time.Millisecond)
			}
			close(stop)
		}()
		select {
		case <-done:
		case <-time.After(60 * time.Second):
			rep.Result, rep.Detail = "stuck", "bigread-"+f.name+": readers or the writer did not finish within 60 s"
			enc.Encode(rep)
			return
		}
		rep.Ops = int(reads.Load() + acked.Load() - int64(pre))
		rep.Result = "ok"
		if b := bad.Load(); b != nil {
			rep.Result, rep.Detail = "not-linearizable", b.(string)
		} else {
			// quiescence: a final listing is exactly the acknowledged elements
			out, _ := runCmd(mgr, f.listers[0]...)
			items, ok := flatBulks(out)
			if !ok || int64(len(items)/f.stride[0]) != acked.Load() {
				rep.Result, rep.Detail = "invariant", fmt.Sprintf("at quiescence %s lists %d elements, %d additions were acknowledged", strings.Join(f.listers[0], " "), len(items)/f.stride[0], acked.Load())
			}
		}
		enc.Encode(rep)
	}
}
