package main

import (
	"bufio"
	"encoding/hex"
	"fmt"
	"os"
	"strconv"
	"strings"
	"time"

	"github.com/innovationb1ue/RedisGO/util"
)

func unhex(s string) []byte {
	if s == "-" {
		return []byte{}
	}
	b, err := hex.DecodeString(s)
	if err != nil {
		panic("bad hex " + s)
	}
	return b
}

func hx(b []byte) string {
	if len(b) == 0 {
		return "-"
	}
	return hex.EncodeToString(b)
}

func safeMatch(p, s string) (r byte) {
	defer func() {
		if e := recover(); e != nil {
			r = 'P'
		}
	}()
	if util.PattenMatch(p, s) {
		return '1'
	}
	return '0'
}

// stringsUpTo enumerates all strings over alpha of length 0..n, by length, then lexicographically by alphabet position.
func stringsUpTo(alpha []byte, n int) []string {
	var out []string
	level := []string{""}
	out = append(out, level...)
	for l := 1; l <= n; l++ {
		var next []string
		// first byte most significant: prepend each alphabet byte to every string of the previous level
		for _, a := range alpha {
			for _, s := range level {
				next = append(next, string(a)+s)
			}
		}
		level = next
		out = append(out, level...)
	}
	return out
}

const globHang = 4 * time.Second

// runGlob: "G <pat> <sub>" -> appends 0/1/P ; "GE <pat> <alphabet> <maxlen>" -> appends one outcome char per subject.
func runGlob(args []string) {
	in := bufio.NewScanner(os.Stdin)
	in.Buffer(make([]byte, 1<<20), 1<<26)
	out := bufio.NewWriter(os.Stdout)
	defer out.Flush()
	cache := map[string][]string{}
	// watchdog: "matching always terminates" — a line whose evaluation does not finish within globHang is answered with the outcome H
	// and the process exits (the spinning goroutine cannot be stopped); the orchestrator restarts the engine after that line.
	progress := make(chan struct{}, 1)
	var current string
	go func() {
		for {
			select {
			case <-progress:
			case <-time.After(globHang):
				if current != "" {
					out.Flush()
					fmt.Fprintf(os.Stdout, "%s H\n", current)
					os.Exit(0)
				}
			}
		}
	}()
	for in.Scan() {
		line := in.Text()
		f := strings.Fields(line)
		out.Flush()
		current = line
		select {
		case progress <- struct{}{}:
		default:
		}
		if len(f) == 3 && f[0] == "G" {
			fmt.Fprintf(out, "%s %c\n", line, safeMatch(string(unhex(f[1])), string(unhex(f[2]))))
		} else if len(f) == 4 && f[0] == "GE" {
			n, _ := strconv.Atoi(f[3])
			key := f[2] + "/" + f[3]
			subs, ok := cache[key]
			if !ok {
				subs = stringsUpTo(unhex(f[2]), n)
				cache[key] = subs
			}
			p := string(unhex(f[1]))
			res := make([]byte, len(subs))
			for i, s := range subs {
				res[i] = safeMatch(p, s)
			}
			fmt.Fprintf(out, "%s %s\n", line, res)
		}
	}
}
