package main

import (
	"encoding/json"
	"fmt"
	"math/rand"
	"os"
	"runtime"
	"sort"
	"strings"
	"sync"
	"sync/atomic"
	"time"

	"github.com/innovationb1ue/RedisGO/config"
	"github.com/innovationb1ue/RedisGO/server"
)

// multi-key scenarios (C13): deadlock watchdog on colliding keys, and atomicity invariants that any non-atomic interleaving
// of MSET / RENAME / LMOVE / SMOVE would break, checked by concurrent observers and at quiescence.
func multiKey(seed int64, rounds int, want map[string]bool, enc *json.Encoder) {
	if !want["all"] && !want["multikey"] {
		return
	}
	for r := 0; r < rounds; r++ {
		for _, shards := range []int{1, 2, 1024} {
			rep := concReport{Scenario: "multikey", Seed: seed + int64(r), Shards: shards, Goroutines: 8}
			runMulti(seed+int64(r), shards, &rep)
			enc.Encode(rep)
			if rep.Result == "stuck" {
				return
			}
		}
	}
}

// storeOK: include the S*STORE commands in the mix (VERIF_CONC_STORE=1)
var storeOK = os.Getenv("VERIF_CONC_STORE") != ""

func runMulti(seed int64, shards int, rep *concReport) {
	config.Configures.ShardNum = shards
	mgr := server.NewManager(config.Configures)
	lsMu.Lock()
	lsDB = mgr.CurrentDB
	lsByG = map[int64]*lockset{}
	lsMu.Unlock()
	lsBad = atomic.Value{}
	lsOn.Store(true)
	defer lsOn.Store(false)
	keys := []string{"c", "d"} // single-key traffic and DEL stay off the MSET pair a/b
	// setup: lists la/lb with distinct elements, sets sa/sb, strings
	for i := 0; i < 6; i++ {
		runCmd(mgr, "RPUSH", "la", fmt.Sprintf("x%d", i))
		runCmd(mgr, "SADD", "sa", fmt.Sprintf("m%d", i))
	}
	runCmd(mgr, "MSET", "a", "0", "b", "0")
	runCmd(mgr, "SET", "tok", "T")
	var wg sync.WaitGroup
	var bad atomic.Value
	var inflight sync.Map
	var nops atomic.Int64
	worker := func(g int, body func(rng *rand.Rand, i int) []string, check func(argv []string, out string) string) {
		wg.Add(1)
		go func() {
			defer wg.Done()
			rng := rand.New(rand.NewSource(seed*100 + int64(g)))
			for i := 0; i < 60; i++ {
				argv := body(rng, i)
				inflight.Store(g, strings.Join(argv, " "))
				out, p := runCmd(mgr, argv...)
				nops.Add(1)
				if p {
					bad.CompareAndSwap(nil, "panic: "+strings.Join(argv, " ")+" -> "+out)
					return
				}
				if check != nil {
					if msg := check(argv, out); msg != "" {
						bad.CompareAndSwap(nil, msg)
					}
				}
				if rng.Intn(3) == 0 {
					runtime.Gosched()
				}
			}
			inflight.Delete(g)
		}()
	}
	// MSET writers: both keys always get the same value
	for g := 0; g < 2; g++ {
		g := g
		worker(g, func(rng *rand.Rand, i int) []string {
			v := fmt.Sprintf("%d_%d", g, i)
			if rng.Intn(2) == 0 {
				return []string{"MSET", "a", v, "b", v}
			}
			return []string{"MSET", "b", v, "a", v}
		}, nil)
	}
	// LMOVE back and forth, SMOVE back and forth, RENAME of a token between two names, single-key traffic on the same stripes
	worker(2, func(rng *rand.Rand, i int) []string { return []string{"LMOVE", "la", "lb", "LEFT", "RIGHT"} }, nil)
	worker(3, func(rng *rand.Rand, i int) []string { return []string{"LMOVE", "lb", "la", "LEFT", "RIGHT"} }, nil)
	worker(4, func(rng *rand.Rand, i int) []string {
		return []string{"SMOVE", "sa", "sb", fmt.Sprintf("m%d", rng.Intn(6))}
	}, nil)
	worker(5, func(rng *rand.Rand, i int) []string {
		return []string{"SMOVE", "sb", "sa", fmt.Sprintf("m%d", rng.Intn(6))}
	}, nil)
	worker(6, func(rng *rand.Rand, i int) []string {
		if i%2 == 0 {
			return []string{"RENAME", "tok", "tok2"}
		}
		return []string{"RENAME", "tok2", "tok"}
	}, nil)
	worker(7, func(rng *rand.Rand, i int) []string {
		k := keys[rng.Intn(len(keys))]
		switch rng.Intn(6) {
		case 0:
			return []string{"DEL", "c", "d", k}
		case 1:
			return []string{"EXISTS", "a", "b", "c", "d"}
		case 2:
			return []string{"MGET", "a", "c", "b"}
		case 3:
			if storeOK {
				return []string{"SUNIONSTORE", "d", "sa", "sb"}
			}
			return []string{"SINTER", "sa", "sb"}
		case 4:
			return []string{"SET", "c", "1"}
		default:
			return []string{"INCR", "c"}
		}
	}, nil)
	done := make(chan struct{})
	go func() { wg.Wait(); close(done) }()
	select {
	case <-done:
	case <-time.After(20 * time.Second):
		var stuck []string
		inflight.Range(func(k, v interface{}) bool { stuck = append(stuck, fmt.Sprintf("g%d: %s", k, v)); return true })
		buf := make([]byte, 1<<16)
		n := runtime.Stack(buf, true)
		rep.Result, rep.Detail = "stuck", "commands did not return within 20 s (deadlock): "+strings.Join(stuck, "; ")+"\n"+string(buf[:n])
		return
	}
	rep.Ops = int(nops.Load())
	if b := bad.Load(); b != nil {
		rep.Result, rep.Detail = "invariant", b.(string)
		return
	}
	if b := lsBad.Load(); b != nil {
		rep.Result, rep.Detail = "lockset", b.(string)
		return
	}
	// quiescence: MSET applied to both keys or neither
	va, _ := runCmd(mgr, "GET", "a")
	vb, _ := runCmd(mgr, "GET", "b")
	if va != vb {
		rep.Result, rep.Detail = "invariant", fmt.Sprintf("MSET not atomic: a=%q b=%q after MSET writers that always set both to one value", va, vb)
		return
	}
	// LMOVE conserves the elements
	la, _ := runCmd(mgr, "LRANGE", "la", "0", "-1")
	lb, _ := runCmd(mgr, "LRANGE", "lb", "0", "-1")
	els := append(bulkItems(la), bulkItems(lb)...)
	sort.Strings(els)
	if strings.Join(els, ",") != "x0,x1,x2,x3,x4,x5" {
		rep.Result, rep.Detail = "invariant", fmt.Sprintf("LMOVE lost or duplicated elements: la=%q lb=%q", la, lb)
		return
	}
	sa, _ := runCmd(mgr, "SMEMBERS", "sa")
	sb, _ := runCmd(mgr, "SMEMBERS", "sb")
	ms := append(bulkItems(sa), bulkItems(sb)...)
	sort.Strings(ms)
	if strings.Join(ms, ",") != "m0,m1,m2,m3,m4,m5" {
		rep.Result, rep.Detail = "invariant", fmt.Sprintf("SMOVE lost or duplicated members: sa=%q sb=%q", sa, sb)
		return
	}
	t1, _ := runCmd(mgr, "EXISTS", "tok")
	t2, _ := runCmd(mgr, "EXISTS", "tok2")
	if (t1 == ":1\r\n") == (t2 == ":1\r\n") {
		rep.Result, rep.Detail = "invariant", fmt.Sprintf("RENAME lost or duplicated the value: EXISTS tok=%q tok2=%q", t1, t2)
		return
	}
	keysNow, count := mgr.CurrentDB.VerifKeys()
	if int(count) != len(keysNow) {
		rep.Result, rep.Detail = "invariant", fmt.Sprintf("keyspace counter %d but %d keys present", count, len(keysNow))
		return
	}
	rep.Result = "ok"
}

// bulkItems extracts the payloads of a flat array reply of bulk (or simple) strings
func bulkItems(reply string) []string {
	var out []string
	lines := strings.Split(reply, "\r\n")
	for i := 1; i < len(lines); i++ {
		l := lines[i]
		if strings.HasPrefix(l, "$") {
			if i+1 < len(lines) {
				out = append(out, lines[i+1])
				i++
			}
		} else if strings.HasPrefix(l, "+") {
			out = append(out, l[1:])
		}
	}
	return out
}
