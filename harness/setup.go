package main

import (
	"os"
	"path/filepath"

	"github.com/innovationb1ue/RedisGO/config"
	"github.com/innovationb1ue/RedisGO/logger"
	"github.com/innovationb1ue/RedisGO/memdb"
)

// setupLogger installs a config and a silenced logger (logger.* dereferences a nil config otherwise).
func setupLogger() {
	dir := os.Getenv("VERIF_LOGDIR")
	if dir == "" {
		dir = filepath.Join(os.TempDir(), "verif-harness-log")
	}
	_ = os.MkdirAll(dir, 0o755)
	shards := 1024
	if v := os.Getenv("VERIF_SHARDS"); v != "" {
		n := 0
		for _, c := range v {
			n = n*10 + int(c-'0')
		}
		if n > 0 {
			shards = n
		}
	}
	dbs := 16
	cfg := &config.Config{ShardNum: shards, LogDir: dir, LogLevel: "panic", Databases: dbs}
	config.Configures = cfg
	if err := logger.SetUp(cfg); err != nil {
		panic(err)
	}
	logger.Disable()
	// the registrations main.go's init() performs
	memdb.RegisterKeyCommands()
	memdb.RegisterStringCommands()
	memdb.RegisterListCommands()
	memdb.RegisterSetCommands()
	memdb.RegisterHashCommands()
	memdb.RegisterPubSubCommands()
	memdb.RegisterSortedSetCommands()
	memdb.RegisterStreamCommands()
	memdb.RegisterRaftCommand()
}
