package main

import (
	"bytes"
	"context"
	"encoding/json"
	"fmt"
	"io"
	"math/rand"
	"net"
	"runtime"
	"strconv"
	"strings"
	"sync"
	"sync/atomic"
	"time"

	"github.com/innovationb1ue/RedisGO/config"
	"github.com/innovationb1ue/RedisGO/server"
)

// pubsub scenario (C19, concurrent): stable subscribers, several publishers publishing concurrently (payload sizes up to 64 KiB,
// CR/LF inside), churn connections subscribing and disconnecting meanwhile. Afterwards every stable subscriber's byte stream must
// be a sequence of well-formed `message` pushes containing every published message exactly once, intact, each publisher's
// messages in its publish order; PUBLISH replies count at least the stable subscribers; nobody blocks for ever.

func encCmd(args ...string) []byte {
	var b bytes.Buffer
	fmt.Fprintf(&b, "*%d\r\n", len(args))
	for _, a := range args {
		fmt.Fprintf(&b, "$%d\r\n%s\r\n", len(a), a)
	}
	return b.Bytes()
}

// parsePushes strictly decodes a stream of *3 [$7 message, $n channel, $n payload]; returns payloads or an error text
func parsePushes(b []byte) ([][2]string, string) {
	var out [][2]string
	readLine := func() (string, bool) {
		i := bytes.Index(b, []byte("\r\n"))
		if i < 0 {
			return "", false
		}
		l := string(b[:i])
		b = b[i+2:]
		return l, true
	}
	readBulk := func() (string, bool) {
		l, ok := readLine()
		if !ok || !strings.HasPrefix(l, "$") {
			return "", false
		}
		n, err := strconv.Atoi(l[1:])
		if err != nil || n < 0 || len(b) < n+2 || b[n] != '\r' || b[n+1] != '\n' {
			return "", false
		}
		s := string(b[:n])
		b = b[n+2:]
		return s, true
	}
	for len(b) > 0 {
		rest := len(b)
		if bytes.HasPrefix(b, []byte("+PONG\r\n")) { // the subscriber's own PING replies share the connection
			b = b[7:]
			continue
		}
		l, ok := readLine()
		if ok && l == fmt.Sprintf("*%d", bigListLen) { // the subscriber's own LRANGE replies (20 kB: more than one write buffer) share the connection too
			for k := 0; k < bigListLen; k++ {
				e, okb := readBulk()
				if !okb || e != bigListElem(k) {
					return out, fmt.Sprintf("the subscriber's own LRANGE reply is damaged at element %d, %d bytes before the end", k, rest)
				}
			}
			continue
		}
		if !ok || l != "*3" {
			return out, fmt.Sprintf("expected a 3-element push at %d bytes before the end, found %q", rest, l)
		}
		kind, ok1 := readBulk()
		ch, ok2 := readBulk()
		pl, ok3 := readBulk()
		if !ok1 || !ok2 || !ok3 || kind != "message" {
			return out, fmt.Sprintf("malformed push (kind %q) at %d bytes before the end", kind, rest)
		}
		out = append(out, [2]string{ch, pl})
	}
	return out, ""
}

const bigListLen = 200

func bigListElem(k int) string { return fmt.Sprintf("elem-%03d-", k) + strings.Repeat("x", 90) }

func pubsubConc(seed int64, rounds int, want map[string]bool, enc *json.Encoder) {
	if !want["all"] && !want["pubsub"] {
		return
	}
	for r := 0; r < rounds; r++ {
		rep := concReport{Scenario: "pubsub", Seed: seed + int64(r), Goroutines: 3 + 4 + 2, Shards: 1024}
		config.Configures.ShardNum = 1024
		mgr := server.NewManager(config.Configures)
		psBegin(mgr.CurrentDB, true)
		ctx, cancel := context.WithCancel(context.Background())
		const nsub, npub, nmsg = 3, 4, 25
		subs := make([]*sconn, nsub)
		{
			args := []string{"RPUSH", "big"}
			for k := 0; k < bigListLen; k++ {
				args = append(args, bigListElem(k))
			}
			mgr.ExecCommand(ctx, func() [][]byte {
				out := make([][]byte, len(args))
				for i, a := range args {
					out[i] = []byte(a)
				}
				return out
			}(), nil)
		}
		for i := range subs {
			subs[i] = newSconn(ctx, mgr)
			subs[i].c.Write(encCmd("SUBSCRIBE", "news", "sport"))
			subs[i].waitFor([]byte("sport\r\n:1\r\n"), 2*time.Second)
			subs[i].take()
		}
		sizes := []int{8, 100, 4096, 8192, 40000, 70000}
		var wg sync.WaitGroup
		var bad atomic.Value
		var minCount atomic.Int64
		minCount.Store(1 << 30)
		stop := make(chan struct{})
		// churn: connections that subscribe and go away
		for c := 0; c < 2; c++ {
			wg.Add(1)
			go func(c int) {
				defer wg.Done()
				for i := 0; ; i++ {
					select {
					case <-stop:
						return
					default:
					}
					s := newSconn(ctx, mgr)
					s.c.SetWriteDeadline(time.Now().Add(2 * time.Second))
					s.c.Write(encCmd("SUBSCRIBE", "news", fmt.Sprintf("side%d", c)))
					time.Sleep(time.Duration(1+i%3) * time.Millisecond)
					s.c.Close()
				}
			}(c)
		}
		// the subscribers keep talking on their own connections: replies and pushes share the socket
		for i := range subs {
			wg.Add(1)
			go func(s *sconn) {
				defer wg.Done()
				for {
					select {
					case <-stop:
						return
					default:
					}
					s.c.SetWriteDeadline(time.Now().Add(2 * time.Second))
					s.c.Write(encCmd("PING"))
					time.Sleep(200 * time.Microsecond)
					s.c.SetWriteDeadline(time.Now().Add(2 * time.Second))
					s.c.Write(encCmd("LRANGE", "big", "0", "-1"))
					time.Sleep(200 * time.Microsecond)
				}
			}(subs[i])
		}
		var pwg sync.WaitGroup
		for p := 0; p < npub; p++ {
			pwg.Add(1)
			go func(p int) {
				defer pwg.Done()
				rng := rand.New(rand.NewSource(seed*77 + int64(p)))
				pc := newSconn(ctx, mgr)
				defer pc.c.Close()
				for i := 0; i < nmsg; i++ {
					n := sizes[rng.Intn(len(sizes))]
					head := fmt.Sprintf("%d:%d:%d:", p, i, n)
					payload := head + strings.Repeat("x\r\n", n/3+1)[:n]
					pc.c.SetWriteDeadline(time.Now().Add(10 * time.Second))
					if _, err := pc.c.Write(encCmd("PUBLISH", []string{"news", "sport"}[p%2], payload)); err != nil {
						bad.CompareAndSwap(nil, fmt.Sprintf("publisher %d: write failed: %v", p, err))
						return
					}
					if st := pc.waitFor([]byte("\r\n"), 10*time.Second); st != "open" {
						bad.CompareAndSwap(nil, fmt.Sprintf("publisher %d blocked: no reply to PUBLISH #%d within 10 s (%s)", p, i, st))
						return
					}
					reply := string(pc.take())
					cnt, err := strconv.Atoi(strings.TrimSuffix(strings.TrimPrefix(reply, ":"), "\r\n"))
					if err != nil {
						bad.CompareAndSwap(nil, fmt.Sprintf("publisher %d: PUBLISH reply %q is not an integer", p, reply))
						return
					}
					if int64(cnt) < minCount.Load() {
						minCount.Store(int64(cnt))
					}
				}
			}(p)
		}
		pwg.Wait()
		close(stop)
		wg.Wait()
		time.Sleep(20 * time.Millisecond)
		rep.Ops = npub * nmsg
		if b := bad.Load(); b != nil {
			rep.Result, rep.Detail = "invariant", b.(string)
		} else if minCount.Load() < nsub {
			rep.Result, rep.Detail = "invariant", fmt.Sprintf("a PUBLISH reported %d receivers while %d connections were subscribed throughout", minCount.Load(), nsub)
		} else {
			rep.Result = "ok"
			for si, s := range subs {
				pushes, perr := parsePushes(s.take())
				if perr != "" {
					rep.Result, rep.Detail = "invariant", fmt.Sprintf("subscriber %d: the push stream is not well-formed RESP: %s (after %d good pushes)", si, perr, len(pushes))
					break
				}
				seen := map[string]int{}
				last := map[int]int{}
				for _, ps := range pushes {
					f := strings.SplitN(ps[1], ":", 4)
					if len(f) != 4 || (ps[0] != "news" && ps[0] != "sport") {
						rep.Result, rep.Detail = "invariant", fmt.Sprintf("subscriber %d: unexpected push on %q: %.40q", si, ps[0], ps[1])
						break
					}
					p, _ := strconv.Atoi(f[0])
					i, _ := strconv.Atoi(f[1])
					n, _ := strconv.Atoi(f[2])
					if len(f[3]) != n {
						rep.Result, rep.Detail = "invariant", fmt.Sprintf("subscriber %d: message %d:%d arrived with %d payload bytes instead of %d (not intact)", si, p, i, len(f[3]), n)
						break
					}
					seen[f[0]+":"+f[1]]++
					if prev, ok := last[p]; ok && i <= prev {
						rep.Result, rep.Detail = "invariant", fmt.Sprintf("subscriber %d: publisher %d's message %d arrived after its message %d (order)", si, p, i, prev)
						break
					}
					last[p] = i
				}
				if rep.Result != "ok" {
					break
				}
				for p := 0; p < npub; p++ {
					for i := 0; i < nmsg; i++ {
						if c := seen[fmt.Sprintf("%d:%d", p, i)]; c != 1 {
							rep.Result, rep.Detail = "invariant", fmt.Sprintf("subscriber %d received message %d:%d %d times (exactly once expected)", si, p, i, c)
						}
					}
				}
				if rep.Result != "ok" {
					break
				}
			}
		}
		cancel()
		for _, s := range subs {
			s.c.Close()
		}
		psFinish(&rep, r == 0)
		enc.Encode(rep)
	}
}

// psFinish closes the lock-trace recording of a pubsub scenario round: a trace that is not a run of the model's operation automaton
// overrides an "ok" (result "locktrace"); with control set the negative control of the checker is run too.
// the stress loops on the table feed the automaton during their first psTraceRounds rounds
const psTraceRounds = 1000

func psFinish(rep *concReport, control bool) {
	n, why := psEnd()
	rep.TraceEvents = n
	if tr := psTraces(); len(tr) > 0 {
		rep.Traces = tr
	}
	if rep.Result == "stuck" {
		return // wedged goroutines hold locks: the trace cannot be quiescent, the watchdog's report stands
	}
	if why != "" && rep.Result == "ok" {
		rep.Result, rep.Detail = "locktrace", "hook H2b lock/access trace is not a run of the model's operation automaton (PSC, Conc/PubSubConc.lean): "+why
	}
	if control {
		if c := psNegativeControl(); c != "" && rep.Result == "ok" {
			rep.Result, rep.Detail = "locktrace", c
		}
	}
	if n == 0 && rep.Result == "ok" {
		rep.Result, rep.Detail = "locktrace", "no hook H2b event was recorded: the verifChanEvent calls in memdb/pubsub_struct.go are gone or the build tag is off"
	}
}

// handover scenario (C19, concurrent): a channel whose LAST subscriber leaves at the very moment another connection subscribes to it.
// Whatever the interleaving, a SUBSCRIBE that has been acknowledged is a subscription: the next PUBLISH on that channel counts the new
// subscriber and reaches it.  (A subscriber that joined a channel object the table has just dropped would be acknowledged and never
// hear anything.)
func pubsubHandover(seed int64, rounds int, want map[string]bool, enc *json.Encoder) {
	if !want["all"] && !want["pubsub"] {
		return
	}
	for r := 0; r < rounds; r++ {
		rep := concReport{Scenario: "pubsub-handover", Seed: seed + int64(r), Goroutines: 3, Shards: 1024}
		config.Configures.ShardNum = 1024
		mgr := server.NewManager(config.Configures)
		psBegin(mgr.CurrentDB, false)
		ctx, cancel := context.WithCancel(context.Background())
		pub := newSconn(ctx, mgr)
		rng := rand.New(rand.NewSource(seed + int64(r)))
		const handovers = 400
		rep.Result = "ok"
		for h := 0; h < handovers && rep.Result == "ok"; h++ {
			ch := fmt.Sprintf("flap-%d", h)
			a := newSconn(ctx, mgr)
			a.c.Write(encCmd("SUBSCRIBE", ch))
			if st := a.waitFor([]byte(":1\r\n"), 2*time.Second); st != "open" {
				rep.Result, rep.Detail = "invariant", fmt.Sprintf("handover %d: first subscriber got no acknowledgement (%s)", h, st)
				break
			}
			b := newSconn(ctx, mgr)
			var wg sync.WaitGroup
			wg.Add(2)
			// the server notices the close a little later (its read returns, its cleanup runs): spread the join over that stretch
			delay := time.Duration(rng.Intn(400)) * time.Microsecond
			go func() { defer wg.Done(); a.c.Close() }()
			go func() {
				defer wg.Done()
				if delay > 0 {
					t0 := time.Now()
					for time.Since(t0) < delay {
						runtime.Gosched()
					}
				}
				b.c.Write(encCmd("SUBSCRIBE", ch))
			}()
			wg.Wait()
			if st := b.waitFor([]byte(":1\r\n"), 2*time.Second); st != "open" {
				rep.Result, rep.Detail = "invariant", fmt.Sprintf("handover %d: second subscriber got no acknowledgement (%s)", h, st)
				break
			}
			b.take()
			// let the leaver's cleanup finish (it runs on the server side after the close is noticed), then publish
			for try := 0; try < 3; try++ {
				time.Sleep(time.Duration(200*(try+1)) * time.Microsecond)
			}
			pub.c.SetWriteDeadline(time.Now().Add(2 * time.Second))
			pub.c.Write(encCmd("PUBLISH", ch, "hello"))
			if st := pub.waitFor([]byte("\r\n"), 2*time.Second); st != "open" {
				rep.Result, rep.Detail = "invariant", fmt.Sprintf("handover %d: PUBLISH got no reply (%s)", h, st)
				break
			}
			reply := string(pub.take())
			cnt, _ := strconv.Atoi(strings.TrimSuffix(strings.TrimPrefix(reply, ":"), "\r\n"))
			got := b.waitFor([]byte("hello\r\n"), 500*time.Millisecond)
			if cnt < 1 || got != "open" {
				rep.Result = "invariant"
				rep.Detail = fmt.Sprintf("handover %d on %s: SUBSCRIBE was acknowledged, then PUBLISH reported %d receivers and the subscriber %s the message "+
					"(the previous last subscriber of the channel left while this one joined)", h, ch, cnt, map[bool]string{true: "received", false: "never received"}[got == "open"])
			}
			b.c.Close()
			rep.Ops += 4
		}
		cancel()
		pub.c.Close()
		// the same handover directly on the subscription table (memdb.ChanMap: what SUBSCRIBE, a leaving connection and PUBLISH call), where
		// the join and the leave really run at the same instant: 30000 rounds
		if rep.Result == "ok" {
			tab := mgr.CurrentDB.SubChans
			lost, first := 0, -1
			const apiRounds = 30000
			for i := 0; i < apiRounds; i++ {
				if i == psTraceRounds {
					psPause() // between rounds nothing is in flight
				}
				ca, sa := net.Pipe()
				cb, sb := net.Pipe()
				var gotB atomic.Bool
				go func() { io.Copy(io.Discard, ca) }()
				go func() {
					buf := make([]byte, 64)
					if n, _ := cb.Read(buf); n > 0 {
						gotB.Store(true)
					}
					io.Copy(io.Discard, cb)
				}()
				idA := psSubscribe(tab, "api-flap", sa)
				var wg sync.WaitGroup
				var idB string
				wg.Add(2)
				go func() { defer wg.Done(); idB = psSubscribe(tab, "api-flap", sb) }()
				go func() { defer wg.Done(); psUnSubscribe(tab, "api-flap", idA) }()
				wg.Wait()
				n := psSend(tab, "api-flap", "x")
				if n == 1 {
					for w := 0; w < 200 && !gotB.Load(); w++ {
						time.Sleep(50 * time.Microsecond)
					}
				}
				if n != 1 || !gotB.Load() {
					lost++
					if first < 0 {
						first = i
					}
				}
				psUnSubscribe(tab, "api-flap", idB)
				sa.Close()
				sb.Close()
				ca.Close()
				cb.Close()
			}
			rep.Ops += apiRounds
			if lost > 0 {
				rep.Result = "invariant"
				rep.Detail = fmt.Sprintf("subscription table: in %d of %d handovers (first: round %d) a connection whose Subscribe had returned was not "+
					"counted / not reached by the next Send (it joined while the previous last subscriber of the channel left)", lost, apiRounds, first)
			}
		}
		psFinish(&rep, false)
		enc.Encode(rep)
	}
}

// prune scenario (C19, concurrent): a channel whose only subscriber has DISCONNECTED without the table knowing yet (its connection is dead;
// the next Send notices and prunes it) is published to at the very moment another connection subscribes to it.  Whatever the server does
// with a channel that turns out to have no live subscriber, publishers and subscribers must not block one another for ever, and a
// SUBSCRIBE that returned is a subscription the next PUBLISH counts and reaches.  Runs directly on the executor (PUBLISH) and the
// subscription table (what SUBSCRIBE calls), 8 worker pairs on their own channels, so that the two calls really overlap.
// Added after the seeded change C19-release-empty-channel-lock-order (PUBLISH with 0 receivers dropped the channel, taking the channel
// lock and then the table lock - the reverse of Subscribe's order: a deadlock that freezes every later PUBLISH and SUBSCRIBE).
func pubsubPrune(seed int64, rounds int, want map[string]bool, enc *json.Encoder) {
	if !want["all"] && !want["pubsub"] {
		return
	}
	for r := 0; r < rounds; r++ {
		rep := concReport{Scenario: "pubsub-prune", Seed: seed + int64(r), Goroutines: 16, Shards: 1024}
		config.Configures.ShardNum = 1024
		mgr := server.NewManager(config.Configures)
		psBegin(mgr.CurrentDB, false)
		tab := mgr.CurrentDB.SubChans
		const workers, perWorker = 8, 2500
		var bad atomic.Value
		var ops atomic.Int64
		var wg sync.WaitGroup
		// the first tracedPer iterations of every worker run with the lock-trace automaton on; the workers then meet at a barrier
		// (nothing in flight), tracing is paused, and the stress continues
		const tracedPer = 100
		var barrier sync.WaitGroup
		barrier.Add(workers)
		paused := make(chan struct{})
		go func() { barrier.Wait(); psPause(); close(paused) }()
		for w := 0; w < workers; w++ {
			wg.Add(1)
			go func(w int) {
				defer wg.Done()
				ch := fmt.Sprintf("prune-%d", w)
				atBarrier := false
				defer func() {
					if !atBarrier {
						barrier.Done()
					}
				}()
				for i := 0; i < perWorker && bad.Load() == nil; i++ {
					if i == tracedPer {
						atBarrier = true
						barrier.Done()
						select {
						case <-paused:
						case <-time.After(30 * time.Second): // another worker is wedged: the watchdog below reports it
						}
					}
					// a subscriber that is already gone
					ca, sa := net.Pipe()
					psSubscribe(tab, ch, sa)
					ca.Close()
					sa.Close()
					cb, sb := net.Pipe()
					var gotB atomic.Bool
					go func() {
						buf := make([]byte, 64)
						if n, _ := cb.Read(buf); n > 0 {
							gotB.Store(true)
						}
						io.Copy(io.Discard, cb)
					}()
					var inner sync.WaitGroup
					var idB, pubOut string
					inner.Add(2)
					go func() { defer inner.Done(); pubOut, _ = runCmd(mgr, "PUBLISH", ch, "x") }()
					go func() { defer inner.Done(); idB = psSubscribe(tab, ch, sb) }()
					inner.Wait()
					_ = pubOut
					out, _ := runCmd(mgr, "PUBLISH", ch, "y")
					if out == ":1\r\n" {
						for k := 0; k < 400 && !gotB.Load(); k++ {
							time.Sleep(50 * time.Microsecond)
						}
					}
					if out != ":1\r\n" || !gotB.Load() {
						bad.CompareAndSwap(nil, fmt.Sprintf("round %d on %s: a Subscribe that had returned was answered %q by the next PUBLISH and the subscriber %s it "+
							"(the channel's previous subscriber was dead and a PUBLISH pruned it while this one joined)", i, ch, out, map[bool]string{true: "received", false: "never received"}[gotB.Load()]))
					}
					psUnSubscribe(tab, ch, idB)
					sb.Close()
					cb.Close()
					ops.Add(3)
				}
			}(w)
		}
		done := make(chan struct{})
		go func() { wg.Wait(); close(done) }()
		select {
		case <-done:
			rep.Result = "ok"
			if b := bad.Load(); b != nil {
				rep.Result, rep.Detail = "invariant", b.(string)
			}
		case <-time.After(25 * time.Second):
			buf := make([]byte, 1<<15)
			n := runtime.Stack(buf, true)
			rep.Result = "stuck"
			rep.Detail = fmt.Sprintf("after %d operations PUBLISH and SUBSCRIBE on channels whose only subscriber was dead block one another for ever (no progress for 25 s)\n%s", ops.Load(), buf[:n])
		}
		rep.Ops = int(ops.Load())
		psFinish(&rep, false)
		enc.Encode(rep)
		if rep.Result == "stuck" {
			return
		}
	}
}

// paths scenario (C19, lock-trace tie): every code path of Subscribe / UnSubscribe / Send / PUBLISH once, sequentially, with the
// lock-trace automaton on: create + join, re-subscribe (scan only), join an existing channel, PUBLISH with receivers, PUBLISH to an
// absent channel, PUBLISH that prunes a dead connection, PUBLISH that prunes the last one (0 receivers, channel still in the table),
// UnSubscribe leaving others, UnSubscribe of an absent channel, the last UnSubscribe (drops the channel).  Deterministic: a lock that
// is moved, dropped, taken in another mode or another order, or a new access path to the table or a conns map (for instance a
// Release(key) called by PUBLISH) changes the event sequence of one of these paths on EVERY run.  All automaton states must be visited.
func pubsubPaths(seed int64, want map[string]bool, enc *json.Encoder) {
	if !want["all"] && !want["pubsub"] {
		return
	}
	rep := concReport{Scenario: "pubsub-paths", Seed: seed, Goroutines: 1, Shards: 1024}
	config.Configures.ShardNum = 1024
	mgr := server.NewManager(config.Configures)
	psBegin(mgr.CurrentDB, true)
	tab := mgr.CurrentDB.SubChans
	ca, sa := net.Pipe()
	cb, sb := net.Pipe()
	go func() { io.Copy(io.Discard, ca) }()
	go func() { io.Copy(io.Discard, cb) }()
	var got []string
	idA := psSubscribe(tab, "paths", sa)
	idA2 := psSubscribe(tab, "paths", sa)
	idB := psSubscribe(tab, "paths", sb)
	o, _ := runCmd(mgr, "PUBLISH", "paths", "x")
	got = append(got, o)
	o, _ = runCmd(mgr, "PUBLISH", "paths-absent", "x")
	got = append(got, o)
	cb.Close()
	sb.Close()
	o, _ = runCmd(mgr, "PUBLISH", "paths", "y")
	got = append(got, o)
	psUnSubscribe(tab, "paths", idB)
	psUnSubscribe(tab, "paths-absent", "no-such-id")
	ca.Close()
	sa.Close()
	o, _ = runCmd(mgr, "PUBLISH", "paths", "z")
	got = append(got, o)
	psUnSubscribe(tab, "paths", idA)
	o, _ = runCmd(mgr, "PUBLISH", "paths", "w")
	got = append(got, o)
	rep.Ops = 13
	wantOut := []string{":2\r\n", ":0\r\n", ":1\r\n", ":0\r\n", ":0\r\n"}
	rep.Result = "ok"
	if idA2 != idA {
		rep.Result, rep.Detail = "invariant", "subscribing again on the same connection returned another subscription id"
	}
	for i := range wantOut {
		if got[i] != wantOut[i] && rep.Result == "ok" {
			rep.Result, rep.Detail = "invariant", fmt.Sprintf("PUBLISH #%d of the path scenario replied %q, expected %q (2 subscribers; absent channel; one dead subscriber pruned; last one pruned; channel dropped)", i, got[i], wantOut[i])
		}
	}
	psFinish(&rep, true)
	if un := psUnvisited(); len(un) > 0 && rep.Result == "ok" {
		rep.Result, rep.Detail = "locktrace", fmt.Sprintf("the path scenario never reached the automaton state(s) %q: a hook H2b call or a code path of the model is gone", un)
	}
	enc.Encode(rep)
}
