module verifharness

go 1.19

require github.com/innovationb1ue/RedisGO v0.0.0

replace (
	github.com/innovationb1ue/RedisGO => /repo
	go.etcd.io/etcd/api/v3 => /repo/etcd/api
	go.etcd.io/etcd/client/pkg/v3 => /repo/etcd/client/pkg
	go.etcd.io/etcd/client/v2 => /repo/etcd/client/v2
	go.etcd.io/etcd/client/v3 => /repo/etcd/client/v3
	go.etcd.io/etcd/etcdctl/v3 => /repo/etcd/etcdctl
	go.etcd.io/etcd/etcdutl/v3 => /repo/etcd/etcdutl
	go.etcd.io/etcd/pkg/v3 => /repo/etcd/pkg
	go.etcd.io/etcd/raft/v3 => /repo/etcd/raft
	go.etcd.io/etcd/server/v3 => /repo/etcd/server
	go.etcd.io/etcd/tests/v3 => /repo/etcd/tests
)
