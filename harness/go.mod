module verifharness

go 1.19

require (
	github.com/anishathalye/porcupine v1.3.0
	github.com/innovationb1ue/RedisGO v0.0.0
	github.com/prometheus/client_golang v1.12.2
	go.etcd.io/etcd/client/pkg/v3 v3.6.0-alpha.0
	go.etcd.io/etcd/pkg/v3 v3.6.0-alpha.0
	go.etcd.io/etcd/raft/v3 v3.6.0-alpha.0
	go.etcd.io/etcd/server/v3 v3.0.0-00010101000000-000000000000
	go.uber.org/zap v1.21.0
)

require (
	github.com/beorn7/perks v1.0.1 // indirect
	github.com/cespare/xxhash/v2 v2.1.2 // indirect
	github.com/coreos/go-semver v0.3.0 // indirect
	github.com/dustin/go-humanize v1.0.0 // indirect
	github.com/gogo/protobuf v1.3.2 // indirect
	github.com/golang/protobuf v1.5.2 // indirect
	github.com/google/uuid v1.3.0 // indirect
	github.com/matttproud/golang_protobuf_extensions v1.0.1 // indirect
	github.com/prometheus/client_model v0.2.0 // indirect
	github.com/prometheus/common v0.32.1 // indirect
	github.com/prometheus/procfs v0.7.3 // indirect
	github.com/xiang90/probing v0.0.0-20190116061207-43a291ad63a2 // indirect
	go.etcd.io/etcd/api/v3 v3.6.0-alpha.0 // indirect
	go.uber.org/atomic v1.7.0 // indirect
	go.uber.org/multierr v1.8.0 // indirect
	golang.org/x/net v0.0.0-20220919171627-f8f703f97925 // indirect
	golang.org/x/sys v0.0.0-20220728004956-3c1f35247d10 // indirect
	golang.org/x/text v0.3.7 // indirect
	golang.org/x/time v0.0.0-20220609170525-579cf78fd858 // indirect
	google.golang.org/genproto v0.0.0-20220329172620-7be39ac1afc7 // indirect
	google.golang.org/grpc v1.47.0 // indirect
	google.golang.org/protobuf v1.28.0 // indirect
)

replace (
	github.com/innovationb1ue/RedisGO => /repo
	go.etcd.io/etcd/api/v3 => /repo/etcd/api
	go.etcd.io/etcd/client/pkg/v3 => /repo/etcd/client/pkg
	go.etcd.io/etcd/client/v2 => /repo/etcd/client/v2
	go.etcd.io/etcd/client/v3 => /repo/etcd/client/v3
	go.etcd.io/etcd/etcdctl/v3 => /repo/etcd/etcdctl
	go.etcd.io/etcd/etcdutl/v3 => /repo/etcd/etcdutl
	go.etcd.io/etcd/pkg/v3 => /repo/etcd/pkg
	go.etcd.io/etcd/raft/v3 => /repo/etcd/raft
	go.etcd.io/etcd/server/v3 => /repo/etcd/server
	go.etcd.io/etcd/tests/v3 => /repo/etcd/tests
)
