package main

import (
	"bufio"
	"context"
	"encoding/json"
	"fmt"
	"os"
	"strings"

	"github.com/innovationb1ue/RedisGO/config"
	"github.com/innovationb1ue/RedisGO/raftexample"
	"github.com/innovationb1ue/RedisGO/server"
)

// codec engine (C14): the bytes a cluster node appends to the replicated log for a command, and what a replica reads back.
//   CW <arg>...             the real server.VerifClusterRoundTrip (filter, newClusterProposal, ToBytes, json.Unmarshal, apply) on a
//                           throw-away Manager; the proposal id is "verif"
//                           => FILTERED | <wire hex> <decoded Args>
//   CP <data> <id> <arg>... json.Marshal of raftexample.RaftProposal{Data, Args, ID} with arbitrary field contents (ToBytes), then the
//                           json.Unmarshal publishEntries does
//                           => <wire hex> <decoded Args> <decoded Data hex> <decoded ID hex>
// arguments are hex, "-" the empty (non-nil) byte string, "~" a nil []byte; "[]" as the only argument of CP = an empty non-nil
// vector, no argument = a nil vector.  Decoded Args: comma separated hex ("-" empty, "~" nil), NOARGS when Args == nil, EMPTY when
// it is an empty non-nil slice.

func codecArgs(toks []string) [][]byte {
	if len(toks) == 1 && toks[0] == "[]" {
		return [][]byte{}
	}
	if len(toks) == 0 {
		return nil
	}
	argv := make([][]byte, 0, len(toks))
	for _, t := range toks {
		if t == "~" {
			argv = append(argv, nil)
		} else {
			argv = append(argv, unhex(t))
		}
	}
	return argv
}

func codecShowArgs(a [][]byte) string {
	if a == nil {
		return "NOARGS"
	}
	if len(a) == 0 {
		return "EMPTY"
	}
	parts := make([]string, 0, len(a))
	for _, e := range a {
		if e == nil {
			parts = append(parts, "~")
		} else {
			parts = append(parts, hx(e))
		}
	}
	return strings.Join(parts, ",")
}

var codecMgr *server.Manager

// An encoded proposal is kept by raft (Entry.Data is the very slice ToBytes returned) until the entry is committed and applied, while
// later proposals are being encoded.  The engine therefore holds the bytes of each line back for `codecDelay` further lines and only
// then copies, reports and decodes them: an encoder that reuses its buffer shows up as a wrong wire/decoded field of the EARLIER line.
const codecDelay = 4

type codecPending struct {
	line string
	kind string
	wire []byte // the slice as returned by the real encoder: never copied before it is reported
	res  string // final outcome when there is nothing to hold back (FILTERED, PANIC, BAD-LINE)
}

func codecEncode(line string, f []string) (pd codecPending) {
	pd = codecPending{line: line, kind: f[0]}
	defer func() {
		if e := recover(); e != nil {
			pd.res = "PANIC"
			if os.Getenv("VERIF_SHOWPANIC") != "" {
				fmt.Fprintln(os.Stderr, "panic:", e)
			}
		}
	}()
	switch f[0] {
	case "CW":
		argv := codecArgs(f[1:])
		if argv == nil {
			argv = [][]byte{}
		}
		if codecMgr == nil {
			codecMgr = server.NewManager(config.Configures)
		}
		_, wire, filtered := server.VerifClusterRoundTrip(context.Background(), codecMgr, argv)
		if filtered {
			pd.res = "FILTERED"
			return
		}
		pd.wire = wire
	case "CP":
		p0 := &raftexample.RaftProposal{Data: string(unhex(f[1])), ID: string(unhex(f[2])), Args: codecArgs(f[3:])}
		pd.wire = p0.ToBytes()
	default:
		pd.res = "BAD-LINE"
	}
	return
}

func codecFinish(pd codecPending) (res string) {
	if pd.res != "" {
		return pd.res
	}
	defer func() {
		if e := recover(); e != nil {
			res = "PANIC"
		}
	}()
	var p raftexample.RaftProposal
	if err := json.Unmarshal(pd.wire, &p); err != nil {
		return "UNMARSHAL-ERROR " + hx(pd.wire)
	}
	if pd.kind == "CW" {
		return hx(pd.wire) + " " + codecShowArgs(p.Args)
	}
	return hx(pd.wire) + " " + codecShowArgs(p.Args) + " " + hx([]byte(p.Data)) + " " + hx([]byte(p.ID))
}

func runCodec(args []string) {
	if len(args) >= 3 && args[0] == "conc" {
		runCodecConc(args[1:])
		return
	}
	in := bufio.NewScanner(os.Stdin)
	in.Buffer(make([]byte, 1<<20), 1<<26)
	out := bufio.NewWriter(os.Stdout)
	defer out.Flush()
	config.Configures.Databases = 1
	var queue []codecPending
	emit := func(pd codecPending) {
		fmt.Fprintf(out, "%s => %s\n", pd.line, codecFinish(pd))
		out.Flush()
	}
	for in.Scan() {
		line := in.Text()
		f := strings.Fields(line)
		if len(f) == 0 {
			continue
		}
		queue = append(queue, codecEncode(line, f))
		if len(queue) > codecDelay {
			emit(queue[0])
			queue = queue[1:]
		}
	}
	for _, pd := range queue {
		emit(pd)
	}
}
