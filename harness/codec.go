package main

import (
	"bufio"
	"context"
	"encoding/json"
	"fmt"
	"os"
	"strings"

	"github.com/innovationb1ue/RedisGO/config"
	"github.com/innovationb1ue/RedisGO/raftexample"
	"github.com/innovationb1ue/RedisGO/server"
)

// codec engine (C14): the bytes a cluster node appends to the replicated log for a command, and what a replica reads back.
//   CW <arg>...             the real server.VerifClusterRoundTrip (filter, newClusterProposal, ToBytes, json.Unmarshal, apply) on a
//                           throw-away Manager; the proposal id is "verif"
//                           => FILTERED | <wire hex> <decoded Args>
//   CP <data> <id> <arg>... json.Marshal of raftexample.RaftProposal{Data, Args, ID} with arbitrary field contents (ToBytes), then the
//                           json.Unmarshal publishEntries does
//                           => <wire hex> <decoded Args> <decoded Data hex> <decoded ID hex>
// arguments are hex, "-" the empty (non-nil) byte string, "~" a nil []byte; "[]" as the only argument of CP = an empty non-nil
// vector, no argument = a nil vector.  Decoded Args: comma separated hex ("-" empty, "~" nil), NOARGS when Args == nil, EMPTY when
// it is an empty non-nil slice.

func codecArgs(toks []string) [][]byte {
	if len(toks) == 1 && toks[0] == "[]" {
		return [][]byte{}
	}
	if len(toks) == 0 {
		return nil
	}
	argv := make([][]byte, 0, len(toks))
	for _, t := range toks {
		if t == "~" {
			argv = append(argv, nil)
		} else {
			argv = append(argv, unhex(t))
		}
	}
	return argv
}

func codecShowArgs(a [][]byte) string {
	if a == nil {
		return "NOARGS"
	}
	if len(a) == 0 {
		return "EMPTY"
	}
	parts := make([]string, 0, len(a))
	for _, e := range a {
		if e == nil {
			parts = append(parts, "~")
		} else {
			parts = append(parts, hx(e))
		}
	}
	return strings.Join(parts, ",")
}

var codecMgr *server.Manager

func codecOne(f []string) (res string) {
	defer func() {
		if e := recover(); e != nil {
			res = "PANIC"
			if os.Getenv("VERIF_SHOWPANIC") != "" {
				fmt.Fprintln(os.Stderr, "panic:", e)
			}
		}
	}()
	switch f[0] {
	case "CW":
		argv := codecArgs(f[1:])
		if argv == nil {
			argv = [][]byte{}
		}
		if codecMgr == nil {
			codecMgr = server.NewManager(config.Configures)
		}
		_, wire, filtered := server.VerifClusterRoundTrip(context.Background(), codecMgr, argv)
		if filtered {
			return "FILTERED"
		}
		var p raftexample.RaftProposal
		if err := json.Unmarshal(wire, &p); err != nil {
			return "UNMARSHAL-ERROR"
		}
		return hx(wire) + " " + codecShowArgs(p.Args)
	case "CP":
		p0 := &raftexample.RaftProposal{Data: string(unhex(f[1])), ID: string(unhex(f[2])), Args: codecArgs(f[3:])}
		wire := p0.ToBytes()
		var p raftexample.RaftProposal
		if err := json.Unmarshal(wire, &p); err != nil {
			return "UNMARSHAL-ERROR"
		}
		return hx(wire) + " " + codecShowArgs(p.Args) + " " + hx([]byte(p.Data)) + " " + hx([]byte(p.ID))
	}
	return "BAD-LINE"
}

func runCodec(args []string) {
	in := bufio.NewScanner(os.Stdin)
	in.Buffer(make([]byte, 1<<20), 1<<26)
	out := bufio.NewWriter(os.Stdout)
	defer out.Flush()
	config.Configures.Databases = 1
	for in.Scan() {
		line := in.Text()
		f := strings.Fields(line)
		if len(f) == 0 {
			continue
		}
		fmt.Fprintf(out, "%s => %s\n", line, codecOne(f))
		out.Flush()
	}
}
