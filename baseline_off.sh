#!/bin/sh
# runs the repository's pinned baseline with the verif guard OFF (no -tags verif); command taken from /root/.vp/BASELINE.json

if [ -f /w/out/gomods.txt ]; then
  for m in $(cat /w/out/gomods.txt); do MF=$(cd /repo/$m && . /w/out/goenv.sh && gomodflag); (cd /repo/$m && go test $MF -json -vet=off -count=1 -timeout 25m ./...); done
else
  for m in . etcd/api etcd/client/pkg etcd/client/v2 etcd/client/v3 etcd/pkg etcd/raft etcd/server; do
    [ -f /repo/$m/go.mod ] && (cd /repo/$m && GOFLAGS=-mod=mod GOPROXY=off go test -json -vet=off -count=1 -timeout 25m ./...)
  done
fi
