"""Shared machinery for /verif/check: builds (Lean, Go harness), axiom audit, driver runs, evidence,
replays, known findings.  Python 3 standard library only."""
import hashlib
import json
import os
import re
import shutil
import subprocess
import sys
import tempfile
import time

VERIF = os.path.dirname(os.path.dirname(os.path.abspath(__file__)))
REPO = os.environ.get("VERIF_REPO", "/repo")
LEAN = os.path.join(VERIF, "lean")
HARNESS = os.path.join(VERIF, "harness")
DRIVER = os.path.join(LEAN, ".lake", "build", "bin", "driver")
# evidence and replays of runs against a scratch worktree (VERIF_REPO) never overwrite the real ones
_ALT = REPO != "/repo"
EVIDENCE = os.path.join(VERIF, "evidence") if not _ALT else os.path.join(tempfile.gettempdir(), "verif-alt-evidence")
REPLAYS = os.path.join(VERIF, "replays") if not _ALT else os.path.join(tempfile.gettempdir(), "verif-alt-replays")
KNOWN = os.path.join(VERIF, "known_findings.txt")
ALLOWED_AXIOMS = {"propext", "Classical.choice", "Quot.sound"}
BANNED = re.compile(r"\b(sorry|admit|native_decide|bv_decide|implemented_by)\b|^\s*axiom\s|\bunsafe\s|maxHeartbeats\s+0")


def goenv():
    e = dict(os.environ)
    e.update(GOFLAGS="-mod=mod", GOPROXY="off", GOSUMDB="off", GOTOOLCHAIN="local", CGO_ENABLED="0")
    return e


def run(cmd, cwd=None, env=None, inp=None, timeout=None):
    t0 = time.time()
    try:
        p = subprocess.run(cmd, cwd=cwd, env=env, input=inp, stdout=subprocess.PIPE, stderr=subprocess.PIPE,
                           timeout=timeout, shell=isinstance(cmd, str))
    except subprocess.TimeoutExpired as e:
        # a sub-process that outlives its (generous) limit: reported like a failing command (rc 124) with what it had written, never as a Python traceback
        so = (e.stdout or b"").decode("utf-8", "replace") if isinstance(e.stdout, (bytes, type(None))) else str(e.stdout)
        se = (e.stderr or b"").decode("utf-8", "replace") if isinstance(e.stderr, (bytes, type(None))) else str(e.stderr)
        return 124, so, se + "\n[timed out after %s s: %s]" % (timeout, cmd if isinstance(cmd, str) else " ".join(map(str, cmd[:3]))), time.time() - t0
    return p.returncode, p.stdout.decode("utf-8", "replace"), p.stderr.decode("utf-8", "replace"), time.time() - t0


class Workdir:
    """scratch directory outside /repo and /verif, removed on exit"""

    def __enter__(self):
        base = os.environ.get("VERIF_TMP") or tempfile.gettempdir()
        self.path = tempfile.mkdtemp(prefix="verif-", dir=base)
        return self.path

    def __exit__(self, *a):
        shutil.rmtree(self.path, ignore_errors=True)


# ---------------------------------------------------------------------------------------- builds

API_DRIFT = None    # compile error of the harness when it only builds with the tag noapi (see build_harness)


def build_harness(tags="verif", race=False):
    """rebuild the Go harness against /repo's current working tree; returns (binary, error-or-None)"""
    os.makedirs(os.path.join(HARNESS, "bin"), exist_ok=True)
    shutil.copyfile(os.path.join(REPO, "go.sum"), os.path.join(HARNESS, "go.sum"))
    out = os.path.join(HARNESS, "bin", "harness-race" if race else "harness")
    cmd = ["go", "build", "-tags", tags, "-o", out]
    if REPO != "/repo":
        # a scratch worktree of the repository (VERIF_REPO): same harness, module paths redirected
        alt = os.path.join(HARNESS, "bin", "alt.mod")
        open(alt, "w").write(open(os.path.join(HARNESS, "go.mod")).read().replace("=> /repo", "=> " + REPO))
        shutil.copyfile(os.path.join(REPO, "go.sum"), os.path.join(HARNESS, "bin", "alt.sum"))
        cmd += ["-modfile", alt]
    env = goenv()
    if race:
        cmd.insert(2, "-race")
        env["CGO_ENABLED"] = "1"
    cmd.append(".")
    rc, so, se, dt = run(cmd, cwd=HARNESS, env=env)
    if rc != 0 and "noapi" not in tags:
        # the harness no longer compiles against the tree.  If only the signatures of the few methods it calls directly changed
        # (harness/psapi.go), the same harness builds with those calls made through reflection (tag noapi): the broken tie is remembered
        # (API_DRIFT; `check` reports it, with no-failing-input-found unless an engine finds an input) and the search goes on.
        first = (so + se)[-4000:]
        cmd2 = [("verif noapi" if c == tags else c) for c in cmd]
        rc2, so2, se2, _ = run(cmd2, cwd=HARNESS, env=env)
        if rc2 == 0:
            global API_DRIFT
            API_DRIFT = first
            return out, None
        return None, first
    if rc != 0:
        return None, (so + se)[-4000:]
    return out, None


def lake_build(targets=None):
    """incremental lake build; returns (ok, log, seconds, failed_modules)"""
    cmd = ["lake", "build"] + (targets or ["RedisGoModel", "driver"])
    rc, so, se, dt = run(cmd, cwd=LEAN)
    log = so + se
    failed = sorted(set(re.findall(r"^error: (RedisGoModel/[\w/]+\.lean)", log, re.M)) |
                    set(re.findall(r"✖ \[\d+/\d+\] Building ([\w.]+)", log)))
    return rc == 0, log, dt, failed


def strip_comments(src):
    # remove /- ... -/ (nested not handled beyond one level; doc strings included) and -- line comments
    out, i, depth = [], 0, 0
    while i < len(src):
        if src.startswith("/-", i):
            depth += 1
            i += 2
        elif src.startswith("-/", i) and depth > 0:
            depth -= 1
            i += 2
        elif depth > 0:
            i += 1
        elif src.startswith("--", i):
            j = src.find("\n", i)
            i = len(src) if j < 0 else j
        else:
            out.append(src[i])
            i += 1
    return "".join(out)


def grep_banned(modules):
    hits = []
    for m in modules:
        path = os.path.join(LEAN, m.replace(".", "/") + ".lean")
        if not os.path.exists(path):
            hits.append((m, 0, "module source missing"))
            continue
        for n, line in enumerate(strip_comments(open(path).read()).split("\n"), 1):
            if BANNED.search(line):
                hits.append((m, n, line.strip()[:120]))
    return hits


def import_closure(roots):
    """module names reachable through `import` lines from the given modules / root files of the lean project (only the project's own modules)"""
    seen, todo = set(), list(roots)
    while todo:
        m = todo.pop()
        if m in seen:
            continue
        seen.add(m)
        path = os.path.join(LEAN, m) if m.endswith(".lean") else os.path.join(LEAN, m.replace(".", "/") + ".lean")
        try:
            src = open(path).read()
        except OSError:
            continue
        for mm in re.findall(r"^import\s+(RedisGoModel[\w.]*)", src, re.M):
            todo.append(mm)
    return {m for m in seen if not m.endswith(".lean")}


def audit(modules, theorems):
    """#print axioms for every registered theorem; returns {theorem: (ok, detail)} and seconds"""
    # a module that did not build has no object file: importing it would make EVERY theorem of the property "not checked"; leave it out, so
    # that only its own theorems are reported (as unknown constants) and the others are still audited
    unbuilt = [m for m in modules if not os.path.exists(os.path.join(LEAN, ".lake", "build", "lib", "lean", m.replace(".", "/") + ".olean"))]
    src = "".join("import %s\n" % m for m in modules if m not in unbuilt) + "".join("#print axioms %s\n" % t for t in theorems)
    path = os.path.join(LEAN, ".lake", "audit_%d.lean" % os.getpid())
    os.makedirs(os.path.dirname(path), exist_ok=True)
    open(path, "w").write(src)
    try:
        rc, so, se, dt = run(["lake", "env", "lean", path], cwd=LEAN)
    finally:
        os.unlink(path)
    text = so + se
    res = {}
    for t in theorems:
        short = re.escape(t)
        m = re.search(r"'%s' depends on axioms: \[([^\]]*)\]" % short, text)
        if m:
            ax = {a.strip() for a in m.group(1).replace("\n", " ").split(",") if a.strip()}
            extra = ax - ALLOWED_AXIOMS
            res[t] = (not extra, "axioms: " + ", ".join(sorted(ax)) if not extra else "FORBIDDEN axioms: " + ", ".join(sorted(extra)))
        elif re.search(r"'%s' does not depend on any axioms" % short, text):
            res[t] = (True, "axioms: none")
        else:
            err = [l for l in text.split("\n") if "error" in l][:3]
            res[t] = (False, "not checked: " + (" | ".join(e for e in err if t in e) or " | ".join(err))[:300] +
                      (" (module(s) that did not build: %s)" % ", ".join(unbuilt) if unbuilt else ""))
    return res, dt


def run_driver(lines, extra_args=None, timeout=3600):
    """pipe observation lines to the compiled Lean driver; returns dict(summary, mismatches, unknown, raw)"""
    data = ("\n".join(lines) + "\n").encode()
    rc, so, se, dt = run([DRIVER] + (extra_args or []), inp=data, timeout=timeout)
    mism, unk, summary, info = [], [], {}, []
    for l in so.split("\n"):
        if l.startswith("MISMATCH "):
            mism.append(l)
        elif l.startswith("UNKNOWN "):
            unk.append(l)
        elif l.startswith("SUMMARY "):
            summary = dict(kv.split("=", 1) for kv in l.split()[1:] if "=" in kv)
        elif l.startswith("INFO "):
            info.append(l[5:])
    if not summary:
        unk.append("driver produced no SUMMARY (rc=%d): %s" % (rc, (so + se)[-500:]))
    return dict(summary=summary, mismatches=mism, unknown=unk, info=info, seconds=dt, rc=rc)


_HEX = set("0123456789abcdef")


def _corrupt(line):
    """the same observation line with its observed part damaged (the longest hex field after `=>`, else the last field)"""
    f = line.split(" ")
    start = f.index("=>") + 1 if "=>" in f else max(1, len(f) - 1)
    best = None
    for i in range(start, len(f)):
        t = f[i]
        if len(t) >= 2 and set(t) <= _HEX and not (t.isdigit() and len(t) == 10):
            if best is None or len(t) > len(f[best]):
                best = i
    if best is None:
        best = len(f) - 1
        if best < start:
            return None
        f[best] = "X" + f[best]
    else:
        t = f[best]
        f[best] = t[:-2] + ("00" if t[-2:] != "00" else "ff")
    return " ".join(f)


def negative_control(R, obs, label, every=None, floor=0.5, skip=lambda l: False, group=False):
    """Is the judge awake?  A sample of the observation lines is handed to the driver again with the observed outcome damaged; the
    driver must object to (at least a fifth of) them.  Catches an engine that has gone blind — a line tag claimed by another engine,
    a comparison that stopped looking at a field — which would otherwise show up only as a quiet drop in `nontrivial`."""
    # stateful engines stop judging a program / session after its first disagreement: damage at most one line per group
    cands, taken, k = [], False, 0
    for i, l in enumerate(obs):
        if l == "R" or l.startswith(("S ", "WC ", "SN", "RZ new")):
            taken, k = False, 0
        if skip(l):
            continue
        k += 1
        if not group or (not taken and k % 3 == 0):
            cands.append(i)
            taken = True
    if not cands:
        cands = [i for i, l in enumerate(obs) if not skip(l)][:1]
    if not cands:
        return
    every = every or max(1, len(cands) // 150)
    chosen = set(cands[::every][:400])
    lines, n = [], 0
    for i, l in enumerate(obs):
        if i in chosen:
            c = _corrupt(l)
            if c is not None and c != l:
                lines.append(c)
                n += 1
                continue
        lines.append(l)
    d = run_driver(lines)
    hit = len(d["mismatches"]) + len(d["unknown"])
    ok = n == 0 or hit >= max(1, int(n * floor))
    R.oblige("negative control %s: the driver objects to damaged observations (%d of %d damaged lines reported)" % (label, hit, n),
             "control", ok, "driver reported %d of %d" % (hit, n))
    R.extra.setdefault("negative_control", {})[label] = dict(damaged=n, reported=hit)
    if not ok:
        R.violation("negative-control-" + label.replace("/", "-"), dict(
            kind="tie-broken", summary="the Lean driver accepted %d of %d deliberately damaged observation lines of engine %s: the correspondence "
                                       "check for this engine is not judging" % (n - hit, n, label), lines=lines[:50]), found_input=False)


def run_harness(binary, engine, lines, args=None, timeout=3600, env=None):
    """pipe input lines to the Go harness engine; returns (output lines, stderr, rc)"""
    data = ("\n".join(lines) + "\n").encode()
    e = goenv() if env is None else env
    e.setdefault("GOMEMLIMIT", "6GiB")
    rc, so, se, dt = run([binary, engine] + (args or []), inp=data, timeout=timeout, env=e)
    return [l for l in so.split("\n") if l], se, rc


def run_harness_resilient(binary, engine, lines, args=None, timeout=3600, crash_mark="P", env=None):
    """like run_harness, but a harness process that dies (a panic in a goroutine the harness cannot recover) is restarted
    after the line that killed it; that line is reported with the outcome `crash_mark`.  Engines used with this flush per line."""
    out, crashes, i, stderr_tail = [], 0, 0, ""
    while i < len(lines):
        got, se, rc = run_harness(binary, engine, lines[i:], args=args, timeout=timeout, env=dict(env) if env else None)
        out += got
        i += len(got)
        if rc == 124:
            # the engine outlived its limit (not a crash of one line): stop here, the caller sees fewer observations than inputs
            stderr_tail = se[-1500:]
            break
        if i < len(lines):
            # the process stopped before answering lines[i]
            out.append(lines[i] + " " + crash_mark)
            stderr_tail = se[-1500:]
            crashes += 1
            i += 1
            if crashes > 200:
                break
    return out, crashes, stderr_tail


# ---------------------------------------------------------------------------------------- hex

def hx(b):
    if isinstance(b, str):
        b = b.encode("latin-1")
    return b.hex() if b else "-"


def unhx(s):
    return b"" if s == "-" else bytes.fromhex(s)


# ---------------------------------------------------------------------------------------- known findings

def load_known():
    """lines: `known: property=Cxx sig=<signature> <what fails>` / `fixed: property=Cxx <commit> <what failed>`"""
    known = {}
    if os.path.exists(KNOWN):
        for l in open(KNOWN):
            l = l.strip()
            m = re.match(r"known: property=(C\d+) sig=(\S+) (.*)", l)
            if m:
                known.setdefault(m.group(1), {})[m.group(2)] = m.group(3)
    return known


# ---------------------------------------------------------------------------------------- results

class Result:
    """what one check run found; turned into evidence + exit status"""

    def __init__(self, prop, tier, seed):
        self.prop, self.tier, self.seed = prop, tier, seed
        self.t0 = time.time()
        self.obligations = []      # (name, kind, ok, detail)
        self.suites = []           # dicts
        self.violations = []       # (replay_path, summary, found_input)
        self.known_lines = []
        self.samples = []
        self.evaluations = 0
        self.nontrivial = set()
        self.nontrivial_n = 0      # distinct non-trivial cases counted by the driver itself
        self.extra = {}
        self.assumptions = []
        self.trusted = []
        self.rule = ""
        self.checker_cmds = []

    def oblige(self, name, kind, ok, detail=""):
        self.obligations.append((name, kind, bool(ok), detail))

    def add_cases(self, n, keys, samples=()):
        self.evaluations += n
        if isinstance(keys, int):
            self.nontrivial_n += keys
            keys = ()
        for k in keys:
            self.nontrivial.add(k if isinstance(k, (str, bytes)) else repr(k))
        for s in samples:
            if len(self.samples) < 12:
                self.samples.append(s[:400] + "..." if isinstance(s, str) and len(s) > 400 else s)

    def violation(self, name, payload, found_input=True):
        d = os.path.join(REPLAYS, self.prop)
        os.makedirs(d, exist_ok=True)
        path = os.path.join(d, name + ".json")
        payload = dict(payload)
        payload.setdefault("property", self.prop)
        payload.setdefault("seed", self.seed)
        payload.setdefault("tier", self.tier)
        payload.setdefault("replay_cmd", "/verif/check %s --replay %s" % (self.prop, path))
        json.dump(payload, open(path, "w"), indent=1)
        self.violations.append((path, payload.get("summary", name), found_input))
        return path

    def known(self, what):
        self.known_lines.append("KNOWN-FINDING: property=%s %s" % (self.prop, what))

    def finish(self, level="proof"):
        os.makedirs(EVIDENCE, exist_ok=True)
        obl = len(self.obligations)
        dis = sum(1 for o in self.obligations if o[2])
        cov = dict(
            obligations=obl, discharged=dis,
            checker_cmd=" && ".join(self.checker_cmds) or "lake build",
            trusted_base=self.trusted,
            evaluations=self.evaluations,
            distinct_nontrivial=len(self.nontrivial) + self.nontrivial_n,
            rule=self.rule,
            samples=self.samples[:12],
            obligation_list=[dict(name=n, kind=k, ok=ok, detail=d) for n, k, ok, d in self.obligations],
            suites=self.suites,
            known_findings_printed=self.known_lines,
        )
        cov.update(self.extra)
        ev = dict(property_id=self.prop, tier=self.tier, seed=self.seed, level=level, coverage=cov,
                  assumptions=self.assumptions, wall_s=round(time.time() - self.t0, 2), violations=len(self.violations))
        json.dump(ev, open(os.path.join(EVIDENCE, self.prop + ".json"), "w"), indent=1)
        for l in self.known_lines:
            print(l)
        # violations with a concrete failing input first: a broken proof obligation or tie for which some engine DID find an input is listed after it
        for path, summary, found in sorted(self.violations, key=lambda v: not v[2]):
            print("VIOLATION property=%s replay=%s%s" % (self.prop, path, "" if found else " no-failing-input-found"))
            print("  " + str(summary)[:400])
        print("%s tier=%s seed=%d obligations=%d discharged=%d evaluations=%d nontrivial=%d violations=%d wall=%.1fs" % (
            self.prop, self.tier, self.seed, obl, dis, self.evaluations, len(self.nontrivial) + self.nontrivial_n, len(self.violations),
            time.time() - self.t0))
        return 1 if self.violations else 0


def sha(s):
    return hashlib.sha256(s if isinstance(s, bytes) else s.encode()).hexdigest()[:16]


def generic_replay(R, payload):
    """re-run the recorded input lines through the harness engine and the driver; exit 1 if they still disagree"""
    binary, err = build_harness()
    if binary is None:
        print("harness does not build:", err)
        return 1
    lines = payload.get("lines") or []
    if not lines:
        print(payload.get("summary", "no input recorded (proof/tie broken without a failing input)"))
        return 1
    obs, se, rc = run_harness(binary, payload["engine"], lines, args=payload.get("args"))
    d = run_driver(obs, extra_args=payload.get("driver_args"))
    for l in obs[:20]:
        print("OBSERVED", l[:300])
    for m in d["mismatches"] + d["unknown"]:
        print(m[:400])
    bad = bool(d["mismatches"] or d["unknown"]) or rc != 0
    print("replay: %s" % ("still failing" if bad else "no longer failing"))
    return 1 if bad else 0


def strip_obs(line, nfields):
    """input part of an observed line (first nfields tokens)"""
    return " ".join(line.split()[:nfields])


def corpus(engine):
    path = os.path.join(VERIF, "corpus", engine + ".txt")
    if not os.path.exists(path):
        return []
    return [l.strip() for l in open(path) if l.strip() and not l.startswith("#")]
