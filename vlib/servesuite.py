"""Shared runner for serve-engine properties (C03, C19, C20, C02 isolation)."""
import collections
import random

from . import core, servegen


def session_of(obs, lineno):
    i = lineno - 1
    start = i
    while start > 0 and not obs[start].startswith("S"):
        start -= 1
    out, skip = [], 0
    for l in obs[start:i + 1]:
        if skip and l.startswith("C "):
            skip -= 1          # the C lines a P step was expanded into by the harness
            continue
        out.append(l.split(" => ")[0])
        skip = len(l.split()) - 1 if l.startswith("PAR ") else (1 if l.startswith("STALL ") else 0)
    return out


def judge(binary, lines, timeout=600):
    obs, crashes, se = core.run_harness_resilient(binary, "serve", lines, timeout=timeout)
    d = core.run_driver(obs)
    return obs, d, crashes, se


def readable(lines):
    out = []
    for l in lines:
        f = l.split()
        if f and f[0] == "C" and len(f) >= 3:
            out.append("C %s %r" % (f[1], core.unhx(f[2])))
        else:
            out.append(l)
    return out


def run_serve_suite(R, ctx, name, nsess, what, parallel=0, stalls=(), parallel_select=0, select_sweep=(), first_select=0, halfclose=0, extra_lines=None, **genargs):
    R.rule = ("sessions: 1-4 connections (net.Pipe) against one server.Manager.Handle; each step writes a pipeline of 1-5 commands (string/key "
              "commands, SELECT with valid and invalid arguments, SUBSCRIBE, PUBLISH with binary payloads, values that are not commands, "
              "protocol damage) followed by a sentinel PING, and collects every byte the server wrote; drains collect Pub/Sub pushes; some "
              "connections are closed by the client. The Lean connection-layer model (Exec/Serve.lean) must produce the same sequence of RESP "
              "values (decoded by the verified decoder; count, order, class) and the same open/closed status. %s "
              "A step is non-trivial when it has at least one non-error reply or delivered push; distinct = distinct step lines." % what)
    binary, err = core.build_harness()
    R.oblige("harness builds against /repo working tree (-tags verif)", "build", binary is not None, err or "")
    if binary is None:
        R.violation("harness-build", dict(kind="tie-broken", summary="harness does not build: " + (err or "")[-800:]), found_input=False)
        return
    rng = random.Random(R.seed * 15485863 + sum(map(ord, name)))
    n = nsess[0] if R.tier == "quick" else nsess[1]
    lines = list(core.corpus("serve_" + name)) + list(extra_lines or [])
    for _ in range(n):
        lines += servegen.session(rng, **genargs)
    for _ in range(parallel if R.tier == "quick" else parallel * 8):
        lines += servegen.parallel_session(rng)
    for ms in stalls:
        lines += servegen.slow_reader_session(rng, ms)
    for _ in range(parallel_select if R.tier == "quick" else parallel_select * 10):
        lines += servegen.parallel_select_session(rng)
    for ndb in select_sweep:
        lines += servegen.select_sweep(ndb)
    for _ in range(first_select if R.tier == "quick" else first_select * 10):
        lines += servegen.first_select_race(rng)
    for _ in range(halfclose if R.tier == "quick" else halfclose * 10):
        lines += servegen.halfclose_session(rng)
    obs, d, crashes, se = judge(binary, lines)
    core.negative_control(R, obs, "serve/" + name, skip=lambda l: not l.startswith("C ") or " => " not in l, group=True)
    kinds = collections.Counter(l.split()[0] for l in obs)
    statuses = collections.Counter(l.split()[-1] for l in obs if l.startswith("C ") and " => " in l)
    distinct = len(set(l.split(" => ")[0] for l in obs if l.startswith(("C ", "D "))))
    pos = int(d["summary"].get("positive", 0))
    R.add_cases(len(obs), min(pos, distinct), samples=[l[:300] for l in obs[1:3]] + [repr(x)[:300] for x in readable([obs[1].split(" => ")[0]])])
    R.extra.setdefault("input_distribution", {})[name] = dict(sessions=n, lines=len(obs), line_kinds=dict(kinds), connection_status=dict(statuses),
                                                               distinct_steps=distinct, nontrivial_steps=pos, harness_crashes=crashes)
    ok = not d["mismatches"] and not d["unknown"] and crashes == 0
    R.oblige("correspondence serve/%s: Manager.Handle = Lean connection-layer model (reply values, order, count, status, pushes)" % name,
             "correspondence", ok, "%d mismatches, %d crashes" % (len(d["mismatches"]), crashes))
    R.suites.append(dict(name="serve/" + name, lines=len(obs), mismatches=len(d["mismatches"]), crashes=crashes, driver_s=round(d["seconds"], 1)))
    for i, mm in enumerate((d["mismatches"] + d["unknown"])[:3]):
        try:
            lineno = int(mm.split()[1])
        except Exception:
            lineno = None
        sess = session_of(obs, lineno) if lineno else []
        # shrink: drop steps while the last line still mismatches
        cur = list(sess)
        budget = 40
        changed = True
        while changed and budget > 0 and len(cur) > 2:
            changed = False
            for j in range(len(cur) - 2, 0, -1):
                cand = cur[:j] + cur[j + 1:]
                budget -= 1
                if budget <= 0:
                    break
                o2, d2, c2, _ = judge(binary, cand, timeout=60)
                if c2 or any(m.split()[1] == str(len(cand)) for m in d2["mismatches"]):
                    cur = cand
                    changed = True
        R.violation("%s-%d" % (name, i), dict(kind="impl-violates-spec", engine="serve", summary=mm[:500], lines=cur, session=readable(cur),
                                              explanation="the bytes the server wrote on this connection differ from the connection-layer model "
                                                          "(one well-formed reply per command in order; selection per connection; pushes to current subscribers)"))
    if ctx.broken and not d["mismatches"]:
        R.violation("proof-broken", dict(kind="proof-broken", broken=ctx.broken,
                                         summary="theorem(s) no longer check: " + ", ".join(t for t, _ in ctx.broken)), found_input=False)
