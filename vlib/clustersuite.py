"""Cluster checks shared by C07 and C08.

  * fact F4: the order of operations in the Ready arm of raftexample/raft.go serveChannels, extracted from the source on every run
    (persist-before-send/apply/acknowledge is the hypothesis of the recovery theorems); F4d: the wal.Save step is unconditional.  Its
    BEHAVIOURAL counterpart is the readyloop suite (vlib/readygen.py + harness/readyloop.go): the real Ready loop of one node, every
    externalisation judged against what a restart would read from disk at that moment;
  * the `apply` engine differential: random overlapping Ready batches through the real entriesToApply/publishEntries vs Apply.publish;
  * the `cluster` engine: real node processes on loopback, concurrent clients, SIGKILL/restart/membership faults and NETWORK
    PARTITIONS between live nodes (proxied links, harness/cluster_links.go: every raft link through a forwarder of the harness that can
    be cut and healed; fault kinds isolate-leader / isolate-follower / split / partition-leader-minority / isolate-follower-snap, with
    read-only clients pinned to every node so that a cut-off node keeps being asked), porcupine, per-node agreement, ledger of
    acknowledged writes (harness/cluster.go) — exploration, not proof;
  * deterministic minimal repros of the recorded known findings (each prints KNOWN-FINDING while it still fails).

Processes: every node is started by the harness in its own process group with its PID appended to <scratch>/pids.txt; the harness
kills by PID; whatever is still listed and alive when the harness returns (or was killed) is SIGKILLed by PID here.  All scratch
lives in a core.Workdir (outside /verif and /repo) and is removed."""
import concurrent.futures
import json
import os
import random
import re
import signal
import subprocess
import time

from . import core

RAFT_GO = "raftexample/raft.go"
F4_EXPECTED = ["saveSnap", "wal.Save", "ApplySnapshot", "wal.Sync", "publishSnapshot", "raftStorage.Append", "transport.Send",
               "publishEntries", "maybeTriggerSnapshot", "Advance"]
F4_CALLS = [("saveSnap", r"rc\.saveSnap\("), ("wal.Save", r"rc\.wal\.Save\("), ("ApplySnapshot", r"rc\.raftStorage\.ApplySnapshot\("), ("wal.Sync", r"rc\.wal\.Sync\("),
            ("publishSnapshot", r"rc\.publishSnapshot\("), ("raftStorage.Append", r"rc\.raftStorage\.Append\("),
            ("transport.Send", r"rc\.transport\.Send\("), ("publishEntries", r"rc\.publishEntries\("),
            ("maybeTriggerSnapshot", r"rc\.maybeTriggerSnapshot\("), ("Advance", r"rc\.Node\.Advance\(")]


F4D_SUMMARY = ("fact F4d broken: in the Ready arm of serveChannels the call rc.wal.Save(rd.HardState, rd.Entries) is nested inside a conditional "
               "(brace depth %s) or does not save the Ready's hard state and entries (arguments as expected: %s): some Readys are sent, applied and "
               "acknowledged without being persisted (a Ready without entries can carry a new term and a just-granted vote); Recover.acked_survives / "
               "rep_save and RS.C08.acked_survives_all_restart assume term, vote and entries are on disk before anything leaves the node")


def strip_go_comments(src):
    """remove // and /* */ comments, keeping string literals (a '//' inside "http://..." is not a comment)"""
    out, i, n = [], 0, len(src)
    while i < n:
        c = src[i]
        if c == '"':
            j = i + 1
            while j < n and src[j] != '"':
                j += 2 if src[j] == "\\" else 1
            out.append(src[i:j + 1])
            i = j + 1
        elif c == "`":
            j = src.find("`", i + 1)
            j = n if j < 0 else j
            out.append(src[i:j + 1])
            i = j + 1
        elif c == "'":
            j = i + 1
            while j < n and src[j] != "'":
                j += 2 if src[j] == "\\" else 1
            out.append(src[i:j + 1])
            i = j + 1
        elif src.startswith("//", i):
            j = src.find("\n", i)
            i = n if j < 0 else j
        elif src.startswith("/*", i):
            j = src.find("*/", i + 2)
            i = n if j < 0 else j + 2
        else:
            out.append(c)
            i += 1
    return "".join(out)


def ready_arm(src):
    """text of the `case rd := <-rc.Node.Ready():` arm of serveChannels (comments stripped), or None"""
    src = strip_go_comments(src)
    m = re.search(r"func \(rc \*RaftNode\) serveChannels\(\)", src)
    if not m:
        return None
    body = src[m.end():]
    nxt = re.search(r"\nfunc ", body)
    if nxt:
        body = body[:nxt.start()]
    m = re.search(r"\n(\s*)case rd := <-rc\.Node\.Ready\(\):", body)
    if not m:
        return None
    indent = m.group(1)
    rest = body[m.end():]
    end = re.search(r"\n%s(case |default:|\})" % re.escape(indent), rest)
    return rest[:end.start()] if end else rest


def fact_f4(R, broken_is_violation=True):
    """extract the order of the Ready arm; obligations F4a (exact order), F4b (persist before send/apply), F4c (write errors checked),
    F4d (the persist step is unconditional).  The behavioural counterpart of F4 is the readyloop suite (vlib/readygen.py)."""
    path = os.path.join(core.REPO, RAFT_GO)
    try:
        arm = ready_arm(open(path).read())
    except OSError as e:
        arm, err = None, str(e)
    if arm is None:
        R.oblige("F4: Ready arm of serveChannels found in " + RAFT_GO, "fact", False, "not found")
        R.violation("F4-not-extractable", dict(kind="tie-broken", summary="fact F4: the Ready arm of serveChannels was not found in %s" % path),
                    found_input=False)
        return None
    found = []
    for name, rx in F4_CALLS:
        for m in re.finditer(rx, arm):
            found.append((m.start(), name))
    found.sort()
    order = [n for _, n in found]
    R.extra["F4_order"] = order
    exact = order == F4_EXPECTED
    R.oblige("F4a: Ready arm order = saveSnap? -> wal.Save -> ApplySnapshot/wal.Sync/publishSnapshot -> raftStorage.Append -> transport.Send -> "
             "publishEntries -> maybeTriggerSnapshot -> Advance (extracted from %s)" % RAFT_GO, "fact", exact, " -> ".join(order))

    def first(n):
        return order.index(n) if n in order else None
    ws, ss = first("wal.Save"), first("saveSnap")
    before = ws is not None and order.count("wal.Save") == 1 and all(
        first(x) is not None and ws < first(x) for x in ("transport.Send", "publishEntries", "raftStorage.Append", "maybeTriggerSnapshot", "Advance"))
    before = before and ss is not None and ss < ws
    R.oblige("F4b: persist-before-ack — wal.Save (and saveSnap before it) precede transport.Send, publishEntries and Advance", "fact", before,
             " -> ".join(order))
    unchecked = [n for n, rx in (("wal.Save", r"^\s*rc\.wal\.Save\("), ("saveSnap", r"^\s*rc\.saveSnap\(")) if re.search(rx, arm, re.M)]
    R.oblige("F4c: the results of wal.Save and saveSnap are not discarded", "fact", not unchecked,
             "discarded: " + ", ".join(unchecked) if unchecked else "both errors are tested")
    # F4d: the persist step is unconditional.  The call being present and in order (F4a/b) says nothing if it sits inside a condition
    # (seeded change: `if len(rd.Entries) > 0 { ...wal.Save... }` - a Ready without entries can carry a new term and a granted vote).
    calls = list(re.finditer(r"rc\.wal\.Save\(", arm))
    depth, args_ok = None, False
    if len(calls) == 1:
        pre = re.sub(r'"(?:\\.|[^"\\])*"|`[^`]*`', '""', arm[:calls[0].start()])
        depth = pre.count("{") - pre.count("}")
        args_ok = re.match(r"rc\.wal\.Save\(\s*rd\.HardState\s*,\s*rd\.Entries\s*\)", arm[calls[0].start():]) is not None
    uncond = depth == 0 and args_ok
    R.oblige("F4d: wal.Save(rd.HardState, rd.Entries) runs for EVERY Ready — the call is not nested inside any conditional of the arm (only its own "
             "`if err := ...; err != nil`), and saves the Ready's hard state and entries", "fact", uncond,
             "brace depth %s at the call, arguments %s" % (depth, "rd.HardState, rd.Entries" if args_ok else "not (rd.HardState, rd.Entries)"))
    if not uncond and broken_is_violation:
        R.violation("F4-save-conditional", dict(kind="tie-broken", summary=F4D_SUMMARY % (depth, args_ok)), found_input=False)
    if (not before or not exact) and broken_is_violation:
        R.violation("F4-persist-before-ack", dict(
            kind="tie-broken", order=order, expected=F4_EXPECTED,
            summary="fact F4 broken: the Ready arm of serveChannels runs %s; the recovery theorems (Recover.acked_survives, rep_save) assume "
                    "that an entry is sent, published and acknowledged only after the wal.Save that contains it returned" % " -> ".join(order)),
            found_input=False)
    return dict(order=order, exact=exact, persist_first=before, unchecked=unchecked, unconditional=uncond, save_depth=depth)


# ------------------------------------------------------------------------------------------ apply engine

def gen_apply_lines(rng, n):
    """Ready batches of committed entries: contiguous, overlapping what was already applied, empty, and (must be refused) starting
    beyond applied+1"""
    lines, applied = [], 0
    while len(lines) < n:
        if not lines or rng.random() < 0.02:
            applied = rng.choice([0, 0, 1, 5, 100, 10 ** 6, 2 ** 40])
            lines.append("N %d" % applied)
            continue
        r = rng.random()
        if r < 0.12:
            first = applied + 2 + rng.choice([0, 0, 1, 5, 1000])       # a gap: entriesToApply must refuse
        elif r < 0.55:
            first = applied + 1                                         # the usual case
        else:
            first = max(1, applied + 1 - rng.choice([1, 1, 2, 3, 8, 40]))  # overlaps what is already applied
        count = rng.choice([0, 1, 1, 2, 3, 5, 9, 33])
        lines.append("B %d %d" % (first, count))
        if first <= applied + 1 and count > 0:
            applied = max(applied, first + count - 1)
    return lines


def apply_differential(R, ctx, binary, n):
    rng = random.Random(R.seed * 7907 + 17)
    lines = list(core.corpus("apply")) + gen_apply_lines(rng, n)
    obs, se, rc = core.run_harness(binary, "apply", lines, timeout=300)
    d = core.run_driver(obs, timeout=600)
    core.negative_control(R, obs, "apply", skip=lambda l: " => " not in l)
    refused = sum(1 for l in obs if "=> FATAL" in l)
    overlap = sum(1 for l in obs if l.startswith("B") and "=> -" in l)
    pos = int(d["summary"].get("positive", 0) or 0)
    ok = rc == 0 and len(obs) == len(lines) and not d["mismatches"] and not d["unknown"]
    R.oblige("correspondence apply: entriesToApply/publishEntries = Apply.publish on every Ready batch (published ids, appliedIndex, refusal of gaps)",
             "correspondence", ok, "%d lines, %d mismatches, %d unknown, harness rc=%d %s" % (len(obs), len(d["mismatches"]), len(d["unknown"]), rc, se[-200:]))
    R.add_cases(len(obs), pos, samples=obs[1:4])
    R.suites.append(dict(name="apply", lines=len(obs), publishing=pos, refused_gaps=refused, fully_overlapping=overlap,
                         mismatches=len(d["mismatches"]), driver_s=round(d["seconds"], 1)))
    if len(obs) < len(lines):
        # the harness process died while running lines[len(obs)] (a panic inside entriesToApply/publishEntries)
        at = len(obs)
        start = max(i for i in range(at + 1) if lines[i].startswith("N "))
        R.violation("apply-crash-" + core.sha(lines[at]), dict(
            kind="impl-violates-spec", engine="apply", lines=lines[start:at + 1], summary="the apply pipeline crashed on %r after %r: %s" % (
                lines[at], lines[start:at][-3:], se[-400:]),
            explanation="entriesToApply/publishEntries panicked on a Ready batch that satisfies etcd's contract (first index between 1 and applied+1)"))
        return False
    for mm in (d["mismatches"] + d["unknown"])[:1]:
        try:
            lineno = int(mm.split()[1])
        except Exception:
            lineno = len(lines)
        start = max(i for i in range(lineno) if lines[i].startswith("N "))
        prog = lines[start:lineno]
        # minimise: drop batches while the last line still mismatches
        def fails(cand):
            o, _, _ = core.run_harness(binary, "apply", cand, timeout=60)
            dd = core.run_driver(o, timeout=60)
            return bool(dd["mismatches"] or dd["unknown"])
        i = 1
        while i < len(prog) - 1:
            cand = prog[:i] + prog[i + 1:]
            if fails(cand):
                prog = cand
            else:
                i += 1
        R.violation("apply-" + core.sha(" ".join(prog)), dict(
            kind="impl-violates-spec", engine="apply", lines=prog, summary=mm[:400],
            explanation="the real entriesToApply/publishEntries published other entries (or another appliedIndex) than Apply.publish, for which "
                        "Apply.apply_exactly_once is proved: a committed entry would be applied twice or skipped"))
    return ok


# ------------------------------------------------------------------------------------------ cluster engine

def build_server(workdir):
    """the real server binary from the repository working tree, with the verif tag (snapshot thresholds from VERIF_SNAPCOUNT)"""
    out = os.path.join(workdir, "redisgo")
    rc, so, se, dt = core.run(["go", "build", "-tags", "verif", "-o", out, "."], cwd=core.REPO, env=core.goenv(), timeout=900)
    if rc != 0:
        return None, (so + se)[-3000:], dt
    return out, None, dt


def reap(scratch):
    """SIGKILL by PID whatever the harness recorded and left alive (error paths, timeouts)"""
    killed = []
    for root, _, files in os.walk(scratch):
        for f in files:
            if f != "pids.txt":
                continue
            for l in open(os.path.join(root, f)):
                try:
                    pid = int(l)
                except ValueError:
                    continue
                try:
                    exe = os.readlink("/proc/%d/exe" % pid)
                except OSError:
                    continue
                if os.path.basename(exe).startswith("redisgo"):
                    try:
                        os.kill(pid, signal.SIGKILL)
                        killed.append(pid)
                    except OSError:
                        pass
    return killed


def run_engine(binary, server, scratch, seed, scenarios, timeout, slot=0):
    """one harness process running the scenarios one after the other; returns the parsed reports.  slot: index among the harness
    processes this check runs at the same time (each gets its own block of 200 loopback ports below the ephemeral range)"""
    os.makedirs(scratch, exist_ok=True)
    args = [binary, "cluster", server, scratch, str(seed)] + [json.dumps(s) for s in scenarios]
    env = core.goenv()
    env["VERIF_PORT_BASE"] = str(10000 + ((os.getpid() * 8 + slot) % 100) * 200)
    p = subprocess.Popen(args, stdout=subprocess.PIPE, stderr=subprocess.PIPE, env=env, start_new_session=True)
    try:
        so, se = p.communicate(timeout=timeout)
    except subprocess.TimeoutExpired:
        try:
            os.kill(p.pid, signal.SIGTERM)   # the harness kills its recorded children on SIGTERM
            so, se = p.communicate(timeout=15)
        except (subprocess.TimeoutExpired, OSError):
            try:
                os.kill(p.pid, signal.SIGKILL)
            except OSError:
                pass
            so, se = p.communicate()
    finally:
        reap(scratch)
    reports = []
    for l in so.decode("utf-8", "replace").split("\n"):
        if l.strip():
            try:
                reports.append(json.loads(l))
            except ValueError:
                pass
    names = [r.get("scenario") for r in reports]
    for s in scenarios:
        if s["name"] not in names:
            reports.append(dict(scenario=s["name"], result="start-failed", seconds=0,
                                problems=[dict(kind="start-failed", detail="the harness produced no report (timeout or crash): " + se.decode("utf-8", "replace")[-600:])]))
    return reports


WORK_ALL = ["str", "ctr", "list", "set", "ledger"]


def scenario(name, nodes, clients, load_ms, faults, snap=0, classes=None, **kw):
    d = dict(name=name, nodes=nodes, clients=clients, load_ms=load_ms, snapcount=snap, classes=classes or WORK_ALL, faults=faults)
    # bound the history (porcupine must finish) and pace the clients so that the load spans the fault schedule
    d["max_ops"] = 9000 // clients
    d["think_ms"] = 4 if clients <= 8 else 10
    d.update(kw)
    return d


def pscenario(name, nodes, clients, faults, snap=0, lane=1, **kw):
    """a scenario with proxied links (partitions between live nodes).  The fault schedule decides how long it runs (a partition fault
    holds its cut for 2-7 s and then waits until every node serves again), so the clients are paced by the number of faults and the
    history stays within what porcupine finishes; one read-only client is pinned to every node; commands give up after 1.5 s (on the
    minority side they would block for as long as the cut lasts; a command a follower forwarded into the cut is lost for good) and
    count as unknown outcome; a client whose command got no reply backs off for 0.3-0.8 s and turns to the other nodes for 4 s
    (every unknown-outcome write stays concurrent with the rest of the history: their number decides the search time).  lane: scenarios of one lane run one
    after the other in one harness process; the partition lanes run beside each other, after the main sequence (lane 0) and the
    small repros are through."""
    d = scenario(name, nodes, clients, 3000, faults, snap=snap, proxied=True, readers=1, op_timeout_ms=1500,
                 max_ops=2500, think_ms=min(48, 12 * len(faults)))
    d["_lane"] = lane
    d.update(kw)
    return d


def quick_scenarios(prop):
    if prop == "C07":
        return [scenario("q-leader-kill-3", 3, 8, 5000, ["kill-leader"]),
                pscenario("q-isolate-leader-3", 3, 6, ["isolate-leader"], lane=1),
                pscenario("q-isolate-follower-3", 3, 6, ["isolate-follower"], lane=2),
                pscenario("q-split-3", 3, 6, ["split"], lane=3)]
    return [scenario("q-snapshot-all-kill-3", 3, 8, 5500, ["kill-all"], snap=20),
            scenario("q-orphan-snapshot-3", 3, 6, 4500, ["orphan-snap-all-kill"], snap=15),
            scenario("q-lag-then-all-kill-3", 3, 6, 6500, ["lag-then-all-kill"], snap=20)]


def thorough_scenarios(prop, rng):
    S = []
    if prop == "C07":
        S += [scenario("leader-kills-3", 3, 8, 9000, ["kill-leader", "kill-leader", "kill-follower"]),
              scenario("followers-3", 3, 4, 7000, ["kill-follower", "kill-follower", "kill-follower"]),
              scenario("load-16-clients-3", 3, 16, 8000, ["kill-leader"]),
              scenario("minority-5", 5, 12, 9000, ["kill-minority", "kill-leader", "kill-minority"]),
              scenario("leader-kills-5", 5, 16, 9000, ["kill-leader", "kill-follower", "kill-leader"]),
              scenario("lagging-follower-snapshot-3", 3, 8, 9000, ["lag-follower", "kill-leader", "lag-follower"], snap=20),
              scenario("lagging-follower-snapshot-5", 5, 8, 9000, ["lag-follower", "kill-minority"], snap=20),
              scenario("member-add-3", 3, 6, 9000, ["add-member", "kill-follower", "kill-leader"]),
              scenario("member-add-then-all-kill-3", 3, 6, 9000, ["add-member", "kill-all"]),
              scenario("member-delete-3", 3, 6, 6000, ["del-member", "kill-follower"], classes=["str", "ctr", "set", "ledger"]),
              scenario("member-delete-5", 5, 8, 7000, ["del-member", "kill-leader", "kill-follower"]),
              scenario("everything-3", 3, 8, 12000, ["kill-follower", "kill-leader", "kill-all", "lag-follower", "kill-leader"], snap=20)]
        S += [pscenario("isolate-leader-repeated-3", 3, 6, ["isolate-leader", "isolate-leader", "isolate-leader"]),
              pscenario("partitions-mixed-3", 3, 8, ["isolate-follower", "split", "isolate-leader"]),
              pscenario("isolate-leader-5", 5, 8, ["isolate-leader", "isolate-follower"]),
              pscenario("partition-leader-minority-5", 5, 8, ["partition-leader-minority", "split", "partition-leader-minority"]),
              pscenario("partition-and-kill-3", 3, 6, ["isolate-leader", "kill-leader", "isolate-follower", "kill-follower"], lane=2),
              pscenario("partition-and-kill-5", 5, 8, ["partition-leader-minority", "kill-minority", "isolate-leader"], lane=2),
              pscenario("partition-snapshot-3", 3, 6, ["isolate-follower-snap", "isolate-leader"], snap=20, lane=2)]
    else:
        S += [scenario("all-kill-3", 3, 8, 8000, ["kill-all", "kill-all"]),
              scenario("all-kill-5", 5, 12, 9000, ["kill-all", "kill-minority", "kill-all"]),
              scenario("snapshot-all-kill-3", 3, 8, 10000, ["kill-all", "kill-leader", "kill-all"], snap=20),
              scenario("snapshot-all-kill-5", 5, 12, 10000, ["kill-minority", "kill-all", "kill-leader"], snap=20),
              scenario("snapshot-small-threshold-3", 3, 6, 9000, ["kill-all", "lag-follower", "kill-all"], snap=5),
              scenario("snapshot-lag-then-all-kill-3", 3, 8, 10000, ["lag-follower", "kill-all", "kill-follower"], snap=20),
              scenario("long-log-3", 3, 16, 15000, ["kill-follower", "kill-all"], snap=50),
              scenario("lag-then-all-kill-3", 3, 8, 10000, ["lag-then-all-kill", "kill-leader"], snap=20),
              scenario("lag-then-all-kill-5", 5, 8, 11000, ["lag-then-all-kill", "lag-then-all-kill"], snap=10),
              scenario("leader-then-all-5", 5, 8, 9000, ["kill-leader", "kill-all"], snap=20),
              scenario("repeated-all-kill-3", 3, 4, 12000, ["kill-all", "kill-all", "kill-all", "kill-all"], snap=20)]
        # a LIVE follower is cut off across the snapshot threshold (caught up by MsgSnap after the heal), combined with full restarts
        S += [pscenario("partition-snapshot-all-kill-3", 3, 6, ["isolate-follower-snap", "kill-all"], snap=20),
              pscenario("partition-snapshot-5", 5, 8, ["isolate-follower-snap", "isolate-leader", "kill-all"], snap=20),
              pscenario("partition-then-all-kill-3", 3, 6, ["isolate-leader", "kill-all", "isolate-follower-snap"], snap=10, lane=2)]
    # a few randomly composed ones
    kinds = ["kill-follower", "kill-leader", "kill-all", "kill-minority", "lag-follower"]
    for i in range(3):
        n = rng.choice([3, 5])
        S.append(scenario("random-%d" % i, n, rng.choice([4, 8, 12, 16]), 9000, [rng.choice(kinds) for _ in range(rng.randint(2, 4))],
                          snap=rng.choice([0, 10, 20])))
    return S


# known findings: signature -> (demo scenario, what the repro shows)
DEMOS = {
    "replicas-own-clock-ttl": dict(name="known-ttl", nodes=3, demo="ttl"),
    "replicas-own-random-spop": dict(name="known-spop", nodes=3, demo="spop"),
    "replicas-own-clock-xadd": dict(name="known-xadd", nodes=3, demo="xadd"),
    "member-url-lost-after-compaction": dict(name="known-member-url", nodes=3, snapcount=20, demo="memberurl"),
}
# repaired defects: the repro must now AGREE (a regression is a violation)
REPAIRED = {"C08": [dict(name="repaired-list-snapshot", nodes=3, snapcount=20, demo="listsnap"),
                    dict(name="repaired-snapshot-restart", nodes=3, snapcount=20, demo="snaprestart"),
                    dict(name="repaired-snapshot-lagging-follower", nodes=3, snapcount=20, demo="snaplag")],
            "C07": [dict(name="repaired-second-membership-change", nodes=3, demo="joint")]}

EXPLAIN = {
    "start-failed": "the cluster (or a node) could not be started or did not serve requests: the exploration did not run, which is a failed obligation, not a pass",
    "node-died": "a node process exited without being killed (concurrent client load / taking a snapshot must never take a node down); its last log lines are in the report",
    "bad-reply": "a client received bytes that are not exactly one well-formed RESP value for its command",
    "not-linearizable": "no single order of the acknowledged commands on this key (respecting real time, with the final reads through every node) explains the replies",
    "replicas-disagree": "after quiescence two nodes return different values for the same key",
    "lost-write": "an acknowledged write is not reflected by a read after the restarts",
    "unavailable": "a node that was restarted from its on-disk state (or whose links were cut and restored) does not serve requests again",
}


def summarise(r):
    return {k: r.get(k) for k in ("scenario", "seed", "nodes", "clients", "snapcount", "result", "ops_acked", "ops_unknown", "keys_checked",
                                  "keys_inconclusive", "keys_agree_on_all_nodes", "nodes_read", "snapshots_taken", "snapshots_received",
                                  "faults_injected", "ledger", "links", "seconds")}


def run_cluster(R, ctx, prop, binary, known_sigs, demo_props):
    """main scenarios + repaired-defect repros + known-finding repros.  demo_props: which known signatures this property reports."""
    quick = R.tier == "quick"
    rng = random.Random(R.seed * 9176 + (7 if prop == "C07" else 8))
    scen = quick_scenarios(prop) if quick else thorough_scenarios(prop, rng)
    with core.Workdir() as wd:
        wd_l = wd.lower()   # config.Parse lower-cases logdir; mkdtemp names are mixed case
        if wd_l != wd:
            os.makedirs(wd_l, exist_ok=True)
        try:
            server, err, bdt = build_server(wd_l)
            R.oblige("the real server builds from the repository working tree (go build -tags verif .)", "build", server is not None, err or "%.1fs" % bdt)
            if server is None:
                R.violation("server-build", dict(kind="tie-broken", summary="the server does not build: " + (err or "")[-800:]), found_input=False)
                return
            t0 = time.time()
            side = [dict(d) for d in REPAIRED.get(prop, [])]
            side += [dict(DEMOS[s]) for s in demo_props if s in DEMOS]
            jobs = []
            lanes = {}
            for s in scen:
                lanes.setdefault(s.pop("_lane", 0), []).append(s)
            with concurrent.futures.ThreadPoolExecutor(max_workers=8) as ex:
                # the scenarios of a lane run one after the other in one harness process (timing matters); every harness process that
                # runs at the same time has its own block of ports
                def start(lane):
                    ls = lanes[lane]
                    return ex.submit(run_engine, binary, server, os.path.join(wd_l, "main" if lane == 0 else "lane%d" % lane),
                                     R.seed * 1000 + 100 * lane, ls, 60 + sum(s["load_ms"] / 1000.0 + 90 + 25 * len(s["faults"]) for s in ls),
                                     0 if lane == 0 else len(side) + lane)
                # the main sequence and the small repros first, exactly as before the partition lanes existed; the partition lanes
                # (beside each other) after them: run beside the main sequence they slow its 16-client scenarios down enough (more
                # commands without a reply, a busier machine for porcupine) to leave linearizability searches unfinished, and the
                # repros with fixed waits (a removed member must be gone 3 s later) start to miss their deadlines.
                lane_f = [start(0)] if 0 in lanes else []
                for i, d in enumerate(side):
                    jobs.append((d, ex.submit(run_engine, binary, server, os.path.join(wd_l, "side%d" % i), R.seed * 1000 + 500 + i, [d], 180, i + 1)))
                main = [r for f in lane_f for r in f.result()]
                side_reports = [(d, f.result()[0]) for d, f in jobs]
                main += [r for f in [start(lane) for lane in sorted(lanes) if lane != 0] for r in f.result()]
            R.extra["cluster_wall_s"] = round(time.time() - t0, 1)
        finally:
            leftover = reap(wd_l)
            if wd_l != wd:
                import shutil
                shutil.rmtree(wd_l, ignore_errors=True)
    R.extra["leftover_processes_killed"] = len(leftover)

    # ---- main scenarios
    acked = sum(r.get("ops_acked", 0) for r in main)
    unknown = sum(r.get("ops_unknown", 0) for r in main)
    faults = sum(len(r.get("faults_injected") or []) for r in main)
    keys = sum(r.get("keys_checked", 0) for r in main)
    inconcl = sum(r.get("keys_inconclusive", 0) for r in main)
    bad = [r for r in main if r.get("result") != "ok"]
    started = [r for r in main if r.get("result") != "start-failed"]
    R.oblige("cluster: every scenario started its node processes on loopback and ran to quiescence", "exploration",
             len(started) == len(main) and len(main) == len(scen), "%d of %d scenarios ran" % (len(started), len(scen)))
    R.oblige("cluster: no node exited on its own; one well-formed reply per command; every per-key history (acknowledged + unknown-outcome commands, "
             "final read through every node) linearizable; all nodes agree on every key at quiescence; ledger of acknowledged INCR/SADD complete on every node",
             "exploration", not bad, "%d of %d scenarios failed" % (len(bad), len(main)))
    R.oblige("cluster: every linearizability search finished within its time limit", "exploration", inconcl == 0, "%d key histories inconclusive" % inconcl)
    R.add_cases(acked + unknown, sum(1 for r in main if r.get("result") == "ok" and r.get("ops_acked", 0) > 0 and (r.get("faults_injected") or [])),
                samples=[summarise(r) for r in main[:3]])
    R.extra["cluster"] = dict(scenarios_run=len(main), scenarios=[summarise(r) for r in main], faults_injected=faults, ops_acknowledged=acked,
                              ops_unknown_outcome=unknown, key_histories_checked=keys, key_histories_inconclusive=inconcl,
                              snapshots_taken=sum(r.get("snapshots_taken", 0) for r in main),
                              snapshots_received_by_followers=sum(r.get("snapshots_received", 0) for r in main),
                              per_node_agreement=["%s: %s keys equal on %s nodes" % (r.get("scenario"), r.get("keys_agree_on_all_nodes"), r.get("nodes_read")) for r in main])
    R.suites.append(dict(name="cluster", scenarios=len(main), failed=len(bad), ops=acked + unknown, faults=faults, seconds=R.extra.get("cluster_wall_s")))
    seen = set()
    for r in bad:
        for p in (r.get("problems") or [dict(kind=r.get("result"), detail="")])[:3]:
            key = (r["scenario"], p["kind"])
            if key in seen or len(seen) >= 6:
                continue
            seen.add(key)
            sc = next((s for s in scen if s["name"] == r["scenario"]), None)
            R.violation("cluster-%s-%s" % (r["scenario"], p["kind"]), dict(
                kind="impl-violates-spec" if p["kind"] != "start-failed" else "tie-broken", engine="cluster", scenario=sc, seed_used=r.get("seed"),
                summary="%s: %s: %s%s" % (r["scenario"], p["kind"], p["detail"][:1500],
                                            (" || " + " | ".join(r.get("excerpt") or [])[:2500]) if p["kind"] == "not-linearizable" and r.get("excerpt") else ""),
                excerpt=r.get("excerpt") or [], report={k: v for k, v in r.items() if k != "history"},
                history=(r.get("history") or [])[-200:], explanation=EXPLAIN.get(p["kind"], "")), found_input=p["kind"] != "start-failed")

    # ---- repros
    for d, r in side_reports:
        res = r.get("result")
        sig = next((s for s, dd in DEMOS.items() if dd["name"] == d["name"]), None)
        detail = (r.get("demo_detail") or "") + " ".join(p["detail"] for p in (r.get("problems") or []))
        if sig:
            R.suites.append(dict(name=d["name"], result=res, seconds=round(r.get("seconds", 0), 1)))
            if res == "demo-diverged":
                if sig in known_sigs:
                    R.known("sig=%s %s :: observed: %s" % (sig, known_sigs[sig], detail[:600]))
                    R.oblige("known finding %s reproduced by its minimal scenario (recorded, not a pass)" % sig, "known-finding", True, detail[:300])
                else:
                    R.oblige("repro " + d["name"], "exploration", False, detail[:300])
                    R.violation("cluster-" + d["name"], dict(kind="impl-violates-spec", engine="cluster", scenario=d, summary=detail[:1500],
                                                            explanation="replicas that applied the same log hold different keyspaces (not recorded as a known finding)"))
            elif res == "demo-agrees":
                R.oblige("known finding %s no longer reproduces (remove its line from known_findings.txt)" % sig, "known-finding", True, detail[:300])
            else:
                R.oblige("repro %s ran" % d["name"], "exploration", False, "%s %s" % (res, detail[:300]))
                R.violation("cluster-" + d["name"], dict(kind="tie-broken", engine="cluster", scenario=d, summary="%s: %s" % (res, detail[:1200])), found_input=False)
        else:
            ok = res == "demo-agrees"
            R.suites.append(dict(name=d["name"], result=res, seconds=round(r.get("seconds", 0), 1)))
            R.oblige("%s: the repaired defect's minimal scenario passes" % d["name"], "exploration", ok, detail[:300])
            R.add_cases(1, 1 if ok else 0)
            if not ok:
                R.violation("cluster-" + d["name"], dict(kind="impl-violates-spec", engine="cluster", scenario=d, summary="%s: %s" % (res, detail[:1500]),
                                                        report=r, explanation="a defect that was repaired is back (see the fixed: lines of this property in known_findings.txt)"))
    return main


def replay_cluster(R, payload):
    binary, err = core.build_harness()
    if not binary:
        print(err)
        return 1
    sc = payload.get("scenario")
    if not sc:
        print(payload.get("summary", "nothing to replay"))
        return 1
    with core.Workdir() as wd:
        wd_l = wd.lower()
        os.makedirs(wd_l, exist_ok=True)
        try:
            server, err, _ = build_server(wd_l)
            if not server:
                print(err)
                return 1
            reps = run_engine(binary, server, os.path.join(wd_l, "replay"), payload.get("seed_used") or 1, [sc], 600)
        finally:
            reap(wd_l)
            if wd_l != wd:
                import shutil
                shutil.rmtree(wd_l, ignore_errors=True)
    r = reps[0]
    if payload.get("excerpt"):
        print("recorded run (%s):\n  %s" % ("; ".join((payload.get("report") or {}).get("faults_injected") or []), "\n  ".join(payload["excerpt"])))
    print(json.dumps({k: v for k, v in r.items() if k not in ("history", "final", "excerpt", "log_tail")}, indent=1)[:6000])
    if r.get("excerpt"):
        print("this run:\n  " + "\n  ".join(r["excerpt"]))
    bad = r.get("result") not in ("ok", "demo-agrees")
    print("replay: %s (process schedules are not deterministic: a passing replay does not prove absence)" % ("still failing" if bad else "not reproduced"))
    return 1 if bad else 0


def one_node_probe(R, name, seed, text, explanation, nodes=1):
    """a REAL cluster of `nodes` node(s) started from cluster.json (explicit RaftAddr on odd seeds, the shipped redis.conf defaults: 16 databases), the cluster engine's
    start-up probes (SELECT of another database; a pipeline written by a client that half-closes at once), then a short two-client workload.  Used by the checks of
    properties that are not about replication but hold "in cluster mode too" (C20 selection, C14 / C03 replies on the cluster path)."""
    binary, err = core.build_harness()
    if binary is None:
        return
    sc = scenario(name, nodes, 2, 1200, [])
    with core.Workdir() as wd0:
        wd = wd0.lower()
        os.makedirs(wd, exist_ok=True)
        try:
            server, err, dt = build_server(wd)
            R.oblige("the real server builds from the repository working tree (go build -tags verif .)", "build", server is not None, err or "%.1fs" % dt)
            if server is None:
                return
            reps = run_engine(binary, server, os.path.join(wd, "probe"), seed, [sc], 180)
        finally:
            reap(wd)
            if wd != wd0:
                import shutil
                shutil.rmtree(wd, ignore_errors=True)
    bad = [r for r in reps if r.get("result") != "ok"]
    R.oblige(text, "exploration", len(reps) == 1 and not bad, "; ".join((p.get("kind", "") + ": " + p.get("detail", ""))[:300] for r in bad for p in (r.get("problems") or [])[:2]))
    R.add_cases(sum(r.get("ops", 0) or 0 for r in reps), len(reps) - len(bad))
    for r in bad[:1]:
        p0 = (r.get("problems") or [dict(kind=r.get("result"), detail="")])[0]
        R.violation("cluster-" + name, dict(kind="impl-violates-spec", engine="cluster", summary=("%s: %s: %s" % (name, p0.get("kind"), p0.get("detail")))[:800], report=r,
                                            scenario=sc, seed_used=seed, explanation=explanation))
