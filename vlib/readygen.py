"""readyloop suite (C08; referenced by C07): durability before externalisation on the REAL Ready loop of a cluster node.

The engine (harness/readyloop.go) runs one real raftexample.RaftNode (id 2 of {1,2,3}: real WAL and snapshot directory, real rafthttp
transport, real serveChannels goroutine) and plays peers 1 and 3.  Every outgoing message is observed synchronously inside
rc.transport.Send (hook H4, add-only), every delivery on the commit channel by the consumer; at each of these moments the node's
directories are read from disk with a separate read-only open, exactly as a restart would read them, and the clauses E1-E6 are judged
(see the engine's header).  Restarts (`restart`: clean stop; `crash`: the next life starts from a copy of the directories taken before
the stop, i.e. what a kill -9 leaves) are part of the scenarios.

This module: the scenario generator (seeded; mostly valid protocol runs produced from a small model of node 2 and of the two peers:
elections won by a peer, rival candidates in the same term, appends with commit advances, stale / conflicting / too-far appends,
heartbeats, a partitioned peer campaigning in higher terms, snapshots from the leader, node 2 campaigning and leading itself with
proposals and acknowledgements, restarts and crashes after every kind of step), fixed regression scenarios, the runner (parallel harness
processes on /dev/shm, a dead harness process = the scenario it was playing crashed the node), the minimiser and the replay."""
import json
import os
import random
import subprocess
import time

from . import core

OBLIGATION = "readyloop: every externalised message / applied entry is on disk first; restarts keep votes"


# ------------------------------------------------------------------------------------------ model used by the generator

class Node2:
    """what the generator believes about node 2 (only used to produce mostly-valid traffic; the verdict never depends on it)"""

    def __init__(self):
        self.term, self.vote, self.lead = 1, 0, 0
        self.snap = 0                      # index of the snapshot the log starts after
        self.log = {1: 1, 2: 1, 3: 1}      # index -> term (bootstrap: three conf-change entries of term 1, committed)
        self.snap_term = 0
        self.commit = 3
        self.state = "follower"

    def last(self):
        return max(self.log) if self.log else self.snap

    def t(self, i):
        if i == self.snap:
            return self.snap_term
        return self.log.get(i)

    def last_term(self):
        return self.t(self.last()) or 0

    def observe_term(self, term, lead=0):
        if term > self.term:
            self.term, self.vote, self.lead, self.state = term, 0, lead, "follower"

    def restart(self):
        self.lead, self.state = 0, "follower"


class Gen:
    def __init__(self, rng, name, length):
        self.r, self.name, self.length = rng, name, length
        self.ev = []
        self.n = Node2()
        self.T = 1                         # highest term anybody has used
        self.clog = [1, 1, 1]              # the cluster's committed log (terms), index i at position i-1
        self.leader = 0                    # current leader among the peers (1 or 3), 2 if node 2 leads, 0 none
        self.llog = {}                     # leader -> its log (terms)
        self.lterm = {}                    # leader -> its term
        self.lcommit = {}                  # leader -> its commit index
        self.match = {}                    # (leader, term) -> index node 2 acknowledged
        self.voted_same = None             # (term, candidate) node 2 just granted: a rival asks in the same term
        self.prop = 0
        self.peer_ack = {}

    # ---- helpers
    def emit(self, **e):
        self.ev.append(e)

    def maybe_fault(self, p):
        if self.r.random() < p:
            self.emit(k=self.r.choice(["restart", "restart", "crash", "crash", "crash"]))
            self.n.restart()
            if self.leader == 2:
                self.leader = 0

    # ---- node 2's reaction, modelled
    def on_vote(self, frm, term, lt, li):
        n = self.n
        if term < n.term:
            return None
        n.observe_term(term)
        can = n.vote == frm or (n.vote == 0 and n.lead == 0)
        up = lt > n.last_term() or (lt == n.last_term() and li >= n.last())
        if can and up:
            n.vote = frm
            return True
        return False

    def on_app(self, frm, term, pi, pt, ents, commit):
        n = self.n
        if term < n.term:
            return None
        n.observe_term(term, frm)
        n.lead, n.state = frm, "follower"
        if pi < n.commit:
            return ("stale", n.commit)
        if n.t(pi) != pt:
            return ("reject", pi)
        for j, t in enumerate(ents):
            i = pi + 1 + j
            if n.log.get(i) != t:
                for k in [k for k in n.log if k >= i]:
                    del n.log[k]
                n.log[i] = t
        lastnew = pi + len(ents)
        n.commit = max(n.commit, min(commit, lastnew))
        key = (frm, term)
        self.match[key] = max(self.match.get(key, 0), lastnew)
        return ("ok", lastnew)

    # ---- actions
    def peer_log_for_candidate(self, x):
        """the log candidate x holds: the committed prefix, plus what it had as a leader / what the last leader replicated to it"""
        base = list(self.clog)
        c = self.r.random()
        src = self.llog.get(self.leader) if self.leader in (1, 3) else None
        if x in self.llog and self.llog[x][:len(base)] == base and c < 0.6:
            return list(self.llog[x])
        if src and src[:len(base)] == base and c < 0.8:
            k = self.r.randint(len(base), len(src))
            return list(src[:k])
        if self.leader == 2 and c < 0.5:
            n2 = [self.n.log[i] for i in sorted(self.n.log)] if self.n.snap == 0 else None
            if n2 and n2[:len(base)] == base:
                k = self.r.randint(len(base), len(n2))
                return list(n2[:k])
        return base

    def election(self, x=None, same_term_rival=False):
        r = self.r
        x = x or r.choice([1, 3])
        if same_term_rival and self.voted_same:
            term, first = self.voted_same
            x = 4 - first
            log = list(self.clog) if r.random() < 0.3 else self.peer_log_for_candidate(x)
            # make it as tempting as possible: a log at least as long as node 2's, so only the recorded vote says no
            if r.random() < 0.8:
                n = self.n
                while len(log) < n.last():
                    log.append(n.t(len(log) + 1) or term)
            self.emit(k="vote", **{"from": x}, term=term, lt=log[-1], li=len(log))
            self.on_vote(x, term, log[-1], len(log))
            self.voted_same = None
            return
        term = self.T + r.choice([1, 1, 1, 1, 2, 3])
        self.T = term
        log = self.peer_log_for_candidate(x)
        self.emit(k="vote", **{"from": x}, term=term, lt=log[-1], li=len(log))
        g = self.on_vote(x, term, log[-1], len(log))
        if g:
            self.voted_same = (term, x)
        if self.leader == 2:
            self.leader = 0
        if r.random() < 0.75:
            # x wins (the other peer votes for it, or node 2 did)
            self.leader = x
            self.lterm[x] = term
            log.append(term)                       # the new leader's empty entry
            self.llog[x] = log
            self.lcommit[x] = len(self.clog)
        return g

    def append(self):
        r = self.r
        L = self.leader
        log, term = self.llog[L], self.lterm[L]
        if r.random() < 0.6:
            log += [term] * r.choice([1, 1, 2, 3])
        n = self.n
        # where the logs agree
        agree = 0
        for i in range(min(len(log), n.last()), 0, -1):
            if i <= n.snap:
                agree = n.snap if (i == n.snap and log[i - 1] == n.snap_term) else 0
                break
            if n.log.get(i) == log[i - 1]:
                agree = i
                break
        c = r.random()
        if c < 0.70:
            pi = agree
        elif c < 0.80:
            pi = min(len(log), agree + r.randint(1, 3))        # probing too far: rejected (or accepted if node 2 has it)
        elif c < 0.92:
            pi = max(0, agree - r.randint(1, 3))               # re-sending what node 2 has
        else:
            pi = len(log)                                      # empty append at the leader's end
        if pi < 1:
            pi = min(agree, len(log)) or 1
        k = r.choice([0, 1, 1, 2, 3, 4])
        ents = log[pi:pi + k]
        # the leader's commit index: anything of its own term (the other peer acknowledges at once), never below the cluster's
        cands = [len(self.clog)] + [i for i in range(len(self.clog) + 1, len(log) + 1) if log[i - 1] == term]
        commit = max(self.lcommit[L], r.choice(cands))
        if r.random() < 0.5:
            commit = max(self.lcommit[L], cands[-1] if r.random() < 0.5 else len(self.clog))
        self.lcommit[L] = commit
        self.clog = list(log[:commit])
        noop = [j for j in range(len(ents)) if pi + 1 + j == self.first_of_term(log, term) and log[pi + j] == term]
        e = dict(k="app", **{"from": L}, term=term, pi=pi, pt=log[pi - 1] if pi >= 1 else 0, ents=ents, commit=commit)
        if noop:
            e["noop"] = noop
        self.ev.append(e)
        return self.on_app(L, term, pi, e["pt"], ents, commit)

    @staticmethod
    def first_of_term(log, term):
        for i, t in enumerate(log):
            if t == term:
                return i + 1
        return 0

    def heartbeat(self):
        L = self.leader
        term = self.lterm[L]
        m = self.match.get((L, term), 0)
        commit = min(m, self.lcommit[L])
        self.emit(k="hb", **{"from": L}, term=term, commit=commit)
        n = self.n
        if term >= n.term:
            n.observe_term(term, L)
            n.lead = L
            n.commit = max(n.commit, commit)

    def snapshot(self):
        L = self.leader
        term = self.lterm[L]
        si = self.lcommit[L]
        n = self.n
        if si <= n.commit or si < 1:
            return False
        st = self.llog[L][si - 1]
        self.emit(k="snap", **{"from": L}, term=term, si=si, st=st)
        if term >= n.term:
            n.observe_term(term, L)
            n.lead = L
            if n.t(si) == st:
                n.commit = si
            else:
                n.log, n.snap, n.snap_term, n.commit = {}, si, st, si
            self.match[(L, term)] = max(self.match.get((L, term), 0), n.last() if n.t(si) == st and n.log else si)
        return True

    def stale_leader(self):
        """a message from a deposed leader (lower term): node 2 must stay silent"""
        old = [(x, t) for x, t in self.lterm.items() if t < self.n.term and x in (1, 3)]
        if not old:
            return False
        x, t = self.r.choice(old)
        if self.r.random() < 0.5:
            self.emit(k="hb", **{"from": x}, term=t, commit=0)
        else:
            log = self.llog[x]
            self.emit(k="app", **{"from": x}, term=t, pi=len(log), pt=log[-1], ents=[], commit=len(self.clog))
        return True

    def own_leadership(self):
        """node 2 campaigns; the peers answer; as a leader it replicates proposals and learns acknowledgements"""
        r, n = self.r, self.n
        if self.leader == 2 and n.state == "leader":
            return self.lead_steps(n.term)
        self.emit(k="campaign")
        n.term += 1
        n.vote, n.lead, n.state = 2, 0, "candidate"
        term = n.term
        fresh = term > self.T
        self.T = max(self.T, term)
        self.maybe_fault(0.15)
        if n.state != "candidate":
            return
        has_all = n.snap == 0 and [n.log[i] for i in sorted(n.log)][:len(self.clog)] == self.clog and n.last() >= len(self.clog)
        if not (fresh and has_all) or r.random() < 0.2:
            # refused: by a peer that is ahead
            if self.T > term or r.random() < 0.5:
                hi = max(self.T, term + 1)
                self.T = hi
                self.emit(k="voteresp", **{"from": r.choice([1, 3])}, term=hi, reject=True)
                n.observe_term(hi)
            else:
                self.emit(k="voteresp", **{"from": r.choice([1, 3])}, term=term, reject=True)
            return
        p = r.choice([1, 3])
        self.emit(k="voteresp", **{"from": p}, term=term)
        n.state, n.lead = "leader", 2
        self.leader = 2
        n.log[n.last() + 1] = term
        self.maybe_fault(0.12)
        self.acked2 = {1: 0, 3: 0}
        self.lead_steps(term)

    def lead_steps(self, term):
        r, n = self.r, self.n
        steps = r.randint(1, 6)
        acked = self.acked2
        for _ in range(steps):
            if n.state != "leader":
                return
            c = r.random()
            if c < 0.45:
                self.prop += 1
                self.emit(k="propose", id="%s-p%d" % (self.name, self.prop))
                n.log[n.last() + 1] = term
            elif c < 0.85:
                q = r.choice([1, 3])
                idx = r.randint(max(acked[q], 1), n.last())
                acked[q] = max(acked[q], idx)
                self.emit(k="appresp", **{"from": q}, term=term, index=idx)
                if n.t(idx) == term and idx > n.commit:
                    n.commit = idx
                    self.clog = [n.log[i] for i in sorted(n.log) if i <= idx]
            elif c < 0.93:
                self.emit(k="hbresp", **{"from": r.choice([1, 3])}, term=term)
            else:
                self.emit(k="wait", ms=230)          # one tick of the node's 200 ms clock: as a leader it sends heartbeats (commit index inside)
            self.maybe_fault(0.12)

    def run(self):
        r = self.r
        fault_p = r.choice([0.08, 0.15, 0.15, 0.25])
        while len(self.ev) < self.length:
            c = r.random()
            if self.voted_same and c < 0.45:
                # right after a grant: maybe restart, then the rival asks in the same term
                self.maybe_fault(0.6)
                self.election(same_term_rival=True)
            elif self.leader in (1, 3):
                if c < 0.50:
                    res = self.append()
                    if res and res[0] == "ok":
                        self.maybe_fault(fault_p)
                elif c < 0.62:
                    self.heartbeat()
                elif c < 0.68:
                    self.snapshot()
                elif c < 0.72:
                    self.stale_leader()
                elif c < 0.90:
                    self.election(x=4 - self.leader if r.random() < 0.7 else None)   # the partitioned peer campaigns
                else:
                    self.own_leadership()
            else:
                if c < 0.75:
                    self.election()
                else:
                    self.own_leadership()
            self.maybe_fault(fault_p / 2)
        if r.random() < 0.5:
            self.emit(k=r.choice(["restart", "crash"]))
        return dict(name=self.name, events=self.ev)


V = dict(k="vote", lt=1, li=3)
FIXED = [
    # the seeded change's demonstration: vote for 1 in term 5, restart, candidate 3 asks in term 5 -> must be refused
    dict(name="fixed-vote-restart-rival", events=[dict(V, **{"from": 1}, term=5), dict(k="restart"), dict(V, **{"from": 3}, term=5)]),
    dict(name="fixed-vote-crash-rival", events=[dict(V, **{"from": 1}, term=5), dict(k="crash"), dict(V, **{"from": 3}, term=5)]),
    dict(name="fixed-selfvote-crash-rival", events=[dict(k="campaign"), dict(k="crash"), dict(V, **{"from": 3}, term=2)]),
    dict(name="fixed-term-only-crash", events=[dict(k="hb", **{"from": 1}, term=7, commit=0), dict(k="crash"), dict(V, **{"from": 3}, term=7),
                                               dict(k="restart"), dict(V, **{"from": 1}, term=7)]),
    dict(name="fixed-append-crash", events=[dict(V, **{"from": 1}, term=2), dict(k="app", **{"from": 1}, term=2, pi=3, pt=1, ents=[2, 2, 2], noop=[0], commit=3),
                                            dict(k="crash"), dict(k="app", **{"from": 1}, term=2, pi=6, pt=2, ents=[2], commit=6), dict(k="crash"),
                                            dict(k="hb", **{"from": 1}, term=2, commit=7)]),
    dict(name="fixed-conflict-crash", events=[dict(V, **{"from": 1}, term=2), dict(k="app", **{"from": 1}, term=2, pi=3, pt=1, ents=[2, 2, 2], noop=[0], commit=4),
                                              dict(V, **{"from": 3}, term=3, lt=2, li=4), dict(k="app", **{"from": 3}, term=3, pi=4, pt=2, ents=[3, 3], noop=[0], commit=4),
                                              dict(k="crash"), dict(k="app", **{"from": 3}, term=3, pi=6, pt=3, ents=[3], commit=6)]),
    # a follower acknowledges the leader's snapshot and is killed before its next append (repaired defect: the WAL was not synced)
    dict(name="fixed-snapshot-crash", events=[dict(V, **{"from": 1}, term=2), dict(k="app", **{"from": 1}, term=2, pi=3, pt=1, ents=[2, 2, 2], noop=[0], commit=3),
                                              dict(k="snap", **{"from": 1}, term=2, si=12, st=2), dict(k="crash"), dict(k="hb", **{"from": 1}, term=2, commit=12),
                                              dict(k="app", **{"from": 1}, term=2, pi=12, pt=2, ents=[2], commit=12)]),
    dict(name="fixed-leader-ack-crash", events=[dict(k="campaign"), dict(k="voteresp", **{"from": 1}, term=2), dict(k="propose", id="fx-p1"), dict(k="propose", id="fx-p2"),
                                                dict(k="appresp", **{"from": 1}, term=2, index=6), dict(k="crash"), dict(V, **{"from": 3}, term=2, lt=2, li=9)]),
]


def generate(seed, count, salt=0):
    rng = random.Random(seed * 104729 + 811 + salt)
    out = []
    for i in range(count):
        length = rng.choice([6, 10, 14, 18, 24, 32])
        out.append(Gen(random.Random(rng.getrandbits(48)), "s%d-%d" % (seed, i + salt), length).run())
    return out


# ------------------------------------------------------------------------------------------ running

def _tmp_base():
    if os.environ.get("VERIF_TMP"):
        return os.environ["VERIF_TMP"]
    if os.path.isdir("/dev/shm") and os.access("/dev/shm", os.W_OK):
        return "/dev/shm"          # every life of the node fsyncs; a disk-backed temp dir costs 10 ms per fsync
    return None


def run_batch(binary, scenarios, scratch, timeout=600, extra_env=None):
    """scenarios through harness processes; a process that dies takes the scenario it was playing with it (reported as `crash`) and the
    rest is continued in a new process.  Returns reports in scenario order."""
    reports, i, restarts = [], 0, 0
    deadline = time.time() + timeout
    while i < len(scenarios):
        env = core.goenv()
        env["VERIF_TMP"] = scratch
        env.update(extra_env or {})
        data = "".join(json.dumps(s) + "\n" for s in scenarios[i:]).encode()
        try:
            p = subprocess.run([binary, "readyloop"], input=data, stdout=subprocess.PIPE, stderr=subprocess.PIPE, env=env,
                               timeout=max(5, deadline - time.time()))
            so, se, rc = p.stdout, p.stderr, p.returncode
        except subprocess.TimeoutExpired as e:
            so, se, rc = e.stdout or b"", e.stderr or b"", -9
        got = []
        for l in so.decode("utf-8", "replace").split("\n"):
            if l.strip():
                try:
                    got.append(json.loads(l))
                except ValueError:
                    pass
        reports += got
        i += len(got)
        if got and got[-1].get("poisoned"):
            continue                      # the engine ended its process on purpose (a node that could not be stopped); go on in a new one
        if i < len(scenarios):
            tail = se.decode("utf-8", "replace")
            k = tail.rfind("panic:")
            k = k if k >= 0 else tail.rfind("fatal")
            tail = tail[k:k + 1500] if k >= 0 else tail[-600:]
            timed_out = rc == -9
            reports.append(dict(scenario=scenarios[i]["name"], result="timeout" if timed_out else "crash", events_run=0,
                                error="the harness process %s while playing this scenario: %s" % ("timed out" if timed_out else "died (rc=%s)" % rc, tail)))
            i += 1
            restarts += 1
            if timed_out or restarts > 20:
                for s in scenarios[i:]:
                    reports.append(dict(scenario=s["name"], result="not-run", events_run=0, error="not run (time budget / too many crashes)"))
                break
    return reports


def run_parallel(binary, scenarios, scratch, workers, timeout, snapcount_every=3):
    """split over `workers` processes; every `snapcount_every`-th worker runs with a snapshot threshold of 3 entries (hook H3's
    VERIF_SNAPCOUNT), so that node 2 takes and reloads its own snapshots"""
    import concurrent.futures
    chunks = [scenarios[k::workers] for k in range(workers)]
    res = {}
    with concurrent.futures.ThreadPoolExecutor(max_workers=workers) as ex:
        futs = []
        for k, ch in enumerate(chunks):
            env = {"VERIF_SNAPCOUNT": "3"} if (k % snapcount_every == snapcount_every - 1) else {"VERIF_SNAPCOUNT": ""}
            d = os.path.join(scratch, "w%d" % k)
            os.makedirs(d, exist_ok=True)
            env["VERIF_RL_RD"] = os.path.join(d, "rd.txt")   # RD lines for the Lean driver's `ready` engine (harness/readyrd.go)
            futs.append((ch, env, ex.submit(run_batch, binary, ch, d, timeout, env)))
        for ch, env, f in futs:
            for s, r in zip(ch, f.result()):
                r["_env"] = env
                res[s["name"]] = r
    return [res[s["name"]] for s in scenarios]


def failing(r):
    return r.get("result") in ("violation", "crash")


def minimise(binary, sc, rep, scratch, env, budget=50):
    """shortest event list (greedy single deletions) that still fails in the same way"""
    want = (rep.get("violation") or {}).get("clause") if rep.get("result") == "violation" else "crash"

    def same(r):
        if want == "crash":
            return r.get("result") == "crash"
        return r.get("result") == "violation" and r["violation"]["clause"] == want

    ev = list(sc["events"])
    if rep.get("result") == "violation":
        ev = ev[:rep["violation"]["at"] + 1]
    best = rep
    runs = 0
    r = run_batch(binary, [dict(name=sc["name"], events=ev)], scratch, 60, env)[0]
    runs += 1
    if not same(r):
        return sc["events"], rep, runs       # not reproducible from the prefix alone: keep the whole scenario
    best = r
    i = len(ev) - 2
    while i >= 0 and runs < budget:
        cand = ev[:i] + ev[i + 1:]
        r = run_batch(binary, [dict(name=sc["name"], events=cand)], scratch, 60, env)[0]
        runs += 1
        if same(r):
            ev, best = cand, r
        i -= 1
    return ev, best, runs


def consequence(binary, ev, scratch, env):
    """for a vote that was answered before it was on disk: play on (restart, then the rival candidate asks in the same term) although the
    clause has already failed, and return the engine's lines that show what follows - the second grant in one term"""
    last = ev[-1] if ev else {}
    if last.get("k") != "vote" or last.get("from") not in (1, 3):
        return None
    rival = dict(k="vote", **{"from": 4 - last["from"]}, term=last["term"], lt=max(last.get("lt", 1), last["term"]), li=last.get("li", 3) + 50)
    sc = dict(name="consequence", events=list(ev) + [dict(k="restart"), rival])
    e = dict(env or {})
    e.update(VERIF_RL_CONTINUE="1", VERIF_RL_TRACE="1")
    r = run_batch(binary, [sc], scratch, 60, e)[0]
    lines = [l for l in (r.get("trace") or []) if "VIOLATION" in l or "ALSO" in l or "MsgVoteResp" in l or "restarted" in l]
    return dict(scenario=sc, lines=lines[:20])


EXPLAIN = {
    "E1": "a message of term T left the node while its WAL holds a lower term: a restart forgets a term the node has already spoken in",
    "E2": "the node answered a candidate (or asked for votes itself) before (term, votedFor) was on disk: after a restart it votes again in the same "
          "term, two candidates can each count a majority, two leaders in one term (C15 election safety), acknowledged writes diverge",
    "E3": "the node acknowledged log entries (or a snapshot) to its leader that a restart would not find on disk: the leader counts this node in the "
          "quorum that commits (and acknowledges to clients) entries this node can lose",
    "E4": "an entry was handed to the state machine (and its client answered) that is not in the on-disk log: an acknowledged write a restart loses",
    "E5": "after a restart the node is behind what it externalised before (term, vote, acknowledged or applied entries), or it voted for two "
          "candidates in one term across the restart",
    "E6": "as a leader the node announced a commit index whose quorum needs its own copy, and that copy is not on disk",
    "crash": "the node's process died (raft panics when its log is shorter than what it acknowledged: `tocommit out of range`, `conflict with committed entry`)",
}


def run_suite(R, ctx, binary, f4=None):
    """the extra suite of C08.  f4: result of clustersuite.fact_f4 (F4d decides whether a structural break without a failing scenario is reported)."""
    quick = R.tier == "quick"
    count = 1200 if quick else 20000
    workers = min(6, max(2, (os.cpu_count() or 2)))
    scen = [dict(s) for s in FIXED] + generate(R.seed, count)
    t0 = time.time()
    base = _tmp_base()
    old = os.environ.get("VERIF_TMP")
    if base:
        os.environ["VERIF_TMP"] = base
    try:
        with core.Workdir() as wd:
            reports = run_parallel(binary, scen, wd, workers, 120 if quick else 2400)
            rd_lines = []
            for k in range(workers):
                try:
                    rd_lines += [l for l in open(os.path.join(wd, "w%d" % k, "rd.txt")).read().split("\n") if l.startswith("RD ")]
                except OSError:
                    pass
            # is the judge awake?  the same demonstration with the oracle pointed at an empty directory must be reported
            blind = run_batch(binary, [FIXED[0]], wd, 60, {"VERIF_RL_BLIND_DISK": "1"})[0]
            bad = [(s, r) for s, r in zip(scen, reports) if failing(r)]
            minimised = []
            for s, r in bad[:3]:
                ev, best, runs = minimise(binary, s, r, wd, r.get("_env"), budget=40 if quick else 120)
                cons = consequence(binary, ev, wd, r.get("_env")) if (best.get("violation") or {}).get("clause") in ("E1", "E2") else None
                minimised.append((s, r, ev, best, runs, cons))
    finally:
        if base:
            if old is None:
                os.environ.pop("VERIF_TMP", None)
            else:
                os.environ["VERIF_TMP"] = old
    wall = time.time() - t0

    def tot(key):
        d = {}
        for r in reports:
            for k, v in (r.get(key) or {}).items():
                d[k] = d.get(k, 0) + v
        return dict(sorted(d.items()))
    ran = [r for r in reports if r.get("result") in ("ok", "violation")]
    errors = [r for r in reports if r.get("result") in ("error", "timeout", "not-run")]
    noresp = sum(r.get("no_response", 0) for r in ran)
    clauses = tot("clauses")
    ok = not bad and not errors and len(reports) == len(scen)
    R.oblige(OBLIGATION + " (clauses E1-E6 of harness/readyloop.go judged against a read-only read of the node's WAL and snapshot directories at the "
             "moment of every Send / commit delivery / restart)", "oracle", ok,
             "%d scenarios, %d failing, %d not judged; clause evaluations %s" % (len(scen), len(bad), len(errors), clauses))
    R.oblige("readyloop: the engine ran every scenario to its end and the node answered every request it must answer", "exploration",
             not errors and noresp == 0, "%d errors, %d missing responses%s" % (len(errors), noresp, (": " + str(errors[0].get("error"))[:300]) if errors else ""))
    # tie (b) of the loop model: the model's replayWAL (ReadyLoop.replayRecs, what C08Ready.persist_before_externalise speaks about) against the real
    # recovery functions on the raw WAL records + snapshot files of the node at the moment of every observed Send
    rd_lines = rd_lines[:60000]
    if rd_lines:
        dd = core.run_driver(rd_lines, timeout=900)
        core.negative_control(R, rd_lines, "ready")
        rd_ok = not dd["mismatches"] and not dd["unknown"]
        with_snap = sum(1 for l in rd_lines if l.split(" ")[2] != "-")
        R.oblige("correspondence ready: ReadyLoop.replayRecs (the model's replayWAL) reconstructs the hard state, snapshot and entries that "
                 "wal.ValidSnapshotEntries / LoadNewestAvailable / ReadAll read from the node's directories at the moment of a Send, and its view keeps "
                 "the promise of the message (RD lines)", "correspondence", rd_ok,
                 "%d lines (%d with snapshot files), %d mismatches, %d unknown" % (len(rd_lines), with_snap, len(dd["mismatches"]), len(dd["unknown"])))
        R.add_cases(len(rd_lines), int(dd["summary"].get("positive", 0) or 0), samples=rd_lines[:2])
        R.suites.append(dict(name="ready", lines=len(rd_lines), with_snapshot_files=with_snap, mismatches=len(dd["mismatches"]),
                             driver_s=round(dd["seconds"], 1)))
        for mm in (dd["mismatches"] + dd["unknown"])[:2]:
            R.violation("ready-" + core.sha(mm), dict(
                kind="impl-violates-spec", engine="ready", lines=[mm.split(" :: ", 1)[-1]], summary=mm[:500],
                explanation="the loop model's replayWAL and the real recovery functions disagree on the same WAL records and snapshot files (or the "
                            "view a restart reconstructs does not keep the promise of a message being sent): either the model the theorem "
                            "C08Ready.persist_before_externalise is about is not the code's recovery, or the node externalised before persisting"))
    else:
        R.oblige("correspondence ready: RD lines were produced by the readyloop engine", "correspondence", False, "no RD lines")
    blind_ok = blind.get("result") == "violation"
    R.oblige("negative control readyloop: with the oracle pointed at an empty directory the vote of the demonstration scenario is reported", "control",
             blind_ok, "%s %s" % (blind.get("result"), (blind.get("violation") or {}).get("clause")))
    if not blind_ok:
        R.violation("negative-control-readyloop", dict(kind="tie-broken", summary="the readyloop oracle did not object when it was shown an empty WAL "
                                                       "directory: it is not judging", report=blind), found_input=False)
    nontrivial = sum(1 for r in ran if r.get("lives", 0) > 1 and any((r.get("clauses") or {}).get(c, 0) for c in ("E2", "E3", "E4")))
    R.add_cases(sum(clauses.values()), nontrivial, samples=[json.dumps(s)[:380] for s in scen[:1] + scen[len(FIXED):len(FIXED) + 2]])
    dist = dict(scenarios=len(scen), fixed=len(FIXED), generated=count, events_played=sum(r.get("events_run", 0) for r in reports),
                lives=sum(r.get("lives", 0) for r in ran), inbound=tot("in"), outbound_observed=tot("out"), clause_evaluations=clauses,
                vote_grants=sum(r.get("grants", 0) for r in ran), vote_rejections=sum(r.get("vote_rejects", 0) for r in ran),
                append_accepts=sum(r.get("app_accepts", 0) for r in ran), append_rejections=sum(r.get("app_rejects", 0) for r in ran),
                delivered_on_commit_channel=sum(r.get("delivered", 0) for r in ran), snapshot_signals=sum(r.get("snapshot_signals", 0) for r in ran),
                e2_inconclusive=sum(r.get("inconclusive", 0) for r in ran), skipped_nonconforming_leader_events=sum(r.get("skipped_unsafe", 0) for r in ran),
                posted_by_rafthttp_to_peer_endpoints=sum(r.get("posted_to_peers", 0) for r in ran), disk_reads=sum(r.get("disk_reads", 0) for r in ran),
                workers=workers, tmp=base or "default", wall_s=round(wall, 1), generator="vlib/readygen.py Gen v1")
    R.extra["readyloop"] = dist
    R.suites.append(dict(name="readyloop", scenarios=len(scen), failing=len(bad), errors=len(errors), lives=dist["lives"],
                         clause_evaluations=sum(clauses.values()), seconds=round(wall, 1)))
    seen = set()
    for s, r, ev, best, runs, cons in minimised:
        if json.dumps(ev) in seen:
            continue
        seen.add(json.dumps(ev))
        v = best.get("violation") or {}
        clause = v.get("clause") or best.get("result")
        sc = dict(name=s["name"], events=ev)
        R.violation("readyloop-%s-%s" % (clause, core.sha(json.dumps(ev))), dict(
            kind="impl-violates-spec", engine="readyloop", clause=clause, scenario=sc, lines=[json.dumps(sc)], env=r.get("_env"),
            summary="readyloop %s at event %s of %s (%d events after minimisation, %d before): %s" % (
                clause, v.get("at", "?"), s["name"], len(ev), len(s["events"]), (v.get("detail") or best.get("error") or "")[:900]),
            trace=best.get("trace"), what_follows=cons, report={k: x for k, x in best.items() if k not in ("trace", "_env")}, minimiser_runs=runs,
            explanation=EXPLAIN.get(clause, "")), found_input=True)
    if errors and not bad:
        R.violation("readyloop-not-judged", dict(kind="tie-broken", summary="the readyloop engine could not judge %d scenario(s): %s" % (
            len(errors), str(errors[0].get("error"))[:800]), report=errors[0]), found_input=False)
    return dict(ok=ok, failing=len(bad), errors=len(errors))


def replay(R, payload):
    binary, err = core.build_harness()
    if not binary:
        print(err)
        return 1
    sc = payload.get("scenario")
    if not sc:
        print(payload.get("summary", "nothing to replay"))
        return 1
    base = _tmp_base()
    if base:
        os.environ["VERIF_TMP"] = base
    env = dict(payload.get("env") or {})
    env["VERIF_RL_TRACE"] = "1"
    with core.Workdir() as wd:
        r = run_batch(binary, [sc], wd, 120, env)[0]
    for l in r.pop("trace", None) or []:
        print("TRACE", l)
    print(json.dumps(r, indent=1)[:4000])
    bad = failing(r) or r.get("result") != "ok"
    print("replay: %s" % ("still failing" if bad else "no longer failing"))
    return 1 if bad else 0
