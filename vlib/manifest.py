#!/usr/bin/env python3
"""Regenerates /verif/MANIFEST.json from the per-property metadata below (so it is valid at all times)."""
import json
import os
import sys

sys.path.insert(0, os.path.dirname(os.path.dirname(os.path.abspath(__file__))))
from vlib import core  # noqa: E402

CHECKS = {
    "C17": dict(
        category="proof", design_ref="DESIGN.md §6 C17", engine="glob",
        technique="Lean 4 theorem (scanner = grammar semantics, all patterns/subjects) + differential correspondence with util.PattenMatch",
        text="Kernel-checked theorem GlobEq.C17_agrees: the model scanner (list-recursive mirror of util.PattenMatch) equals the token-grammar "
             "semantics for every pattern and subject; C17_broken: unparsable patterns match nothing; totality by Lean's termination checker. "
             "The model is tied to the Go function by running both on every (pattern, subject) up to a length bound over an alphabet with every "
             "metacharacter, and on random long/binary pairs.",
        note="Trusted: Lean kernel (axioms propext, Classical.choice, Quot.sound), the Go harness and driver, Go string semantics as mirrored by "
             "list recursion. KEYS' keyspace iteration is covered under C01's exec engine.",
    ),
}

CHECKS["C02"] = dict(
    category="proof", design_ref="DESIGN.md §6 C02", engine="parser",
    technique="Lean 4 theorem (encode/parse round trip for every pipeline, parser total) + differential correspondence with resp.ParseStream under arbitrary chunking",
    text="Kernel-checked theorems Resp.C02_roundtrip and C02_compositional: the model of resp/parser.go's state machine decodes every pipeline of "
         "commands over arbitrary byte strings into exactly the encoded arguments and resets fully between commands; every model access is "
         "checked, so the model has no crash outcome. Tied to the code by feeding well-formed and malformed streams to resp.ParseStream whole, "
         "byte by byte and in random chunks and comparing the full event list with the model's.",
    note="Trusted: Lean kernel (propext, Classical.choice, Quot.sound), harness/driver, bufio/io.ReadFull semantics. Bulk arguments below 512 MiB. "
         "Isolation between connections (nothing executed after a protocol error) is exercised through the serve engine under C03.",
)

CHECKS["C01"] = dict(
    category="proof", design_ref="DESIGN.md §6 C01", engine="exec",
    technique="Lean 4 executable keyspace model with theorems on its index/overflow arithmetic + differential correspondence (replies and keyspace dumps) on generated command programs",
    text="The string/key executors are modelled as total Lean functions on an association-list keyspace with deadlines (Exec/StringKeys.lean); "
         "kernel-checked theorems cover GETRANGE/SETRANGE index arithmetic for all indexes (never out of range), exact-or-rejected INCR arithmetic "
         "and the model-level laws in Props. The model is tied to the Go executors by running generated programs (all SET option combinations, "
         "numeric extremes, binary/case-variant keys, arity damage) through server.Manager.ExecCommand and comparing every reply and the dump of "
         "the touched keys with the model.",
    note="Trusted: Lean kernel (propext, Classical.choice, Quot.sound), harness/driver/dump hook, strconv mirrored by the model's integer parser. "
         "Error replies compared by class; INCRBYFLOAT arithmetic taken from the implementation (checker mode).",
)

CHECKS["C16"] = dict(
    category="proof", design_ref="DESIGN.md §6 C16", engine="wal",
    technique="Lean 4 theorems on the WAL/snapshot byte format, CRC-32C single-byte detection and the sector-atomic torn-tail argument "
              "(conditional on NoCollision) + byte-for-byte image correspondence and fault enumeration (torn sector subsets, single-byte "
              "corruption) on the real wal/snap packages, each case checked against the Lean model's verdict and the property's oracle",
    text="Proved (kernel-checked, lean/registry.json C16): CRC-32C as hash/crc32.Update detects every single-byte change (crc_single_byte); "
         "varint / walpb.Record / frame-length / frame round trips on the concrete bytes; a record sequence written through the rolling CRC, "
         "also across a segment cut with its crc-seed record, reads back exactly and stops at the preallocated zeros; one changed payload "
         "byte of a record or of a snapshot file is reported as a CRC error after the untouched prefix; changed padding bytes change "
         "nothing; a damaged newest snapshot falls back to the next intact matching one on the loadMatching model; and the torn-tail "
         "theorem (every synced record, then a whole-record prefix of the unsynced ones, ending EOF or torn at the offset Repair "
         "truncates to) for the real frame layout under the explicit hypothesis NoCollision — the unconditional multi-sector statement "
         "C16_statement is false for a 32-bit CRC and is not claimed. NOT proved but enumerated on the real code (fault enumeration, not "
         "proof): multi-sector tears (all subsets of <= 6 unsynced tail sectors per crash point, seeded random subsets beyond) and "
         "single-byte corruption of framing bytes (frame length field, protobuf tags, type, crc field, length varints), payload, padding "
         "and the zero tail with {0x00, low bit flipped, 0xff}: wal.OpenForRead/Open+ReadAll, Verify, Repair+reopen and "
         "snap.Load/LoadNewestAvailable results are compared with the Lean file-level model on the same mutilated image and with the "
         "property's oracle. Segment images of generated Save/SaveSnapshot/cut sequences are compared byte for byte with the model writer.",
    note="Trusted: Lean kernel (propext, Classical.choice, Quot.sound), harness/driver (the driver resumes the model's own read loop from "
         "its recorded state before the changed byte; every 47th case is re-evaluated from scratch), sector-atomic storage with "
         "preallocated zero-filled segments, os/fsync/rename, gogo unmarshalers mirrored for walpb.Record, raftpb.Entry/HardState, "
         "walpb.Snapshot, snappb.Snapshot (raftpb.ConfState opaque). Known finding wal/corrupt/type-byte: the CRC does not cover the "
         "record type. A commit-only HardState is not fsynced by design (raft.MustSync); the oracle uses the code's own sync points.",
)

NOT_YET = "check not built yet in this round; see DESIGN.md §8"
NOT_APPLICABLE = {}


def main():
    props = [json.loads(l)["id"] for l in open(os.path.join(core.VERIF, "properties.jsonl"))]
    checks = []
    for pid in props:
        c = CHECKS.get(pid)
        if not c:
            continue
        checks.append(dict(
            property_id=pid,
            quick_cmd="./check %s --tier quick" % pid,
            thorough_cmd="./check %s --tier thorough" % pid,
            evidence_file="/verif/evidence/%s.json" % pid,
            replay_cmd_template="./check %s --replay {path}" % pid,
            engine=c["engine"],
            level_claimed=dict(category=c["category"], text=c["text"], design_ref=c["design_ref"]),
            level_note=c["note"],
            technique=c["technique"],
        ))
    na = [dict(property_id=p, reason=NOT_APPLICABLE.get(p, NOT_YET)) for p in props if p not in CHECKS]
    hooks = json.load(open(os.path.join(core.VERIF, "hooks.json")))
    m = dict(
        version=1,
        setup_cmd="cd /verif/lean && lake build RedisGoModel driver && cd /verif && ./check setup",
        hooks=hooks,
        engines=json.load(open(os.path.join(core.VERIF, "engines.json"))),
        checks=checks,
        notes="Lean 4 proofs about an executable model + checked correspondence with the Go code; see DESIGN.md. "
              "known_findings.txt lists recorded and fixed defects.",
        not_applicable=na,
    )
    json.dump(m, open(os.path.join(core.VERIF, "MANIFEST.json"), "w"), indent=1)
    print("MANIFEST.json: %d checks, %d not claimed" % (len(checks), len(na)))


if __name__ == "__main__":
    main()
