#!/usr/bin/env python3
"""Regenerates /verif/MANIFEST.json from the per-property metadata below (so it is valid at all times)."""
import json
import os
import sys

sys.path.insert(0, os.path.dirname(os.path.dirname(os.path.abspath(__file__))))
from vlib import core  # noqa: E402

CHECKS = {
    "C17": dict(
        category="proof", design_ref="DESIGN.md §6 C17", engine="glob",
        technique="Lean 4 theorem (scanner = grammar semantics, all patterns/subjects) + differential correspondence with util.PattenMatch",
        text="Kernel-checked theorem GlobEq.C17_agrees: the model scanner (list-recursive mirror of util.PattenMatch) equals the token-grammar "
             "semantics for every pattern and subject; C17_broken: unparsable patterns match nothing; totality by Lean's termination checker. "
             "The model is tied to the Go function by running both on every (pattern, subject) up to a length bound over an alphabet with every "
             "metacharacter, and on random long/binary pairs. KEYS under concurrency (Props/C05Walk.lean on the micro-step model Conc/MapWalk.lean of "
             "concurrentmap.go — shards with RW locks, writers running arbitrary Set/SetIfNotExist/Delete programs, Keys() walking shard by shard): "
             "walk_sees_stable_keys (a key present from before the walk until after it is listed exactly once, however often it is overwritten), "
             "walk_only_lists_keys_present_sometime, walk_no_duplicates; negative theorems with concrete runs: overwrite as delete-then-insert "
             "(overwrite_two_step_loses_key) and a walk that stops after count keys (walkSeesStable_false_for_stopAtCap) both lose a stable key.",
        note="Trusted: Lean kernel (axioms propext, Classical.choice, Quot.sound), the Go harness and driver, Go string semantics as mirrored by "
             "list recursion. KEYS' keyspace iteration is covered under C01's exec engine; the shard-walk model is tied to the code by reading and by "
             "the stress scenario keysstable, not differentially.",
    ),
}

CHECKS["C02"] = dict(
    category="proof", design_ref="DESIGN.md §6 C02", engine="parser + serve (+ real binary in the thorough tier)",
    technique="Lean 4 theorems (encode/parse round trip for every pipeline; for arbitrary bytes: shape, soundness of every delivered command, named error cases; "
              "fragmentation independence of a chunked reader model) + differential correspondence with resp.ParseStream under arbitrary chunking",
    text="Kernel-checked theorems Resp.C02_roundtrip and C02_compositional: the model of resp/parser.go's state machine decodes every pipeline of "
         "commands over arbitrary byte strings into exactly the encoded arguments and resets fully between commands; every model access is "
         "checked, so the model has no crash outcome. For ARBITRARY input bytes (Props/C02.lean): C02.stream_ends_with_one_eof / shape (what the Handle loop "
         "consumes is data events then exactly one err or eof; nothing after the first err is looked at; naive_shape_false records that the raw parser "
         "list does continue after an error, as parser.go does), prefix_stable and isolation (any junk after a well-formed pipeline leaves its decoding "
         "unchanged; a pipeline followed by an err-yielding frame executes exactly the pipeline), no_spurious_command / executed_command_has_frame (every "
         "array the parser delivers from any input is backed by a contiguous frame of the input whose header numeral is the element count and whose bulk "
         "numerals are the payload lengths), and the named malformed frames each yield err in any array state (length not fitting int64, above 512 MiB, "
         "negative other than -1, non-numeric, LF without CR, bare LF, bulk body without CR LF). C02.fragmentation_independent: the incremental reader of "
         "Resp/Chunked.lean (ReadBytes / ReadFull over a buffer carried between reads) yields for every list of chunks exactly parseLoop of the concatenation. "
         "Tied to the code by feeding well-formed and malformed streams to resp.ParseStream whole, byte by byte and in random chunks and comparing the full "
         "event list with the model's; the driver also runs the chunked reader on the very chunk boundaries the harness's reader handed out (field k= of each line). "
         "Thorough tier only: idle/gap sweep on the REAL binary started with a three-line configuration (vlib/idlesweep.py): 62 connections silent for 0..305 s, then a SET+GET "
         "pipeline in two pieces 5.6 s apart (cut inside a payload, a header line, a CRLF); each must answer as if written whole (fragmentation independence includes WHEN the pieces arrive).",
    note="Trusted: Lean kernel (propext, Classical.choice, Quot.sound), harness/driver, that bufio.Reader.ReadBytes / io.ReadFull implement the modelled reader. "
         "Bulk arguments below 512 MiB. Isolation between connections (nothing executed after a protocol error) is also exercised through the serve engine.",
)

CHECKS["C01"] = dict(
    category="proof", design_ref="DESIGN.md §6 C01", engine="exec",
    technique="Lean 4 executable keyspace model with theorems on its index/overflow arithmetic + differential correspondence (replies and keyspace dumps) on generated command programs",
    text="The string/key executors are modelled as total Lean functions on an association-list keyspace with deadlines (Exec/StringKeys.lean); "
         "kernel-checked theorems cover GETRANGE/SETRANGE index arithmetic for all indexes (never out of range), exact-or-rejected INCR arithmetic "
         "and the model-level laws in Props. The model is tied to the Go executors by running generated programs (all SET option combinations, "
         "numeric extremes, binary/case-variant keys, arity damage) through server.Manager.ExecCommand and comparing every reply and the dump of "
         "the touched keys with the model.",
    note="Trusted: Lean kernel (propext, Classical.choice, Quot.sound), harness/driver/dump hook, strconv mirrored by the model's integer parser. "
         "Error replies compared by class; INCRBYFLOAT arithmetic taken from the implementation (checker mode).",
)

CHECKS["C03"] = dict(
    category="proof", design_ref="DESIGN.md §6 C03", engine="serve + rendezvous",
    technique="Lean 4 theorems (decoder inverts reply encoder; one reply per command in order on the connection-loop model) + differential correspondence on raw reply byte streams",
    text="Resp.decode_encode/decodeList_encode: an independent RESP2 decoder inverts the reply encoder for every reply (nested arrays, arbitrary bulk bytes). "
         "Exec.one_reply_per_command, replies_in_order, nothing_after_error: the model of Manager.Handle writes exactly one reply per array command, in "
         "order, and executes nothing after a protocol error. The raw bytes Manager.Handle writes for generated multi-connection pipelines are decoded by "
         "that verified decoder (all bytes consumed) and compared value by value with the model; the exec engine does the same for every executor reply. "
         "Exec.Global.C03_exec_wf / C03_client_decodes / C03_program_wf: for all 77 commands of the table, every database and every argument vector the "
         "model's reply is well-framed (simple strings and error lines are LF-free constants; payload bytes only inside bulk strings), so a conforming "
         "client decodes exactly that reply whatever bytes are stored (hypothesis: an error text adopted from the observed reply in checker mode is "
         "itself a decoded error line; obs_hypothesis_needed shows it cannot be dropped). Parallel sessions (4-10 connections owning disjoint keys, "
         "large array replies written at the same moment) check that each client receives exactly its own replies. Fact F6, regenerated from the Go "
         "source on every run (harness/sites.go -> Generated/ReplySites.lean -> Props/C03Sites.lean): ReplySites.no_client_bytes_in_line_replies - no call of "
         "MakeStringData / MakeErrorData / MakeWrongNumberArgs / MakePlainData receives an expression derived from the command words (per-function taint through "
         "indexing, conversions, strings.*, fmt.Sprintf, concatenation, locals); ReplySites.inventory - the calls with a non-constant payload are exactly a "
         "reviewed list; a broken obligation aims CR/LF-carrying sessions at the executors concerned and is reported with the framing break found, or as no-failing-input-found. "
         "Cluster-mode connection loop (Manager.HandleCluster + handleClusterCommits): Rendezvous.own_reply (shared with C07) - the k-th value delivered to a connection is the reply of its own "
         "k-th submitted command and no connection ever has more replies than submissions; waiter_never_stuck_after_apply; tied by the rendezvous engine (the harness plays raft; 150 scenarios quick, 3 000 thorough).",
    note="Trusted: Lean kernel, harness (net.Pipe, sentinel PING framing), driver, the F6 extractor (helpers receiving a string parameter are not followed). The theorem is about the model; the Go encoder is tied by the "
         "byte-level comparison. Scheduler and socket behaviour under concurrent connections are explored, not proved.",
)
CHECKS["C19"] = dict(
    category="proof", design_ref="DESIGN.md §6 C19, §10.11", engine="serve+conc",
    technique="Lean 4 theorems (history-level exactly-once delivery; subscription table refinement; micro-step concurrency model of the subscription table: "
              "lock order, deadlock freedom, per-channel linearizability with helping) + differential correspondence of pushes/counts + per-goroutine lock/access "
              "event automaton on every run (hook H2b) + concurrent exploration (-race)",
    text="PubSub.delivery_exact/publish_count: for every operation sequence each connection receives exactly the messages published while it was subscribed, "
         "once, in order, and PUBLISH counts them. Exec.subs_subscribe/subs_disconnect/publish_delivers/targets_once/subs_nodup tie the executable "
         "connection-layer model to that abstract table. Sessions of subscribers, publishers and disconnects against Manager.Handle are compared byte for "
         "byte (pushes drained per connection, counts) with the model. Concurrency: PSC (Conc/PubSubConc.lean) models ChanMap.Send/Subscribe/UnSubscribe as their exact "
         "lock/unlock/read/write steps for any number of goroutines (Go RWMutex writer preference, Send's two separate critical sections, pruning of dead connections, "
         "fresh channel objects). Proved for every reachable state of every program and schedule: PSC.lock_order, PSC.pubsub_deadlock_free, "
         "PSC.send_sees_consistent_set, PSC.dropped_object_is_empty, PSC.pubsub_linearizable_partial (a linearization with every operation inside its interval, "
         "real-time order, PUBLISH reply = subscriber count at its point, per (connection, channel) delivery log = the specification's; a Send whose channel object was "
         "dropped between its lookup and its lock is linearized by the dropping UnSubscribe). Negative, kernel-checked runs: PSC.release_deadlocks (the seeded "
         "channel-then-table Release), PSC.cross_channel_order_not_linearizable. Tie: hook H2b records every Pub/Sub lock operation and conns-map access; on every run "
         "each goroutine's event sequence must be a run of the model's operation automaton PSC.TA (PSC.thread_trace_accepted: every thread of the model is accepted by it), "
         "checked by its Go transcription in every pubsub scenario and by the Lean automaton itself (driver engine PST) on the small scenarios' whole traces; sequential "
         "scenario covering every code path and automaton state, negative controls. "
         "Scenario pubsub-stall: one of five subscribers stops reading for 2.6 s (thorough: also 6.5 s, 11 s) while a message is published, then reads on: PUBLISH reports five, every "
         "subscriber holds the message exactly once, the next message reaches all five; last round: the slow subscriber closes instead (pruned, four counted). "
         "Slow consumers in Lean: PSS (Conc/PubSubSlow.lean) gives every connection a state ready | stalled | dead; Send's write to a stalled connection is no step (the sender holds the channel lock). "
         "PSS.healthy_not_affected (every member gets every message published on its channel object since it joined once, in order, whatever the environment does to the others), "
         "PSS.removed_only_dead_or_unsubscribed, PSS.stall_only_delays (every stall ends + strongly fair scheduler => every invoked operation completes, reply = its deliveries), PSS.confirm_after_join; negative: "
         "PSS.never_block_publishers_needs_fairness_partial (a subscriber that never reads again blocks its channel and, through Subscribe's table lock, all channels: true of the code), "
         "PSS.confirm_before_join_misses. Tie: the history the pubsub-stall scenario observed (stall / resume / close, PUBLISH written / answered, holdings) is replayed on the model by the driver (engine PSH); "
         "eight negative controls.",
    note="Partial: the cross-channel order of one connection's deliveries is not linearizable (refuted in Lean, a finding); the concurrency theorems are about the model "
         "(Go scheduler, memory model, sync.RWMutex modelled; -race runs); TCP back-pressure is modelled (PSS) and tied by the pubsub-stall histories only; 'never block publishers indefinitely' holds only if every subscriber that stops reading eventually reads again or closes (refuted otherwise, a finding). Trusted: Lean kernel, harness "
         "(incl. the Go-side automaton), driver, hook H2b.",
)
CHECKS["C20"] = dict(
    category="proof", design_ref="DESIGN.md §6 C20", engine="serve + config + cluster (one real node)",
    technique="Lean 4 theorems on the connection-layer model (SELECT acceptance, per-connection selection, database isolation) and on the configuration layer (where the database count comes from) + differential correspondence over several connections and against the real config parser",
    text="Exec.select_accepts_exactly, select_reject_nochange, selection_is_per_connection, isolation, reply_independent_of_other_dbs are proved for the "
         "function the driver runs (Server.execOn), for every argument, database count and connection; interleavings are sequences of execOn steps. "
         "SELECT-heavy sessions over 1-4 connections and 1/2/16 databases against Manager.Handle are compared with the model (sweeps over every index and its neighbours, "
         "first-SELECT races of parallel connections). "
         "Configuration layer: Config.parse_databases_spec (last `databases` directive, else 16, never <= 0), cluster_single_database / "
         "cluster_select_iff (ParseConfigJson always leaves one database: cluster-mode SELECT a is accepted iff a = 0), parse_total, parse_append are proved about "
         "Config.parse / clusterPost / startup, which the driver runs against the real config.Parse / ParseConfigJson (engine config: worker process, log.Fatal observed as exit status 1). "
         "Cluster mode on a REAL one-node cluster (cluster.json naming RaftAddr explicitly, 16 configured databases): SELECT of another database is refused or the selection stays the "
         "connection's own (cluster engine's select probe).",
    note="Trusted: Lean kernel, harness, driver; strconv.Atoi mirrored by the model's integer parsers; unicode.ToLower above ASCII, the IPv6 grammar and encoding/json enter the "
         "configuration model as oracle facts / echo shipped by the harness.",
)

CHECKS["C05"] = dict(
    category="proof", design_ref="DESIGN.md §6 C05", engine="exec+conc",
    technique="Lean 4 theorems (strict 2PL => atomic block execution for any thread count/interleaving; no lost increment; one SETNX winner) + trace-level discipline check of every command (hook H2) + concurrent exploration (porcupine, lockset, -race)",
    text="Cc.atomicity: for any number of threads running block programs that satisfy the lock discipline, every micro-step interleaving yields the same "
         "database and the same remaining programs (hence replies) as executing the blocks atomically in commit order; Cc.no_lost_increment and "
         "Cc.setnx_one_winner state the property's examples for every n. The discipline hypothesis is tied to the code by hook H2: on every command of "
         "the generated exec programs the recorded lock/access event trace must be accepted by TraceCheck.ok (TraceCheck.access_held: every access "
         "inside its stripe in a sufficient mode). Concurrent histories (2-16 goroutines, colliding stripes) are additionally checked with porcupine, "
         "a lockset monitor, quiescent invariants and the Go race detector; invariant-judged scenarios for what a history search cannot reach: bigread (containers of thousands of members "
         "listed while they grow), addrem, keysstable, streamtrim, bpoptime, storeacc (STORE forms accumulating into their own source), counters (numbers crossing digit boundaries read in bulk), "
         "bigmulti (duels of MSETs over 1500 keys / SADD of 2000 members against DEL), firsttouch (the first commands of 400 fresh servers, simultaneous, one key). A conc engine process that dies "
         "(Go fatal error, panic outside recover, time limit) is a violation. "
         "For the REAL command table (Exec.exec, 77 commands): Exec.footprint args = the keys whose stripes the executor locks and the mode (a function "
         "of the argument vector; Exec.lockPlan additionally knows the refusals issued before the first lock); Props/C05Foot*.lean prove exec_frame "
         "(a key outside the footprint is untouched), exec_local (reply and new entries under the footprint keys depend only on the entries under them) "
         "and exec_readonly (a read footprint only lazily deletes expired entries; nothing on the live view) for every command; Props/C05Atomic.lean "
         "instantiates Cc.atomicity (now generic in key and value type) with the block of every command (cmdBlock_wf, cmdBlock_adequate) and proves "
         "table_atomicity_partial: any number of clients running any lists of commands other than KEYS end, under every interleaving, with the keyspace "
         "and replies of the sequential run in commit order. Tie: on every traced command the set of stripes locked (and the write mode) must equal the "
         "stripes of Exec.lockPlan's keys (Driver.checkFootprint; the harness ships the stripe of every argument), with its own negative control. "
         "What the atomicity theorems leave out is stated for what it is: KEYS is not atomic, but its walk over the sharded map lists every key "
         "present throughout exactly once and only keys present at some moment (Props/C05Walk.lean, with negative theorems for delete-then-insert "
         "overwrite and for an early stop after count keys); DEL/EXISTS/MGET are per-key loops: each key's sub-operation is atomic at its own commit "
         "point and the reply is the aggregate (Props/C13PerKey.lean perkey_loop_linearizable_per_key), not atomic across keys "
         "(perkey_not_atomic_across_keys: MGET a b against MSET answers [nil, v]).",
    note="Partial: the Go scheduler and memory model are not modelled; concurrent runs are exploration. The table-wide atomicity theorem models one block per "
         "command (CheckTTL's own blocks folded in, KEYS excluded, DEL/EXISTS/MGET/BLPOP/BRPOP as one block although Go takes one per key). "
         "Trusted: Lean kernel, harness, hook H2, sync.RWMutex semantics.",
)
CHECKS["C13"] = dict(
    category="proof", design_ref="DESIGN.md §6 C13", engine="exec+conc",
    technique="Lean 4 theorems (ascending acquisition => progress for writer-preferring RW locks; sortedLockPoses spec; 2PL atomicity) + per-command acquisition-order check (hook H2) + concurrent multi-key exploration under a watchdog",
    text="DL.progress: whenever a thread is unfinished some lock step is enabled, provided every thread acquires stripes in strictly ascending order — for any "
         "stripe function, so for every key overlap and collision pattern; SetOps.lockPoses_spec: the sort/dedupe of LockMulti produces exactly such a "
         "sequence. The hypothesis is tied to the code by hook H2 (TraceCheck.ok: ascending, two-phase, balanced) on every multi-key command of generated "
         "programs under ShardNum 2/4/1024. Concurrent mixes of MSET/RENAME/LMOVE/SMOVE/DEL/EXISTS/MGET with single-key traffic run under a 20 s watchdog "
         "with atomicity invariants at quiescence and under -race. Exec.table_atomicity_partial (Props/C05Atomic.lean): every multi-key command of the real "
         "table, as ONE two-phase block over exactly the keys of Exec.footprint, is atomic under every interleaving; that the Go executors lock exactly "
         "those stripes, in write mode where the footprint says so, is checked on every traced command (Driver.checkFootprint against Exec.lockPlan). "
         "Deadlock freedom is instantiated for the real table as well (Props/C13Table.lean): Exec.lockProg is the regular expression of all lock-scope "
         "sequences the executor of a call can produce (LockMulti = sorted de-duplicated stripes, CheckTTL's own scopes, one scope per key in the "
         "DEL/EXISTS/MGET/BLPOP loops, early returns after an expired CheckTTL); lockSeq_ascending: every scope of every run is non-empty, strictly "
         "ascending and duplicate-free for EVERY stripe function; table_deadlock_free: any number of clients running any command lists can always take "
         "a step from every reachable lock state (DL.progress + DL.step_ok). Tie: the lock scopes of every traced command, in order, must be a run of "
         "lockProg under the observed stripe table (Driver.checkLockOrder; the matcher is proved exact, accepts_iff_mem_runs), with a negative control "
         "that removes one scope while leaving the locked set unchanged. DEL/EXISTS/MGET as the per-key loops they are (Props/C13PerKey.lean): "
         "perkey_loop_linearizable_per_key (one single-stripe block per key; every sub-operation atomic at its own commit point; reply = aggregate), "
         "split_del/_exists/_mget (uninterrupted, the per-key program is the command), perkey_not_atomic_across_keys.",
    note="Partial: scheduler/runtime not modelled; the concurrent runs are exploration; DEL/EXISTS/MGET are one block per key in Go (not atomic across keys). "
         "Trusted: Lean kernel, harness, hook H2.",
)

CHECKS["C06"] = dict(
    category="proof", design_ref="DESIGN.md §6 C06", engine="exec (real clock)",
    technique="Lean 4 theorems on the executable keyspace model (lazy expiry check = live view; deadline laws) and generic congruence for block programs + real-clock differential batches that isolate the lazy-expiry window",
    text="Props/C06Table.lean proves c06_congruence for EVERY command of the model's table (77 commands, through Exec.exec itself): two well-formed keyspaces with "
         "the same live view give the same reply and live-equal results, lifted to programs with a non-decreasing clock — no command can tell an expired-but-present "
         "key from an absent one. Props/C06.lean proves that the expiry check makes the probed key's physical entry equal to its live view and "
         "changes nothing observable, that a key is visible exactly until its deadline, and the TTL/PERSIST/EXPIRE(NX/XX/GT/LT)/SET(KEEPTTL) laws; "
         "Ttl.congruence/program_refines prove the general statement for block programs. The tie runs batches of hundreds of scenarios on the real clock "
         "with deadlines placed so that for ~0.8 s only the lazy check can hide the key, probing with every reading and writing command, and compares "
         "replies and dumps with the model given the clock readings observed around each command; a restore-across-deadline batch writes the keyspace to a snapshot "
         "and loads it into a fresh database inside that window (all six value types): a key restored past its deadline stays invisible.",
    note="Partial: timer goroutine scheduling is runtime; one-second granularity. Trusted: Lean kernel, harness clock readings, driver.",
)

CHECKS["C11"] = dict(
    category="proof", design_ref="DESIGN.md §6 C11", engine="exec + conc",
    technique="Lean 4 executable model of the set commands with kernel-checked set-algebra theorems (membership laws, union/intersection/difference, "
              "STORE semantics, non-empty/duplicate-free invariant, checker soundness for random commands) + differential correspondence on generated programs",
    text="GLOBAL: Exec.Global.global_invariant / no_empty_container / inv_iff_families - for programs over ALL 77 commands of every family the keyspace stays well-formed and never holds an empty list, set, hash or sorted set (and sets stay duplicate-free, hash tables Ok, trees ZT.Inv, stream ids increasing). "
         "The 14 set executors are modelled as total Lean functions on the shared keyspace (Exec/Set.lean; sets as duplicate-free lists, algebra "
         "from Ds/SetOps.lean). Kernel-checked theorems (Props/C11.lean): SADD/SREM one-step membership laws and cardinality replies; SUNION/SINTER/"
         "SDIFF replies are exactly the mathematical operations with missing keys as empty sets; S*STORE leaves exactly the result in the "
         "destination (deleted when empty, no deadline, any previous type) and nothing else changes; SMOVE moves or changes nothing and conserves "
         "the union; every command preserves 'every set is non-empty and duplicate-free'; SPOP/SRANDMEMBER run in checker mode and acceptance "
         "implies the reported members are current members with the right count/distinctness and SPOP removes exactly them. The model is tied to "
         "the Go executors by generated programs over existing, missing, wrong-typed, long-TTL and already-expired keys with members including "
         "the empty string and binary bytes, count extremes and arity damage, comparing every reply and the dump of the touched keys. Concurrent scenarios addrem and "
         "storeacc (SUNIONSTORE acc acc src / SDIFFSTORE live live dead / SINTERSTORE mask mask keep by 4-16 clients on ONE destination: every acknowledged update is in the final set).",
    note="Trusted: Lean kernel (propext, Classical.choice, Quot.sound), harness/driver/dump hook, strconv.Atoi mirrored by the model's integer parser. "
         "Error replies compared by class; SPOP/SRANDMEMBER member choice is the implementation's (validated, then adopted); reply order of "
         "SMEMBERS/SUNION/SINTER/SDIFF compared after sorting; a negative SRANDMEMBER count below -2^20 may be refused (grey clause).",
)

CHECKS["C10"] = dict(
    category="proof", design_ref="DESIGN.md §6 C10", engine="exec",
    technique="Lean 4 executable hash model with kernel-checked map laws, invariants and checker soundness + differential correspondence (replies and keyspace dumps) on generated command programs",
    text="GLOBAL: Exec.Global.global_invariant / no_empty_container / inv_iff_families - for programs over ALL 77 commands of every family the keyspace stays well-formed and never holds an empty list, set, hash or sorted set (and sets stay duplicate-free, hash tables Ok, trees ZT.Inv, stream ids increasing). "
         "The 14 hash executors are modelled as total Lean functions on the shared keyspace (Exec/Hash.lean over the field table of Ds/HashSel.lean). "
         "Kernel-checked (Props/C10.lean, C10_holds): HGET after HSET answers the last value written for every byte string incl. the empty one; "
         "the HSET/HDEL/HSETNX replies count exactly what changed; HDEL removes exactly the named fields and an emptied hash leaves the keyspace "
         "with its deadline; fields stay unique and no empty hash is stored under all 14 commands; HLEN/HEXISTS/HSTRLEN agree with HGET; HINCRBY "
         "is the exact int64 sum or rejected with the hash unchanged; the HRANDFIELD checker accepts only replies made of existing fields with the "
         "reference's count/distinctness/WITHVALUES semantics. The model is tied to the Go executors by running generated programs (empty, numeric, "
         "extreme-integer, float and binary fields/values, repeated fields, odd argument counts, keys of other types, live and passed deadlines, "
         "extreme HRANDFIELD counts) through server.Manager.ExecCommand and comparing every reply and the dump of the touched keys.",
    note="Trusted: Lean kernel (propext, Classical.choice, Quot.sound), harness/driver/dump hook, strconv mirrored by the model's integer parser. "
         "Error replies compared by class; HINCRBYFLOAT arithmetic and HRANDFIELD selection are the implementation's (checker mode); "
         "HGETALL/HKEYS/HVALS compared up to order.",
)

CHECKS["C09"] = dict(
    category="proof", design_ref="DESIGN.md §6 C09", engine="exec",
    technique="Lean 4 executable list model with theorems on its index arithmetic, removal, push/pop, LMOVE, LPOS and the never-empty invariant + differential correspondence (replies and keyspace dumps with list self-check) on generated list programs",
    text="The list executors are modelled as total Lean functions on element sequences in the shared keyspace (Exec/List.lean). Kernel-checked "
         "theorems (Props/C09.lean): LRANGE/LTRIM = specRange for all start/stop, LINDEX/LSET addressing from either end, LREM removes "
         "min(|count|, occurrences) from the chosen end and keeps everything else in order, push/pop laws with counts, LMOVE conserves the "
         "elements (rotation on one key), LPOS equals a short reference definition for all RANK/COUNT/MAXLEN, and list_never_empty for the "
         "whole list command table, extended by Exec.Global.global_invariant to programs over ALL 77 commands of every family (no command of any family, "
         "including DEL/RENAME/SET/EXPIRE and the store commands, leaves an empty list, set, hash or sorted set behind, and Db.WF is kept); Ds/ListOps ties the Go index loops to the reference. The model is tied to the Go executors by running "
         "generated programs (duplicate-rich values, indexes and counts across both ends and at the int64 extremes, other-typed and "
         "expiring keys, blocking pops served at once / timing out / invalid timeouts) through server.Manager.ExecCommand and comparing "
         "every reply and the dump of the touched keys, where the dump hook checks forward walk = reverse(backward walk) = Len.",
    note="Trusted: Lean kernel (propext, Classical.choice, Quot.sound), harness/driver/dump hook, strconv mirrored by the model's integer parser "
         "and the harness' ParseFloat annotation. Error replies compared by class. Blocking pops only in their sequential reading "
         "(immediate service, nil at a 0.1-0.3 s timeout); wake-up by a producer and exactly-one-popper are concurrency properties checked elsewhere.",
)

CHECKS["C12"] = dict(
    category="proof", design_ref="DESIGN.md §6 C12", engine="exec",
    technique="Lean 4 theorems on the executable AVL-tree model (invariant over all programs, member/score algebra, range window, rank) + differential "
              "correspondence on generated programs comparing replies and the tree itself node for node",
    text="GLOBAL: Exec.Global.global_invariant / no_empty_container / inv_iff_families - for programs over ALL 77 commands of every family the keyspace stays well-formed and never holds an empty list, set, hash or sorted set (and sets stay duplicate-free, hash tables Ok, trees ZT.Inv, stream ids increasing). "
         "The tree of memdb/btree.go (insert with the four rotation cases, deleteNode, rebalance; nodes hold score + name set + stored height) "
         "and ZADD/ZREM/ZRANGE/ZRANK are modelled in Lean (Ds/ZTree.lean, Exec/ZSet.lean). Kernel-checked: every keyspace reachable by any "
         "program over these commands holds only non-empty sorted sets that are height-balanced search trees with exact stored heights and one "
         "node per member name (C12_invariant_every_state, also for the trees inside a multi-pair ZADD); ZADD re-scores exactly one member, ZREM "
         "removes exactly the listed ones and counts them; ZRANGE is the Redis index window of the strictly (score, name)-ordered sequence with REV "
         "and WITHSCORES; ZRANK is the index in that sequence; NX/XX/GT/LT/INCR one-step laws. Tied to the Go code by running generated programs "
         "(ties, negatives, signed zero, infinities, extreme floats, invalid floats, every option combination, deep trees built in "
         "ascending/descending/zig-zag/random order and taken apart member by member) and comparing every reply and, after every command, the dump "
         "of the real tree (shape, scores, stored heights, names, len, dict) with the model's tree.",
    note="Trusted: Lean kernel (propext, Classical.choice, Quot.sound), harness/driver/dump hook, IEEE addition for INCR (C double vs float64), "
         "strconv.ParseFloat for score arguments and for reading scores back from replies (scores compared by value, not by text). Error replies "
         "compared by class. Signed zero stored as +0. BYSCORE/BYLEX/LIMIT forms of ZRANGE not modelled.",
)

CHECKS["C18"] = dict(
    category="proof", design_ref="DESIGN.md §6 C18", engine="exec",
    technique="Lean 4 executable stream model with kernel-checked theorems (ID order invariant over programs, rejection leaves the keyspace unchanged, range scan = interval filter, trimming drops a prefix, auto-ID checker sound) + differential correspondence (replies and stream dumps incl. last ID) on generated XADD/XRANGE programs",
    text="XADD and XRANGE are modelled as total Lean functions on the shared keyspace (Exec/Stream.lean): IDs are pairs of unsigned 64-bit numbers in "
         "lexicographic order, a stream keeps its entries and the greatest ID ever appended. Props/C18.lean proves, for the definitions the driver "
         "runs: every reachable stream is strictly increasing (for all programs), the ID XADD answers is stored and exceeds all earlier ones, an explicit "
         "ID that is not greater (and 0-0) is refused with the keyspace unchanged, the one-pass range scan returns exactly the entries of the interval "
         "for every bound form, a missing key yields the empty array and creates nothing, MAXLEN/MINID drop exactly the oldest entries down to the bound, "
         "NOMKSTREAM on a missing key creates nothing, and an auto ID accepted by the checker is strictly greater than the last one. The model is tied "
         "to the Go executors by generated programs (explicit, partial and auto IDs from a colliding alphabet incl. the 2^63/2^64 boundaries and IDs ahead "
         "of the clock; all options with damage; all bound forms; binary fields; other types, deadlines and expired keys on the same keys) run through "
         "server.Manager.ExecCommand, comparing every reply and the dump of the touched streams.",
    note="Trusted: Lean kernel (propext, Classical.choice, Quot.sound), harness/driver/dump hook, strconv mirrored by the model's integer parsers. "
         "Error replies compared by class. Auto IDs (XADD *) are judged in checker mode against the second-granular clock bracket of the harness. "
         "Approximate trimming (~) is modelled as exact trimming (a permitted outcome).",
)

CHECKS["C14"] = dict(
    category="proof", design_ref="DESIGN.md §6 C14", engine="codec+exec",
    technique="Lean 4 theorems (the replicated log entry decodes to exactly the submitted argument vector for every byte string; applying it = the "
              "standalone meaning, reply and keyspace; base64 round trip; base64 text is JSON-inert; the encoder's closing quote ends the string for "
              "arbitrary Data/ID bytes; kernel-decided negative witnesses for the old space-joined codec) + byte-exact differential of the wire model "
              "against the real json.Marshal/json.Unmarshal on the cluster path + every command family executed through the cluster path and judged by "
              "the standalone keyspace model",
    text="Cluster/Codec.lean models what a cluster node appends to the log for a command - json.Marshal of raftexample.RaftProposal{Data, Args, ID}: JSON "
         "string escaping as encoding/json does it (HTML escaping, control bytes, U+2028/9, U+FFFD for every byte outside a well-formed UTF-8 sequence, "
         "per utf8.DecodeRune's table) for arbitrary bytes, []byte as padded standard base64, null for nil, omitempty - and what json.Unmarshal hands to "
         "the apply loop. Props/C14.lean proves C14_holds: for every proposal id and every non-empty argument vector over all byte strings the entry "
         "decodes to exactly that vector and a replica applying it computes exactly Exec.exec's reply and keyspace (the model all exec-engine properties "
         "are judged with) from any prior keyspace; plus base64_roundtrip, b64_alphabet_json_safe, skip_jsonEscape, the nil-element and omitempty "
         "cases, and decided witnesses that the previous codec (space-join, JSON string, split) turned SET k \"a b\" into four words, 0xff into U+FFFD "
         "and was not injective. Tie 1 (codec): generated vectors (binary alphabet, UTF-8 edge cases, every single byte, every length 0..20, nil "
         "elements, PUBLISH/SUBSCRIBE case variants, the empty array) go through server.VerifClusterRoundTrip and RaftProposal.ToBytes/json.Unmarshal; "
         "wire bytes, filter decision, decoded Args/Data/ID must equal the model's, and the decoded Args the submitted ones. Tie 2 (cluster-path): "
         "programs of every command family run through the same path (VERIF_CLUSTER_PATH=1) and every reply and keyspace dump is compared with the "
         "standalone model. Tie 3 (codec conc): the same path taken by eight clients AT ONCE on their own keys (two of them submitting what the filter refuses, the others "
         "commands with names of the same lengths): filter verdict, reply and log bytes of every command must be those of the same command submitted alone.",
    note="Trusted: Lean kernel (propext, Classical.choice, Quot.sound), harness/driver/hooks, Go's encoding/json and encoding/base64 (modelled, compared byte "
         "for byte on every run, not verified). Raft ordering/agreement is C15/C07, not part of this check; the path is exercised without the network. "
         "Partial: PUBLISH/SUBSCRIBE are refused by the cluster filter (C14_submit_same_meaning_partial carries clusterAccepts).",
)

CHECKS["C15"] = dict(
    category="proof", design_ref="DESIGN.md §6 C15", engine="raftsim",
    technique="Lean 4 theorems (abstract Raft L0: five safety theorems for every cluster size and schedule; refinement L1 -> L0; executable handler "
              "RS.handle inside L1) + lock-step correspondence of etcd raft.RawNode with RS.handle under a seeded adversarial scheduler + the safety "
              "predicates evaluated directly on the implementation after every event",
    text="Kernel-checked: election safety, log matching, leader completeness, state-machine safety and 'a committed entry is never removed or "
         "rewritten; term and commit never regress' for the abstract protocol with message loss, duplication, reordering, delay, crash-restart from "
         "persisted state and snapshots (RS.C15_*), for the handler-level relation shaped like raft.Step (RS.sim, RS.L1_*), and for every run of the "
         "executable handler RS.handle (RS.handle_in_Step1, RS.run_covered, RS.run_*); etcd's CommittedIndex equals the handler's quorum index for every "
         "map iteration order (RS.committedIndex_eq_qidx). MODELLED: raft.Step's safety projection for raftexample's Config (term, vote, role, lead, log, "
         "commit, votes[], match[]; MsgVote/VoteResp/App/AppResp/Heartbeat/Snap; no PreVote/CheckQuorum), fixed membership. VERIFIED AGAINST THE CODE by "
         "measurement, not proof: 1/3/5 RawNodes over MemoryStorage are driven through generated schedules (ticks, campaigns, proposals, arbitrary "
         "delivery/loss/duplication/reordering, partitions, crash/restart, compaction forcing MsgSnap, one-entry-per-message paging); after every event the "
         "node's full projection must equal RS.handle's result exactly and every emitted message must be a response the handler computed or valid leader "
         "traffic (RS.leaderOutB, proved sound); an accepted trace is an RS.Run (RS.driver_step_is_run). STAGE D (membership changes): (1) the quorum / configuration layer - "
         "an executable model of raft/quorum (MajorityConfig, JointConfig: CommittedIndex, VoteResult), tracker.Config and confchange.Changer (Simple, EnterJoint, "
         "LeaveJoint, Restore) with kernel-checked RQJ.* theorems - quorum intersection for one config, across a single voter change and across a joint config, "
         "CommittedIndex / VoteResult specifications, the Changer keeps its invariants and fails only for the reasons it names, Simple changes at most one voter, "
         "LeaveJoint after EnterJoint yields the requested config - tied to the code by recomputing random JointConfig inputs and random Changer operation sequences "
         "(Config and ProgressMap compared after every operation). (2) the abstract protocol over GUARDED quorum decisions (RSQ.*: the five theorems need of a "
         "deciding set only that it is linked to the earlier decisions, no cardinalities), hence over every static quorum system with pairwise intersecting "
         "quorums - strict majority (the RS.C15_* statements re-derived by instantiation), majority of a subset of voters with non-voting learners, a fixed joint "
         "configuration (RSQ.Q_*, majority_safe, voters_safe, joint_safe; overlap_needed). (3) the protocol with configurations that change through log entries and "
         "take effect at APPLY time, as etcd does it (Raft/RSC.lean: config = fold of Changer.Simple over the conf-change entries of the node's own log up to its "
         "applied index; tallies and commit decisions under the deciding node's current voters; pendingConfIndex proposal gate; hup gate; learners; restarts that "
         "fall back to an earlier applied index): RSC.C15_conf_holds - election safety, log matching, leader completeness, state-machine safety, committed prefix "
         "never rewritten, for every cluster size, initial configuration, schedule and sequence of single-voter changes; RSC.conf_one_pending.",
    note="Level: proof for the model (Stages A-C and, at the level of the abstract protocol, Stage D with apply-time single-voter changes), correspondence (lock-step, "
         "generated schedules) for handler = code with a fixed voter set. Membership changes: the quorum / confchange layer is proved and tied; the protocol-level theorem "
         "(RSC) is about a model written from raft.go / raftexample; the executable config-aware handler RHC.handleC (RH.handle + applied index, pendingConfIndex and the "
         "configuration folded from the node's own log) is compared with RawNode on EVERY event of the member / member-partition schedules (add / add-learner / promote / remove, "
         "ApplyConfChange, gates, snapshots carrying a ConfState, restarts), and the refinement handleC -> L1C -> RSC is PROVED (RHC.simC, RHC.handleC_in_StepC, RHC.runC_covered), so RHC.runC_safe states election safety, log matching, leader "
         "completeness and state-machine safety for every run of that very function under any schedule incl. membership changes (one input excluded: a snapshot ignored for "
         "'not in the ConfState' by a node whose commit index is still 0); the paged / lazy / batch membership profiles are judged by the safety predicates and the CF / GT / HP lines "
         "(config after each applied conf change, proposal gate, campaign gate); joint configurations entered and left through the log (EnterJoint / LeaveJoint / AutoLeave, every ConfChangeV2 shape) are in the protocol model RSJ (RSJ.C15_joint_holds) "
         "and in the executable joint handler RHJ.handleJ, whose refinement handleJ -> L1J -> RSJ is PROVED (RHJ.simJ, RHJ.handleJ_in_StepJ, RHJ.runJ_safe: the four safety properties for every run "
         "of that function) and which is compared with RawNode on EVERY event of the member-joint / member-joint-partition schedules (suite member-joint-lockstep: ConfChangeV2 of every shape inside "
         "lossy, partitioned, restarting schedules; projection, applied index, all five tracker fields, the leader's pendingConfIndex, every message); "
         "TRANSPORT REPORTS (step 8): RawNode.ReportSnapshot(id, SnapshotFinish|SnapshotFailure) and ReportUnreachable(id) - what rafthttp tells the leader - are inputs of RS.handle "
         "(snapStatus / unreachable): stutter steps that leave every Match alone (RS.snapStatus_never_changes_match, RS.snapStatus_stutters; the next heartbeat's Commit is "
         "min(old Match, committed): RS.heartbeat_commit_after_report), with RS.reportProg for the follower's Progress record (BecomeProbe); suite snapstatus-lockstep replays "
         "schedules in which a MsgSnap is reported finished / failed BEFORE it is delivered, a heartbeat overtakes it or the follower restarts without it (scripted opening: a "
         "deposed leader with a stale tail, the new leader compacted past it): projection incl. match[] unchanged, the Progress record before -> after = reportProg, safety predicates. "
         "ReadIndex and leader transfer are outside both. Trusted: Lean kernel (propext, Classical.choice, Quot.sound), the Lean interpreter running the driver, the Go "
         "harness's projection/index shift/event classification, MemoryStorage as the persistence layer (the WAL is C16's subject). Flow control is abstracted "
         "(any true log slice is accepted), timers are not modelled (a tick is classified by its effect).",
)

CHECKS["C04"] = dict(
    category="proof", design_ref="DESIGN.md §6 C04", engine="exec (enumeration, hook H2)",
    technique="Lean 4: total executable model of every registered command (fact F1 regenerated from the source and closed by decide) + index-safety obligations over the source's own guards (fact F3: go/ast + go/types extractor, closed by decide in Props/C04Sites) + bounded-exhaustive enumeration of the property's quantifier through the real executors against that model, with lock-balance check of every trace",
    text="Every command of the model is a total Lean function, so the model cannot crash or hang on any input; Exec.all_registered_modelled is re-proved on "
         "every run against the command list extracted from the Go source, so a newly registered command must be modelled. The implementation is compared "
         "with the model on every registered command x arity 0-2 exhaustively over an adversarial alphabet and keys of every type (arities 3-6 sampled): "
         "panics (recovered by the harness), non-returning executors (watchdog), nil replies, wrong replies, corrupted state and unbalanced locks are all "
         "mismatches; each program then checks that old and new keys still answer. Fact F3, regenerated on every run: every index, slice, "
         "non-comma-ok type assertion, make with a computed size and integer division of memdb/server/resp/util/raftexample is extracted with the "
         "minimum length the guards on every path to it guarantee; Sites.const_sites_safe / rel_sites_safe / executor_entry_safe re-prove needed <= guaranteed "
         "for every guarded site (a cmd[3] behind len(cmd) < 3 breaks the build), Sites.dynamic_inventory pins the unguarded sites to a hand-reviewed list, "
         "Sites.nil_unguarded_inventory does the same for non-comma-ok assertions and dereferences of nil-capable lookup results (LPop, Index, GetByName ...) that no ok / != nil test dominates; "
         "a broken obligation aims the enumeration at the executors concerned and is reported with the crashing vector, or as no-failing-input-found.",
    note="Partial: panic-freedom of the Go executors is a theorem only as far as fact F3 reaches - Lean-checked arithmetic over guards extracted by harness/sites.go (trusted, not verified) "
         "for the guarded index/slice/division sites, a reviewed inventory + the enumeration for the others; nil dereferences and explicit panics are not inventoried; process liveness over TCP is runtime. "
         "Trusted: Lean kernel, harness recover()/watchdog, hook H2, the extractor.",
)

CHECKS["C16"] = dict(
    category="proof", design_ref="DESIGN.md §6 C16", engine="wal",
    technique="Lean 4 theorems on the WAL/snapshot byte format, CRC-32C single-byte detection and the sector-atomic torn-tail argument "
              "(conditional on NoCollision) + byte-for-byte image correspondence and fault enumeration (torn sector subsets, single-byte "
              "corruption) on the real wal/snap packages, each case checked against the Lean model's verdict and the property's oracle",
    text="Proved (kernel-checked, lean/registry.json C16): CRC-32C as hash/crc32.Update detects every single-byte change (crc_single_byte); "
         "varint / walpb.Record / frame-length / frame round trips on the concrete bytes; a record sequence written through the rolling CRC, "
         "also across a segment cut with its crc-seed record, reads back exactly and stops at the preallocated zeros; one changed payload "
         "byte of a record or of a snapshot file is reported as a CRC error after the untouched prefix; changed padding bytes change "
         "nothing; a damaged newest snapshot falls back to the next intact matching one on the loadMatching model; and the torn-tail "
         "theorem (every synced record, then a whole-record prefix of the unsynced ones, ending EOF or torn at the offset Repair "
         "truncates to) for the real frame layout under the explicit hypothesis NoCollision — the unconditional multi-sector statement "
         "C16_statement is false for a 32-bit CRC and is not claimed. At the level of entries and hard state (Props/C16ReadAll.lean, "
         "C16Crash.lean): for wal.Create with any metadata (nil included) followed by any history of Save / SaveSnapshot / cut that honours "
         "the decidable usage contract SaveOk, ReadAll on the files written returns the metadata, the last non-empty hard state saved, and "
         "entries that agree with the reference log (each Save truncating at its first index and appending) on every index above the "
         "snapshot - exactly the reference log above the snapshot under NoStale, a hypothesis that cannot be dropped "
         "(C16.readAll_entries_stale: opened at a snapshot taken after a conflict truncation below it, ReadAll also returns the overwritten "
         "suffix; reproduced on the real code); ErrSnapshotMismatch / ErrSnapshotNotFound arise exactly as the saved snapshots dictate, the "
         "write-mode loss of ErrSnapshotNotFound included; Verify agrees with read-mode ReadAll; after a crash that reverts any subset of "
         "the unsynced tail's sectors (under GNoCollision) read-mode ReadAll returns what it returns on the fully written history cut short "
         "at a record boundary after the last synced call (crash_readAll_prefix_partial), and Repair followed by write-mode Open + ReadAll "
         "gives the same with a clean EOF (crash_repair_readAll_prefix_partial); the file selection of Open (selectWALFiles) does not change "
         "the result under NoStale and SnapKept (readAll_selected). NOT proved but enumerated on the real code (fault enumeration, not "
         "proof): multi-sector tears (all subsets of <= 6 unsynced tail sectors per crash point, seeded random subsets beyond) and "
         "single-byte corruption of framing bytes (frame length field, protobuf tags, type, crc field, length varints), payload, padding "
         "and the zero tail with {0x00, low bit flipped, 0xff}: wal.OpenForRead/Open+ReadAll, Verify, Repair+reopen and "
         "snap.Load/LoadNewestAvailable results are compared with the Lean file-level model on the same mutilated image and with the "
         "property's oracle. Segment images of generated Save/SaveSnapshot/cut sequences are compared byte for byte with the model writer.",
    note="Trusted: Lean kernel (propext, Classical.choice, Quot.sound), harness/driver (the driver resumes the model's own read loop from "
         "its recorded state before the changed byte; every 47th case is re-evaluated from scratch), sector-atomic storage with "
         "preallocated zero-filled segments, os/fsync/rename, gogo unmarshalers mirrored for walpb.Record, raftpb.Entry/HardState, "
         "walpb.Snapshot, snappb.Snapshot (raftpb.ConfState opaque). Known finding wal/corrupt/type-byte: the CRC does not cover the "
         "record type. Known finding wal/torn-save/snapshot-with-entries: the record prefix a torn wal.Save of a Ready with a snapshot AND entries leaves "
         "(entry record on disk, hard-state record lost) is read back correctly as records, but replayWAL cannot open it - ValidSnapshotEntries drops the "
         "snapshot, ReadAll returns ErrSliceOutOfRange, the node dies on every start (model witness ReadyLoop.C08Ready.snapshot_with_entries_strands; "
         "deterministic repro harness tornsave with a control case, run on every check). A commit-only HardState is not fsynced by design (raft.MustSync); the oracle uses the code's own sync points.",
)

CHECKS["C07"] = dict(
    category="proof", design_ref="DESIGN.md §6 C07", engine="apply + rendezvous + multi + cluster",
    technique="Lean 4 theorems on the apply pipeline (exactly-once, in-order delivery for every overlap of Ready batches) and on the abstract protocol "
              "(commit order respects real time) + differential correspondence of the real entriesToApply/publishEntries + END-TO-END EXPLORATION on real node "
              "processes (concurrent clients, SIGKILL/restart/membership faults, network partitions between live nodes through forwarders owned by the harness, "
              "porcupine, per-node agreement)",
    text="PROVED (kernel-checked): C07.C07_replicas_statement_false - the unrestricted statement (identical keyspaces for any two replicas applying the "
         "same log with their own clocks and random sources) is FALSE, with kernel-evaluated witnesses mirroring the recorded findings (SET EX, EXPIRE, SPOP, "
         "XADD *); C07.C07_replicas_partial / _fl_partial / _same_clock_partial - for logs of Deterministic commands (everything except the random/float "
         "commands, XADD *, and relative deadlines) from a deadline-free keyspace, ANY two environment sequences give identical replies and keyspaces after "
         "every prefix, over the whole 77-command table; with equal clock readings only the random/float commands and XADD * are excluded; "
         "classification_tight - each excluded class has a diverging witness. Apply.apply_exactly_once / publish_spec - whatever the overlap of the Ready batches, each committed entry reaches the state "
         "machine exactly once, in index order; RS.commit_order_respects_real_time - a proposal made after an index was committed is committed strictly behind it, "
         "for every cluster size and schedule of the abstract protocol. CROSS-NODE COMPOSITION (Props/C07Multi.lean): the multi-node rendezvous model (one Rendezvous.State per "
         "node, Cluster/Multi.lean) run ON TOP OF an L0 run, its interface to Raft discharged from RS.C15_state_machine_safety / C15_committed_never_rewritten / log matching "
         "(C07Multi.cinv_step); for every reachable state, any N, any schedule, one deterministic state machine: C07Multi.applied_agree, own_reply_cluster (every reply at ANY "
         "node is the reply of the client's own command at its position of the one shared log), real_time_cross_node, C07_linearizable_partial (combined history of all clients of "
         "all nodes linearizable, witness = log order; partial: UniqueIds + AppendOnce are guards, fixed membership, no loss of a node's applied state, model level), "
         "same_prefix_same_keyspace_partial (per-node environments, Deterministic commands); the composition is TIED by the `multi` engine: 2-3 REAL Manager instances in one "
         "process (own keyspace, callback map, HandleCluster connections, handleClusterCommits loop) share ONE log owned by the harness - proposals appended reordered across "
         "nodes and delayed, every node handed its committed entries independently (random batches, a laggard catching up late) - replayed on Multi.next with Exec.exec as each "
         "node's state machine: the uuid proposal ids are pairwise distinct cluster-wide (UniqueIds is a CHECKED fact of every run), every reply is byte for byte the reply of the "
         "connection's own command at its own position of the shared log and arrives only after its node applied that entry, every node's keyspace dump equals the model's replica "
         "at that node's applied prefix (a repository mutated to use a per-Manager counter as proposal id fails the check with a replay in which a client receives the reply of "
         "another node's command). TIED to the code by running random overlapping batches (incl. gaps, which must be refused) "
         "through the real entriesToApply/publishEntries against Apply.publish, and by extracting the order of the Ready arm (fact F4, incl. F4d: the persist step is "
         "unconditional); the BEHAVIOURAL form of F4 - votes answered / appends acknowledged / entries applied only when a restart would find them on disk, no double vote in a "
         "term across restarts, on the real Ready loop of one node - is C08's suite readyloop (harness/readyloop.go, vlib/readygen.py), run by `check C08`. "
         "NOT PROVED - EXPLORATION: the end-to-end statement (linearizable histories, each client its own reply, identical keyspaces on all nodes, no node death) is "
         "checked only on the runs explored: 3 and 5 real node processes on loopback, 4-16 concurrent RESP clients against random nodes, SIGKILL of followers / the "
         "leader / a minority / all nodes at random instants and restart from disk, snapshot-threshold crossings, a follower caught up by MsgSnap, rconf add/delete; "
         "NETWORK PARTITIONS between live nodes (proxied links: every directed raft link is a TCP forwarder of the harness that can be cut and healed; fault kinds "
         "isolate-leader - held until the majority side has a new leader, the old one is never told since no CheckQuorum is configured -, isolate-follower, split "
         "(one follower <-> leader link), partition-leader-minority, isolate-follower-snap; clients on all nodes incl. one read-only client pinned to every node, "
         "1.5 s per-command deadline (pinned reads 0.8 s) = unknown outcome, a read answered by a cut-off node must linearize); "
         "per-key linearizability by porcupine (commands with broken connections = unknown outcome), a read of every key through every node at quiescence, process liveness.",
    note="Level: proof for replica agreement on the deterministic fragment of the model, for the apply pipeline and the real-time order of the abstract protocol; exploration / fault enumeration on real processes for everything "
         "end to end (no proof that etcd raft + rafthttp + goroutines implement the abstract protocol; C15 ties raft.RawNode by lock-step). Workload restricted to "
         "log-deterministic commands: relative TTLs, SPOP/SRANDMEMBER and XADD * diverge between replicas (known findings C07, each with a minimal scenario run on "
         "every check). Partitions are symmetric cuts of whole links (no one-way loss, no delay or reordering inside a connection); no disk faults; SIGKILL keeps the page cache. Trusted: Lean kernel (propext, Classical.choice, Quot.sound), harness, "
         "porcupine, the sequential model in harness/conc.go.",
)

CHECKS["C08"] = dict(
    category="proof", design_ref="DESIGN.md §6 C08", engine="cluster + readyloop",
    technique="Lean 4 theorems on the recovery function (snapshot + entries up to the persisted commit index = the committed prefix, preserved by append / commit / "
              "snapshot / compaction) + source fact F4 (persist before send/apply/acknowledge, persist step unconditional) + BEHAVIOURAL ORACLE on the real Ready loop of one "
              "node (engine readyloop: every externalisation judged against what a restart would read from disk) + FAULT ENUMERATION on real node processes crossing the snapshot threshold",
    text="PROVED (kernel-checked, abstract in the state machine): Recover.recover_replays_all, rep_save, rep_snapshot, applied_is_image, acked_survives - what a node "
         "rebuilds from its newest snapshot and the WAL entries after it is the state after its committed prefix, under every storage operation of the Ready loop, so an "
         "entry at or below the persisted commit index contributes to the recovered state exactly as when it was applied. PROVED on the LOOP MODEL (Cluster/ReadyLoop.lean: the "
         "Ready arm statement by statement, an unsynced WAL tail of which any prefix survives a crash, replayWAL; its arm = the source's arm, ReadyLoop.C08Ready.arm_is_source_arm "
         "re-proved on every run; its replayWAL compared with the real recovery functions on every observed disk state, engine ready): ReadyLoop.C08Ready.persist_before_externalise - "
         "in every state reachable by Readys that respect etcd's contract (ReadyOk), the statements of the arm and crashes between any two of them, every crash image restarts and "
         "keeps every promise made and not taken back by raft (term, vote, acknowledged entries/index, snapshots, applied entries); persisted_hard_state_never_regresses, "
         "restart_no_regress_run (durable term / vote within a term / commit never go back, restarts read exactly that); snapshot_never_loses; the arm with Send before wal.Save "
         "and the arm without the post-snapshot sync are refuted by kernel-evaluated runs. LIMIT: ReadyOk excludes a Ready with a snapshot AND entries - there a torn wal.Save "
         "leaves a WAL replayWAL cannot open (snapshot_with_entries_strands, reproduced on the real code: defect candidate, registry partial). "
         "HYPOTHESES checked on every run: F4 (order of "
         "the Ready arm extracted from raftexample/raft.go: saveSnap -> wal.Save -> ... -> transport.Send -> publishEntries -> Advance, write errors fatal, F4d: the "
         "wal.Save(rd.HardState, rd.Entries) step is not nested in any conditional) and its BEHAVIOURAL TIE, suite readyloop: one REAL raftexample.RaftNode (id 2 of {1,2,3}: "
         "real WAL + snapshot directory, real rafthttp transport, real serveChannels goroutine), the harness plays peers 1 and 3 through RaftNode.Process (elections, rival "
         "candidates in one term, appends / conflicts / stale appends, heartbeats, leader snapshots, node 2 leading with proposals and acknowledgements; 1200 seeded scenarios "
         "quick, 20000 thorough, + fixed regressions); hook H4 observes every message synchronously INSIDE rc.transport.Send, the consumer every delivery on the commit "
         "channel, and at that moment the node's directories are read from disk with a separate read-only open exactly as replayWAL would: E1 on-disk term >= message term; "
         "E2 a granted vote / own candidacy has (term, votedFor) on disk; E3 an accepted append or snapshot is on disk with the leader's terms; E4 every applied proposal is in "
         "the on-disk log; E6 a commit index announced as leader that needs the node's own copy is on disk; E5 clean restarts and crash images (restart from a copy of the "
         "files taken before the stop = what kill -9 leaves) keep everything externalised, the restarted node equals what the oracle read, no two grants of one term go to "
         "different candidates across lives (a double vote = C15 election safety broken by the loop around raft); "
         "restore . serialize = id for the keyspace snapshot is PROVED on the model of memdb/snapshot.go (Snap.decode_encode, snapshot_roundtrip_observable, "
         "encode_deterministic, encode_injective under Exec.Global.Inv and the Go value ranges) and that model is compared byte for byte with GetSnapshot / state for "
         "state with LoadSnapshot on every run (exec lines G/L/LB, mutated snapshots). "
         "NOT PROVED - FAULT ENUMERATION: 'reads on every node reflect every acknowledged write after any crash/restart combination' is checked only on the runs "
         "explored: workloads of several hundred writes with VERIF_SNAPCOUNT=5/20/50, SIGKILL of any subset including all nodes at random instants, restart in random order, "
         "then every key read through every node (linearizability incl. those reads, per-node agreement, ledger of acknowledged INCR/SADD), process liveness at snapshot points; "
         "thorough tier: network partitions between live nodes (proxied links, see C07) across the snapshot threshold - a live follower cut off, compacted past, healed and caught up by "
         "MsgSnap - combined with full restarts.",
    note="Level: proof for the recovery function conditional on F4, C16 (WAL read-back) and snapshot serialisation; fault enumeration on real processes for the end-to-end "
         "statement; readyloop is an oracle on the real loop over generated schedules, not a proof about the loop. SIGKILL does not drop the page cache: fsync placement / power "
         "loss are not exercised (readyloop's crash image = the files as a reader sees them, i.e. without what the WAL encoder still buffers; written-but-unsynced pages are visible to it). Known finding C08: an added member's URL is lost after compaction "
         "+ restart (that member never serves again). Trusted: Lean kernel, harness (process control by PID, RESP client), porcupine.",
)

NOT_YET = "check not built yet in this round; see DESIGN.md §8"
NOT_APPLICABLE = {}


# ---- fact F7 and the alias engine (stored byte slices are never rewritten in place) ----------------------------------------------------------
_F7 = (" Fact F7, regenerated from the Go source on every run (harness/sites_alias.go -> Generated/AliasSites.lean -> Props/C01Alias.lean): the executors hand "
       "stored byte slices to their replies and the connection encodes a reply after the key's lock is released, which is sound only while no stored slice is "
       "rewritten in place. AliasSites.no_inplace_write_to_stored / inventory - every in-place write to a byte slice in memdb (index assignment, copy, append, "
       "strconv.Append*) targets a slice allocated in the function, except a reviewed list (APPEND's append, which writes only beyond the old length: "
       "append_in_place_keeps_shorter_views); AliasSites.installed_values_own_their_bytes / install_inventory - every byte slice handed to the keyspace is a fresh "
       "allocation, one of the command's arguments or a reviewed move. A new site fails the build (proof-broken) and aims the input search: ")
_ALIAS = ("Engine alias (harness/alias.go, vlib/aliassuite.py; quick tier): for every reading command of the family x every writing command x every way the value "
          "was created, the reply OBJECT returned by server.Manager.ExecCommand is kept unencoded, the write runs on the same key (strings: also on a neighbouring "
          "key created the same way), then the reply is encoded - it must equal the encoding taken at once in a control run (sequential, deterministic test of the "
          "aliasing hazard; a changed reply is reported with its scenario).")
for _p in ("C01", "C10", "C03"):
    CHECKS[_p]["text"] += _F7 + ("the alias probes of the family whose file holds the site (C03: of every such family) and the concurrent scenario counters. " if _p != "C10" else
                                 "the alias probes and the concurrent scenario counters. ") + (_ALIAS if _p != "C03" else "")
    CHECKS[_p]["engine"] += " + alias" + (" (when F7 is broken)" if _p == "C03" else "")
    CHECKS[_p]["note"] += " Fact F7: the extractor harness/sites_alias.go and the hand-written justifications of the reviewed entries are trusted."
for _p in ("C09", "C11", "C12", "C18"):
    CHECKS[_p]["text"] += " " + _ALIAS
    CHECKS[_p]["engine"] += " + alias"


def main():
    props = [json.loads(l)["id"] for l in open(os.path.join(core.VERIF, "properties.jsonl"))]
    checks = []
    for pid in props:
        c = CHECKS.get(pid)
        if not c:
            continue
        checks.append(dict(
            property_id=pid,
            quick_cmd="./check %s --tier quick" % pid,
            thorough_cmd="./check %s --tier thorough" % pid,
            evidence_file="/verif/evidence/%s.json" % pid,
            replay_cmd_template="./check %s --replay {path}" % pid,
            engine=c["engine"],
            level_claimed=dict(category=c["category"], text=c["text"], design_ref=c["design_ref"]),
            level_note=c["note"],
            technique=c["technique"],
        ))
    na = [dict(property_id=p, reason=NOT_APPLICABLE.get(p, NOT_YET)) for p in props if p not in CHECKS]
    hooks = json.load(open(os.path.join(core.VERIF, "hooks.json")))
    m = dict(
        version=1,
        setup_cmd="cd /verif/lean && lake build RedisGoModel driver && cd /verif && ./check setup",
        hooks=hooks,
        engines=json.load(open(os.path.join(core.VERIF, "engines.json"))),
        checks=checks,
        notes="Lean 4 proofs about an executable model + checked correspondence with the Go code; see DESIGN.md. "
              "known_findings.txt lists recorded and fixed defects.",
        not_applicable=na,
    )
    json.dump(m, open(os.path.join(core.VERIF, "MANIFEST.json"), "w"), indent=1)
    print("MANIFEST.json: %d checks, %d not claimed" % (len(checks), len(na)))


if __name__ == "__main__":
    main()
