#!/usr/bin/env python3
"""Regenerates /verif/MANIFEST.json from the per-property metadata below (so it is valid at all times)."""
import json
import os
import sys

sys.path.insert(0, os.path.dirname(os.path.dirname(os.path.abspath(__file__))))
from vlib import core  # noqa: E402

CHECKS = {
    "C17": dict(
        category="proof", design_ref="DESIGN.md §6 C17", engine="glob",
        technique="Lean 4 theorem (scanner = grammar semantics, all patterns/subjects) + differential correspondence with util.PattenMatch",
        text="Kernel-checked theorem GlobEq.C17_agrees: the model scanner (list-recursive mirror of util.PattenMatch) equals the token-grammar "
             "semantics for every pattern and subject; C17_broken: unparsable patterns match nothing; totality by Lean's termination checker. "
             "The model is tied to the Go function by running both on every (pattern, subject) up to a length bound over an alphabet with every "
             "metacharacter, and on random long/binary pairs.",
        note="Trusted: Lean kernel (axioms propext, Classical.choice, Quot.sound), the Go harness and driver, Go string semantics as mirrored by "
             "list recursion. KEYS' keyspace iteration is covered under C01's exec engine.",
    ),
}

CHECKS["C02"] = dict(
    category="proof", design_ref="DESIGN.md §6 C02", engine="parser",
    technique="Lean 4 theorem (encode/parse round trip for every pipeline, parser total) + differential correspondence with resp.ParseStream under arbitrary chunking",
    text="Kernel-checked theorems Resp.C02_roundtrip and C02_compositional: the model of resp/parser.go's state machine decodes every pipeline of "
         "commands over arbitrary byte strings into exactly the encoded arguments and resets fully between commands; every model access is "
         "checked, so the model has no crash outcome. Tied to the code by feeding well-formed and malformed streams to resp.ParseStream whole, "
         "byte by byte and in random chunks and comparing the full event list with the model's.",
    note="Trusted: Lean kernel (propext, Classical.choice, Quot.sound), harness/driver, bufio/io.ReadFull semantics. Bulk arguments below 512 MiB. "
         "Isolation between connections (nothing executed after a protocol error) is exercised through the serve engine under C03.",
)

CHECKS["C01"] = dict(
    category="proof", design_ref="DESIGN.md §6 C01", engine="exec",
    technique="Lean 4 executable keyspace model with theorems on its index/overflow arithmetic + differential correspondence (replies and keyspace dumps) on generated command programs",
    text="The string/key executors are modelled as total Lean functions on an association-list keyspace with deadlines (Exec/StringKeys.lean); "
         "kernel-checked theorems cover GETRANGE/SETRANGE index arithmetic for all indexes (never out of range), exact-or-rejected INCR arithmetic "
         "and the model-level laws in Props. The model is tied to the Go executors by running generated programs (all SET option combinations, "
         "numeric extremes, binary/case-variant keys, arity damage) through server.Manager.ExecCommand and comparing every reply and the dump of "
         "the touched keys with the model.",
    note="Trusted: Lean kernel (propext, Classical.choice, Quot.sound), harness/driver/dump hook, strconv mirrored by the model's integer parser. "
         "Error replies compared by class; INCRBYFLOAT arithmetic taken from the implementation (checker mode).",
)

CHECKS["C15"] = dict(
    category="proof", design_ref="DESIGN.md §6 C15", engine="raftsim",
    technique="Lean 4 theorems (abstract Raft L0: five safety theorems for every cluster size and schedule; refinement L1 -> L0; executable handler "
              "RS.handle inside L1) + lock-step correspondence of etcd raft.RawNode with RS.handle under a seeded adversarial scheduler + the safety "
              "predicates evaluated directly on the implementation after every event",
    text="Kernel-checked: election safety, log matching, leader completeness, state-machine safety and 'a committed entry is never removed or "
         "rewritten; term and commit never regress' for the abstract protocol with message loss, duplication, reordering, delay, crash-restart from "
         "persisted state and snapshots (RS.C15_*), for the handler-level relation shaped like raft.Step (RS.sim, RS.L1_*), and for every run of the "
         "executable handler RS.handle (RS.handle_in_Step1, RS.run_covered, RS.run_*); etcd's CommittedIndex equals the handler's quorum index for every "
         "map iteration order (RS.committedIndex_eq_qidx). MODELLED: raft.Step's safety projection for raftexample's Config (term, vote, role, lead, log, "
         "commit, votes[], match[]; MsgVote/VoteResp/App/AppResp/Heartbeat/Snap; no PreVote/CheckQuorum), fixed membership. VERIFIED AGAINST THE CODE by "
         "measurement, not proof: 1/3/5 RawNodes over MemoryStorage are driven through generated schedules (ticks, campaigns, proposals, arbitrary "
         "delivery/loss/duplication/reordering, partitions, crash/restart, compaction forcing MsgSnap, one-entry-per-message paging); after every event the "
         "node's full projection must equal RS.handle's result exactly and every emitted message must be a response the handler computed or valid leader "
         "traffic (RS.leaderOutB, proved sound); an accepted trace is an RS.Run (RS.driver_step_is_run).",
    note="Level: proof for the model (Stages A-C), correspondence (lock-step, generated schedules) for handler = code; membership changes (Stage D), ReadIndex "
         "and leader transfer are outside both. Trusted: Lean kernel (propext, Classical.choice, Quot.sound), the Lean interpreter running the driver, the Go "
         "harness's projection/index shift/event classification, MemoryStorage as the persistence layer (the WAL is C16's subject). Flow control is abstracted "
         "(any true log slice is accepted), timers are not modelled (a tick is classified by its effect).",
)

NOT_YET = "check not built yet in this round; see DESIGN.md §8"
NOT_APPLICABLE = {}


def main():
    props = [json.loads(l)["id"] for l in open(os.path.join(core.VERIF, "properties.jsonl"))]
    checks = []
    for pid in props:
        c = CHECKS.get(pid)
        if not c:
            continue
        checks.append(dict(
            property_id=pid,
            quick_cmd="./check %s --tier quick" % pid,
            thorough_cmd="./check %s --tier thorough" % pid,
            evidence_file="/verif/evidence/%s.json" % pid,
            replay_cmd_template="./check %s --replay {path}" % pid,
            engine=c["engine"],
            level_claimed=dict(category=c["category"], text=c["text"], design_ref=c["design_ref"]),
            level_note=c["note"],
            technique=c["technique"],
        ))
    na = [dict(property_id=p, reason=NOT_APPLICABLE.get(p, NOT_YET)) for p in props if p not in CHECKS]
    hooks = json.load(open(os.path.join(core.VERIF, "hooks.json")))
    m = dict(
        version=1,
        setup_cmd="cd /verif/lean && lake build RedisGoModel driver && cd /verif && ./check setup",
        hooks=hooks,
        engines=json.load(open(os.path.join(core.VERIF, "engines.json"))),
        checks=checks,
        notes="Lean 4 proofs about an executable model + checked correspondence with the Go code; see DESIGN.md. "
              "known_findings.txt lists recorded and fixed defects.",
        not_applicable=na,
    )
    json.dump(m, open(os.path.join(core.VERIF, "MANIFEST.json"), "w"), indent=1)
    print("MANIFEST.json: %d checks, %d not claimed" % (len(checks), len(na)))


if __name__ == "__main__":
    main()
