"""Generator of the `config` engine's input lines (C20, configuration layer).
  CF <hex file>              a configuration file for the real (*config.Config).Parse
  CJ <hex json> <hex file>   a cluster JSON document for ParseConfigJson, after Parse of the file
  CD / CN <n>                the defaults of Setup / len(NewManager(Databases: n).DBs)
Mostly-valid files (every directive, letter-case variants incl. the two non-ASCII letters that lower-case into ASCII, comments, blank lines,
tabs, Unicode white space, CRLF line ends, missing final newline, repeated directives, numbers with sign / leading zeros / overflow / junk) plus a
malformed stream (random bytes, truncated UTF-8, one-field lines, '#' not in column 0).  `kinds` counts what was generated (printed into the evidence)."""
import collections
import json

from . import core

NAMES = ["host", "port", "logdir", "loglevel", "shardnum", "databases"]
OTHER_NAMES = ["appendonly", "maxclients", "requirepass", "timeout", "save", "dir", "database", "databasess", "ports", "hosts", "db", "#databases", "databases#"]
# spellings of "k"/"i"-free names have no exotic upper case; "logdir" has: U+0130 lower-cases to 'i' (so does the Kelvin sign to 'k', used in OTHER names)
EXOTIC = [b"LOGD\xc4\xb0R", b"logd\xc4\xb0r", b"\xe2\x84\xaaey", b"datab\xc3\x81ses", b"DATABASES\xcc\x87", b"d\xc3\xa4tabases", b"\xc5\xbfhardnum", b"PORT\xef\xbb\xbf",
          b"\xef\xbb\xbfdatabases", b"h\xd0\xbest", b"\xce\x91\xce\x92", b"\xd0\x96", b"\xf0\x9f\x98\x80", b"\xff\xfe", b"data\xc0bases", b"\xe2\x80", b"\xc3"]
SPACES = [b" ", b" ", b" ", b"\t", b"  ", b" \t ", b"\x0b", b"\x0c", b"\r", b"\xc2\xa0", b"\xc2\x85", b"\xe2\x80\x83", b"\xe3\x80\x80", b"\xe1\x9a\x80", b"\xe2\x80\xa8",
          b"\xe2\x81\x9f", b"\xe2\x80\xaf", b"\xe2\x80\x8a"]
NOT_SPACES = [b"\xe2\x80\x8b", b"\xe2\x80\x8c", b"\xc2\xa1", b"\xe2\x80", b"\xc2", b"\xe1\x9a\x81", b"\xe3\x80\x81", b"\x1c", b"\x1f", b"\x00", b"\x7f", b"\xe2\x81\xa0", b"\xef\xbb\xbf"]
NUMS = ["0", "1", "2", "15", "16", "17", "100", "1024", "1025", "6379", "6380", "65534", "65535", "65536", "-1", "-0", "+0", "+1", "+16", "-16", "007", "0016", "00", "+", "-",
        "--1", "+-1", "1+", "1_000", "0x10", "1e3", "1.0", "16.", " 16", "16x", "x16", "sixteen", "١٦", "１６", "9223372036854775807", "9223372036854775808",
        "-9223372036854775808", "-9223372036854775809", "18446744073709551615", "18446744073709551616", "99999999999999999999", "99999999999999999999x", "x99999999999999999999",
        "184467440737095516150", "-18446744073709551616", "00000000000000000000000000016", "+00000000000000000000000000016", "4294967296", "2147483648", "1\x00", "",
        "1844674407370955161x", "18446744073709551615x", "922337203685477580", "000000000000000000000"]
HOSTS = ["127.0.0.1", "0.0.0.0", "255.255.255.255", "256.1.1.1", "1.2.3", "1.2.3.4.5", "1.2.3.", ".1.2.3", "1..2.3", "01.2.3.4", "1.2.3.04", "1.2.3.00", "1.2.3.0", "1.2.3.4x", "localhost",
         "::1", "::", "fe80::1", "1:2:3:4:5:6:7:8", "1:2:3:4:5:6:7:8:9", "::ffff:1.2.3.4", "1::2::3", "fe80::1%eth0", "1.2.3.4%eth0", "%", "1.2.3.4:80", ":", "1.2.3.256", "1.2.3.1000",
         "999999999999999999999.1.1.1", "1.2.3.4\x00", "１.2.3.4", "192.168.1.10", "10.0.0.1", "a.b.c.d", "1,2,3,4", "[::1]", "::g", "0:0:0:0:0:0:0:1", "::1.2.3", "1.2.3.4.", "1.2.3.-4", "+1.2.3.4"]
TEXTS = ["/var/log/Redis", "./", "/TMP/Log", "INFO", "Debug", "warn", "ERROR", "panic", "É", "ǅ", "ΑΒΓ", "İstanbul", "K", "ſ", "ß", "ẞ", "Å", "Ж", "中文", "x\xff".encode("latin-1"),
         b"\xc3", b"a\xe2\x80b", b"\xed\xa0\x80", b"\xf0\x9f\x98\x80", b"\xf4\x90\x80\x80", b"\xc0\x80", b"A\xcc\x8a", "ǲ", "Ω", "Ⅷ", "Ⓐ", "Ａ", "𐐀", "Ꭰ"]


def b(x):
    return x if isinstance(x, bytes) else x.encode("utf-8")


def varcase(rng, s):
    r = rng.random()
    if r < 0.4:
        return s
    if r < 0.6:
        return s.upper()
    if r < 0.7:
        return s.capitalize()
    return "".join(c.upper() if rng.random() < 0.5 else c for c in s)


def rand_num(rng):
    r = rng.random()
    if r < 0.4:
        return "".join(rng.choice("+-0123456789x_ ") if rng.random() < 0.15 else rng.choice("0123456789") for _ in range(rng.randint(1, 24))).replace(" ", "") or "0"
    base = rng.choice([2 ** 63, 2 ** 64, 2 ** 63 - 1, 2 ** 64 - 1, 1024, 65535, 0, 10 ** 18, 10 ** 19]) + rng.randint(-12, 12)
    return rng.choice(["", "+", "-"]) + rng.choice(["", "0", "000"]) + str(abs(base)) + rng.choice(["", "", "", "0", "x"])


def rand_ip(rng):
    return "".join(rng.choice(".") if rng.random() < 0.25 else rng.choice("0012345689") for _ in range(rng.randint(1, 16)))


def value_for(rng, name, valid):
    if not valid and rng.random() < 0.35:
        if name in ("shardnum", "databases", "port"):
            return rand_num(rng)
        if name == "host":
            return rand_ip(rng) if rng.random() < 0.7 else ".".join(str(rng.choice([0, 1, 9, 10, 99, 100, 199, 200, 249, 250, 255, 256, 260, 300, 999, "00", "01", ""])) for _ in range(rng.choice([3, 4, 4, 4, 5])))
    if name in ("shardnum", "databases"):
        if valid:
            return str(rng.choice([1, 2, 3, 4, 8, 15, 16, 17, 32, 64, 100, 1024, rng.randint(1, 70000)]))
        return rng.choice(NUMS)
    if name == "port":
        if valid:
            return str(rng.choice([1025, 6379, 6380, 7000, 65534, rng.randint(1025, 65534)]))
        return rng.choice(NUMS)
    if name == "host":
        if valid:
            return rng.choice(["127.0.0.1", "0.0.0.0", "10.0.0.%d" % rng.randint(0, 255), "192.168.%d.%d" % (rng.randint(0, 255), rng.randint(0, 255)), "::1", "fe80::1"])
        return rng.choice(HOSTS)
    return rng.choice(TEXTS)


def line(rng, kinds, p_bad):
    """one line of a configuration file (bytes, without the line end)"""
    r = rng.random()
    if r < 0.08:
        kinds["comment"] += 1
        return b"#" + b(rng.choice(["", " comment", "databases 0", " port x", "shardnum y"]))
    if r < 0.13:
        kinds["blank"] += 1
        return rng.choice([b"", b" ", b"\t", b"\r", b"  \t "])
    if r < 0.17:
        kinds["indented-#"] += 1            # '#' not in column 0: an ordinary directive named "#…"
        return rng.choice(SPACES[:4]) + b"#" + b(rng.choice(["databases 3", " databases 3", "x y", "port"]))
    if r < 0.22:
        kinds["one-field"] += 1
        return b(varcase(rng, rng.choice(NAMES))) + rng.choice([b"", b" ", b"\t"])
    if r < 0.30:
        kinds["other-directive"] += 1
        name = b(varcase(rng, rng.choice(OTHER_NAMES))) if rng.random() < 0.7 else rng.choice(EXOTIC)
        return name + rng.choice(SPACES) + b(rng.choice(TEXTS + NUMS[:20]) or "v")
    name = rng.choice(NAMES) if rng.random() < 0.7 else rng.choice(["databases", "databases", "port", "shardnum"])
    valid = rng.random() >= p_bad
    kinds["%s-%s" % (name, "valid" if valid else "edge")] += 1
    val = b(value_for(rng, name, valid))
    nm = b(varcase(rng, name))
    if name == "logdir" and rng.random() < 0.1:
        nm = rng.choice(EXOTIC[:2])
    sep = rng.choice(SPACES)
    if rng.random() < 0.04:
        sep = rng.choice(NOT_SPACES)           # looks like a separator, is not one: a one-field line
        kinds["pseudo-space"] += 1
    out = (rng.choice(SPACES) if rng.random() < 0.1 else b"") + nm + sep + val
    if rng.random() < 0.2:
        kinds["extra-fields"] += 1
        out += rng.choice(SPACES) + b(rng.choice(["# trailing", "extra", "0", "x y z", "-1"]))
    if rng.random() < 0.1:
        out += rng.choice(SPACES)
    return out


def conf_file(rng, kinds, p_bad=0.12, maxlines=9):
    n = rng.choice([0, 1, 1, 2, 3, 4, 5, 6, maxlines])
    eol = rng.choice([b"\n", b"\n", b"\n", b"\r\n"])
    lines = [line(rng, kinds, p_bad) for _ in range(n)]
    if rng.random() < 0.25 and lines:
        # the directive C20 is about, repeated: last one wins
        k = rng.randrange(len(lines) + 1)
        lines.insert(k, b(varcase(rng, "databases")) + b" " + b(value_for(rng, "databases", rng.random() < 0.8)))
        kinds["databases-repeated"] += 1
    body = eol.join(lines)
    if lines and rng.random() < 0.7:
        body += eol
    else:
        kinds["no-final-newline"] += 1
    if eol == b"\r\n":
        kinds["crlf"] += 1
    return body


def malformed(rng, kinds):
    kinds["malformed"] += 1
    r = rng.random()
    if r < 0.3:
        return bytes(rng.randrange(256) for _ in range(rng.randint(0, 40)))
    alphabet = [b"databases", b"DATABASES", b"port", b"host", b"shardnum", b" ", b" ", b"\n", b"\n", b"#", b"\t", b"\r", b"0", b"1", b"16", b"-", b"+", b"\xc2", b"\xa0", b"\xe2\x80", b"\x83", b"\xff",
                b"\x00", b"9" * 19, b"x", b".", b":", b"1.2.3.4", b"\xc4\xb0", b"\n#", b"\x0b"]
    return b"".join(rng.choice(alphabet) for _ in range(rng.randint(1, 14)))


# ---- cluster JSON

JSON_KEYS = ["NodeID", "PeerAddrs", "RaftAddr", "PeerIDs", "KVPort", "JoinCluster", "IsCluster", "Databases", "Host", "Port", "ShardNum", "LogDir", "LogLevel", "ChanBufferSize",
             "ConfFile", "ClusterConfigPath"]
INT_KEYS = {"NodeID", "KVPort", "Databases", "Port", "ShardNum", "ChanBufferSize"}
BOOL_KEYS = {"JoinCluster", "IsCluster"}


def json_doc(rng, kinds):
    """(document bytes, predicted effect) — predicted: dict field -> value for right-typed documents with distinct keys, None when the
    document is not predictable by this generator (wrong types, syntax damage, duplicate keys)"""
    peers = ["http://127.0.0.1:%d" % (16380 + i) for i in range(rng.choice([0, 1, 1, 2, 3, 3, 5]))]
    doc = collections.OrderedDict()
    r = rng.random()
    node = rng.choice([1, 1, 2, 3, len(peers), len(peers) + 1, 0, -1, 7, 2 ** 31, None])
    if node is not None:
        doc["NodeID"] = node
    doc["PeerAddrs"] = rng.choice([",".join(peers), ",".join(peers), ",".join(peers) + ",", "", ",", "a,,b"]) if rng.random() < 0.9 else None
    if doc["PeerAddrs"] is None:
        del doc["PeerAddrs"]
    if rng.random() < 0.5:
        doc["RaftAddr"] = rng.choice(["http://127.0.0.1:16380", "", "x", "http://10.0.0.1:9"])
    if rng.random() < 0.4:
        doc["PeerIDs"] = rng.choice(["1,2,3", "", "1"])
    if rng.random() < 0.4:
        doc["KVPort"] = rng.choice([6380, 0, 70000, -1])
    if rng.random() < 0.3:
        doc["JoinCluster"] = rng.random() < 0.5
    if rng.random() < 0.3:
        doc["IsCluster"] = rng.random() < 0.5
    if rng.random() < 0.45:
        doc["Databases"] = rng.choice([16, 0, -3, 2, 1, 100])        # a cluster file that tries to configure the database count
    for k in ("Host", "LogDir", "LogLevel"):
        if rng.random() < 0.1:
            doc[k] = rng.choice(["not-an-ip", "/Tmp", "DEBUG", ""])
    for k in ("Port", "ShardNum", "ChanBufferSize"):
        if rng.random() < 0.1:
            doc[k] = rng.choice([80, 0, -1, 6379, 99999])
    if rng.random() < 0.15:
        doc[rng.choice(["unknown", "nodeid2", "Others2", "raft_addr"])] = rng.choice([1, "x", None, [1, 2], {"a": 1}])
    predictable = True
    # letter case of the keys: encoding/json matches case-insensitively
    out = collections.OrderedDict()
    for k, v in doc.items():
        kk = k
        if rng.random() < 0.3 and k in JSON_KEYS:
            kk = rng.choice([k.lower(), k.upper(), k.swapcase()])
            kinds["json-key-case"] += 1
        out[kk] = v
    mode = rng.random()
    if mode < 0.12:
        # wrong type for a known key: Unmarshal reports an error, the other fields are still decoded
        k = rng.choice([k for k in out] or ["NodeID"])
        base = next((c for c in JSON_KEYS if c.lower() == k.lower()), None)
        if base in INT_KEYS:
            out[k] = rng.choice(["1", 1.5, True, [1], 1e30])
        elif base in BOOL_KEYS:
            out[k] = rng.choice(["true", 1, 0])
        elif base is not None:
            out[k] = rng.choice([1, False, ["a"]])
        predictable = False
        kinds["json-wrong-type"] += 1
    text = json.dumps(out, indent=rng.choice([None, None, 1]))
    if 0.12 <= mode < 0.2:
        predictable = False
        kinds["json-syntax-damage"] += 1
        text = rng.choice([text[:-1], text[: len(text) // 2], text + "}", "", "null", "[]", "{}", "{\"NodeID\":1,}", text.replace(":", "=", 1), "﻿" + text, "{\"NodeID\":1,\"NodeID\":0}",
                           "{\"NodeID\":0,\"nodeid\":2,\"PeerAddrs\":\"a,b\"}"])
    else:
        kinds["json-well-typed" if predictable else "json-other"] += 1
    pred = None
    if predictable:
        pred = {}
        for k, v in out.items():
            base = next((c for c in JSON_KEYS if c.lower() == k.lower()), None)
            if base is not None:
                pred[base] = v
    return text.encode("utf-8"), pred


def gen_lines(rng, n, kinds):
    lines = ["CD"] + ["CN %d" % k for k in (1, 2, 16, 17, 0, -1, 64)]
    # fixed corner files first
    fixed = [b"", b"\n", b"databases 1", b"databases 1\n", b"DATABASES 2\ndatabases 3", b"databases 3\n#databases 0\n", b"databases 0", b"databases -1\n", b"databases x",
             b"databases 99999999999999999999", b"databases +4", b"databases 04", b"databases 4 5", b"databases\n4\n", b" #c\ndatabases 2", b"databases\t7\r\n", b"Databases\xc2\xa09\n",
             b"databases 9\xc2\xa0\n", b"databases 5\ndatabases 0x", b"port 1024", b"port 1025", b"port 65534", b"port 65535", b"port x", b"port 99999999999999999999",
             b"host 1.2.3.4\nhost 1.2.3\n", b"host ::1", b"host 1::2::3", b"shardnum 0", b"shardnum -5", b"shardnum x", b"shardnum 99999999999999999999", b"LOGD\xc4\xb0R /A/B\n",
             b"logdir /TMP/\xc3\x89\xff\n", b"loglevel DEBUG", b"foo bar\nFOO baz\nfoo qux", b"\xe2\x84\xaaEY v", b"#", b"# databases 0", b"databases 2\n#", b"databases 16\n\n\n", b"databases 2\r\ndatabases 3\r\n"]
    for f in fixed:
        lines.append("CF " + core.hx(f))
    kinds["fixed"] += len(fixed)
    preds = {}
    for i in range(n):
        r = rng.random()
        if r < 0.62:
            lines.append("CF " + core.hx(conf_file(rng, kinds)))
        elif r < 0.72:
            lines.append("CF " + core.hx(conf_file(rng, kinds, p_bad=0.5, maxlines=4)))
        elif r < 0.80:
            lines.append("CF " + core.hx(malformed(rng, kinds)))
        else:
            doc, pred = json_doc(rng, kinds)
            conf = conf_file(rng, kinds, p_bad=0.02, maxlines=4) if rng.random() < 0.8 else b""
            l = "CJ %s %s" % (core.hx(doc), core.hx(conf))
            lines.append(l)
            if pred is not None:
                preds[l] = pred
    return lines, preds
