"""Step 1-2 of every check: regenerate source facts, build the Lean development, audit the property's theorems."""
import json
import os

from . import core, facts


def registry():
    return json.load(open(os.path.join(core.LEAN, "registry.json")))


class Ctx:
    pass


def prepare(R):
    ctx = Ctx()
    reg = registry().get(R.prop, {})
    ctx.reg = reg
    # (1) facts regenerated from /repo on every run
    ctx.facts_ok, ctx.facts_detail = facts.regenerate(R)
    # (2) incremental build of the whole development and the driver
    ok, log, dt, failed = core.lake_build()
    ctx.build_ok, ctx.build_log, ctx.failed = ok, log, failed
    R.checker_cmds.append("cd /verif/lean && lake build RedisGoModel driver")
    R.extra["lake_build_s"] = round(dt, 1)
    mods = reg.get("modules", [])
    thms = reg.get("theorems", [])
    # (3) banned constructs in the property's modules (comments stripped)
    hits = core.grep_banned(mods)
    R.oblige("no sorry/admit/axiom/native_decide/bv_decide/implemented_by/unsafe in " + ",".join(mods), "grep",
             not hits, "; ".join("%s:%d %s" % h for h in hits[:5]))
    # (4) axiom audit of every registered theorem
    res, adt = core.audit(mods, thms) if thms else ({}, 0.0)
    R.checker_cmds.append("lake env lean <#print axioms of the %d registered theorems>" % len(thms))
    R.extra["audit_s"] = round(adt, 1)
    ctx.broken = []
    for t in thms:
        okt, detail = res.get(t, (False, "not audited"))
        R.oblige(t, "theorem", okt, detail)
        if not okt:
            ctx.broken.append((t, detail))
    # (5) thorough tier: the toolchain's independent re-checker replays the property's compiled modules through the kernel
    if R.tier == "thorough" and ok and mods:
        rc, so, se, ldt = core.run(["lake", "env", "leanchecker"] + list(mods), cwd=core.LEAN, timeout=3600)
        R.checker_cmds.append("cd /verif/lean && lake env leanchecker " + " ".join(mods))
        R.extra["leanchecker_s"] = round(ldt, 1)
        R.oblige("leanchecker re-checks " + ",".join(mods), "recheck", rc == 0, (so + se)[-400:])
        if rc != 0:
            ctx.broken.append(("leanchecker", (so + se)[-400:]))
    if not ok:
        # a module that fails to build breaks THIS property only if the property's theorems or the drivers it runs depend on it (another property's
        # regenerated fact file - F3 sites, F6 reply sites, F2 skeletons, the Ready arm - failing is that property's alarm, not everybody's)
        roots = list(mods) + ["Driver.lean"] + (["RaftDriver.lean"] if R.prop == "C15" else [])
        closure = core.import_closure(roots)
        names = {f[:-5].replace("/", ".") if f.endswith(".lean") else f for f in failed}
        relevant = sorted(n for n in names if n in closure or n in ("driver", "Driver"))
        R.extra["lake_build_failed_modules"] = sorted(names)
        if (relevant or not names) and not ctx.broken:
            ctx.broken.append(("lake build", "failed modules: " + ", ".join(relevant or failed) + " :: " + log[-600:]))
            R.oblige("lake build", "build", False, log[-600:])
        elif not relevant:
            R.extra["lake_build_note"] = "modules outside this property's dependencies failed to build (reported by the properties that own them): " + ", ".join(sorted(names))
    R.extra["partial_theorems"] = reg.get("partial", [])
    R.extra["hypotheses"] = reg.get("hypotheses", [])
    R.extra["full_statement"] = reg.get("statement", "")
    R.trusted = ["Lean 4.33 kernel", "axioms: propext, Classical.choice, Quot.sound (no others; audited by #print axioms on this run)",
                 "Lean compiler/runtime for running the driver", "the Go harness /verif/harness and the Python orchestrator /verif/vlib",
                 ] + reg.get("trusted", [])
    R.assumptions = list(reg.get("assumptions", []))
    return ctx
