"""C09 — list commands preserve order, multiplicity and length exactly.
Model: lean/RedisGoModel/Exec/List.lean (+ Ds/ListOps.lean); theorems: Props/C09.lean; tie: exec engine (server.Manager.ExecCommand +
VerifDump hook, whose list rendering checks forward walk = reverse of backward walk and both = Len)."""
import random

from .. import core, execgen_list, execsuite, families, concsuite


def run(R, ctx):
    # small-scope exhaustive part: every list over two letters (quick: up to 3 elements / LPOS up to 4; thorough: 4 / 6) against every
    # index, count and LPOS option combination in a window that straddles both ends
    small = execgen_list.small_scope(3, 4, 5) if R.tier == "quick" else execgen_list.small_scope(4, 6, 6)
    execsuite.run_exec_suite(
        R, ctx, name="lists",
        gens=[(1, families.list_reread(execgen_list.ListGen()))],
        nprog=(300, 5000), corpus="exec_c09", extra_lines=small + families.refused_changes_nothing(random.Random(R.seed * 31 + 9), 120 if R.tier == "quick" else 2000) +
        execgen_list.long_list_programs(random.Random(R.seed * 131 + 9), 150 if R.tier == "quick" else 3000),
        what="list commands (LPUSH/RPUSH and X forms, LPOP/RPOP with and without count, LLEN, LINDEX, LRANGE, LSET, LREM, LTRIM, LPOS with "
             "RANK/COUNT/MAXLEN, LMOVE incl. source = destination, BLPOP/BRPOP served at once / nil at a 0.1-0.3 s timeout / invalid timeout) over "
             "values from three letters and the empty string, indexes and counts across both ends and at the int64 extremes, keys of other "
             "types (SET), long and already-passed deadlines (EXPIRE), DEL/TYPE/TTL/EXISTS in between; long lists (33-90 distinct elements: positional reads and writes near the tail, head and middle between pops and pushes at both ends); refused-command scenarios followed by a full dump (a refused command changes nothing)")

    rule = R.rule
    concsuite.run_conc(R, ctx, "list-bigread", ['bigread', 'bpoptime'], (2, 12), race=False)
    R.rule = rule + " Concurrent scenario(s) bigread of the conc engine (see C05): the family's containers under concurrent clients, verdict by invariants that need no history search."
    families.alias_probe(R, ctx, "list")


def replay(R, payload):
    if payload.get("engine") == "alias":
        return families.alias_replay(R, payload)
    if payload.get("engine") == "conc":
        return concsuite.replay_conc(R, payload)
    return core.generic_replay(R, payload)
