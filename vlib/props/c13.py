"""C13 — multi-key commands are deadlock-free and atomic.
Theorems: DL.progress (ascending acquisition => some step is always enabled, writer-preferring RW locks, any stripe function),
SetOps.lockPoses_spec (sortedLockPoses: strictly ascending, exactly the stripes of the keys), Cc.atomicity, TraceCheck.lock_ascending.
Tie: hook H2 — every command's acquisition sequence must be strictly ascending and two-phase (TraceCheck.ok) on every exec run;
exploration: concurrent multi-key mixes on colliding keys under a watchdog, atomicity invariants at quiescence, -race."""
from .. import core, execgen, execsuite, concsuite, families


def run(R, ctx):
    execsuite.run_exec_suite(R, ctx, name="acquisition-order", gens=families.multikey_gens(), nprog=(250, 4000), corpus="exec_c13",
                             what="multi-key commands (MSET, RENAME, MGET, DEL/EXISTS with several keys incl. repeated keys, and the list/set "
                                  "multi-key commands when their family is present) with hook H2 recording; ShardNum lowered so stripes collide",
                             events=True, shards=[2, 4, 1024])
    rule = R.rule
    concsuite.run_conc(R, ctx, "multi-key", ["multikey", "bigmulti"], (4, 40), env_extra=families.conc_env())
    R.rule = rule + (" Concurrent exploration: 8 goroutines mixing MSET (both orders of the same key pair), LMOVE and SMOVE back and forth, RENAME "
                     "of a token, multi-key DEL/EXISTS/MGET and single-key traffic on colliding stripes (ShardNum 1, 2, 1024) under a 20 s watchdog; "
                     "at quiescence: MSET pair equal, list/set elements conserved, token exists under exactly one name, counter exact.")


def replay(R, payload):
    if payload.get("engine") == "conc":
        return concsuite.replay_conc(R, payload)
    return core.generic_replay(R, payload)
