"""C02 — RESP request decoding is exact, binary-safe and fragmentation-independent.
Theorems: Resp.C02_roundtrip / C02_compositional (every pipeline of commands over arbitrary byte strings decodes to exactly the
encoded arguments; parser state fully reset between commands); totality by the termination checker.
Tie: resp.ParseStream over readers that split the stream arbitrarily vs the model's parseLoop on the complete stream."""
import os
import random

from .. import core, gen, servesuite


def wellformed(rng, maxcmds=50):
    cmds = []
    for _ in range(rng.randint(1, maxcmds if rng.random() < 0.2 else 6)):
        cmds.append([gen.bin_arg(rng, big=True) for _ in range(rng.randint(1, 6))])
    return b"".join(gen.enc_cmd(c) for c in cmds)


FRAGS = [b"\n", b"\r\n", b"\r", b"$-1\r\n", b"*-1\r\n", b"*0\r\n", b"$0\r\n\r\n", b"*1\r\n*1\r\n$1\r\na\r\n", b"*2\r\n$1\r\na\r\n",
         b"$99999999999\r\n", b"$9223372036854775807\r\n", b"$536870913\r\n", b"*9223372036854775807\r\n", b"*99999999999999999999\r\n",
         b"$-2\r\n", b"$abc\r\n", b"*x\r\n", b"+OK\r\n", b"-ERR\r\n", b":12\r\n", b":+7\r\n", b":x\r\n", b":\r\n", b"PING\r\n", b"GET / HTTP/1.1\r\n",
         b"$3\r\nabcde\r\n", b"$3\r\nab\r\n", b"$1\r\na\n\n", b"*1\r\n$-1\r\n", b"*2\r\n$-1\r\n+x\r\n", b"*+1\r\n$1\r\na\r\n", b"*01\r\n$01\r\nb\r\n",
         b"*-0\r\n", b"$-0\r\n\r\n", b"x\n", b"\r\n\r\n", b"$ 1\r\n", b"*1 \r\n", b"\x00\r\n", b"$2\r\n\r\n\r\n", b"*1\r\n$4\r\nPING\r\n"]


def malformed(rng):
    r = rng.random()
    if r < 0.35:
        return b"".join(rng.choice(FRAGS) for _ in range(rng.randint(1, 5)))
    base = bytearray(wellformed(rng, 4))
    if r < 0.55 and base:
        for _ in range(rng.randint(1, 3)):
            i = rng.randrange(len(base))
            base[i] ^= 1 << rng.randrange(8)
        return bytes(base)
    if r < 0.7 and base:
        return bytes(base[:rng.randrange(len(base))])
    if r < 0.85 and base:
        i = rng.randrange(len(base))
        return bytes(base[:i]) + rng.choice(FRAGS) + bytes(base[i:])
    return bytes(base) + rng.choice(FRAGS) + wellformed(rng, 2)


def run(R, ctx):
    R.rule = ("streams: well-formed pipelines (1-50 commands, arguments from a binary alphabet incl. CR/LF/NUL/empty/0xff and 4-10 kB values "
              "crossing the 4096-byte bufio buffer) and malformed streams (bit flips, truncations, bad lengths, bare LF, nested/negative headers, "
              "inline text); each stream is fed whole, byte by byte and in seeded random chunks. A case is non-trivial when the model decodes at "
              "least one complete array command from it; distinct = distinct (stream, chunking).")
    binary, err = core.build_harness()
    R.oblige("harness builds against /repo working tree (-tags verif)", "build", binary is not None, err or "")
    if binary is None:
        R.violation("harness-build", dict(kind="tie-broken", summary="harness does not build: " + (err or "")[-800:]), found_input=False)
        return
    rng = random.Random(R.seed * 7919 + 2)
    nw, nm = (600, 1500) if R.tier == "quick" else (8000, 30000)
    streams = [wellformed(rng) for _ in range(nw)] + [malformed(rng) for _ in range(nm)]
    lines = list(core.corpus("parser"))
    for s in streams:
        h = core.hx(s)
        lines.append("P %s 0" % h)
        if len(s) < 3000:
            lines.append("P %s 1" % h)
        lines.append("P %s %d" % (h, rng.randint(2, 10 ** 9)))
    obs, crashes, se = core.run_harness_resilient(binary, "parser", lines)
    d = core.run_driver(obs)
    core.negative_control(R, obs, "parser")
    R.add_cases(len(obs), int(d["summary"].get("positive", 0)), samples=[obs[0][:300], obs[len(obs) // 2][:300], obs[-1][:300]])
    R.extra["streams"] = dict(wellformed=nw, malformed=nm, lines=len(lines), harness_crashes=crashes,
                              longest_stream=max(len(s) for s in streams))
    ok = not d["mismatches"] and not d["unknown"] and crashes == 0
    R.oblige("correspondence resp.ParseStream (any chunking) = Resp.parseLoop (complete stream)", "correspondence", ok,
             "%d mismatches, %d harness crashes" % (len(d["mismatches"]), crashes))
    R.suites.append(dict(name="parser", lines=len(obs), mismatches=len(d["mismatches"]), crashes=crashes, driver_s=round(d["seconds"], 1)))
    seen = set()
    for mm in d["mismatches"] + d["unknown"]:
        src = mm.split(" :: ", 1)[1] if " :: " in mm else ""
        f = src.split()
        key = mm.split(" :: ")[0].split(" ", 2)[2][:60] if " :: " in mm else mm[:60]
        if key in seen or len(seen) >= 3:
            continue
        seen.add(key)
        R.violation("parser-%d" % len(seen), dict(
            kind="impl-violates-spec", engine="parser", summary=mm[:400], lines=[" ".join(f[:3])] if f else [],
            explanation="the decoder's event list differs from the model's (proved to decode every well-formed pipeline exactly and to be total); "
                        "got=P means the process died (a panic in the parser goroutine cannot be recovered)", stderr=se))
    # isolation: nothing of a malformed tail is executed, the offending connection is closed, other connections carry on
    rule = R.rule
    servesuite.run_serve_suite(R, ctx, "isolation", (80, 1500), "Protocol damage inside pipelines: the commands before it are answered, "
                               "the connection is closed, nothing after it is executed (probed from another connection). Half-closed pipelines: 50-400 commands on a TCP connection whose sending "
                               "side is closed at once; every command written is decoded, executed and answered.", pubsub=False, halfclose=3)
    R.rule = rule + " Plus serve sessions: " + R.rule
    if R.tier == "thorough" or os.environ.get("VERIF_IDLE_SWEEP"):
        from .. import idlesweep
        idlesweep.run(R, int(os.environ.get("VERIF_IDLE_SWEEP") or 62))
        R.rule += " Plus (thorough tier) the idle/gap sweep on the real binary: one case per connection."
    if ctx.broken and not d["mismatches"]:
        R.violation("proof-broken", dict(kind="proof-broken", broken=ctx.broken,
                                         summary="theorem(s) no longer check: " + ", ".join(t for t, _ in ctx.broken)), found_input=False)


def replay(R, payload):
    if payload.get("engine") == "idlesweep":
        from .. import idlesweep
        return idlesweep.replay(R, payload)
    return core.generic_replay(R, payload)
