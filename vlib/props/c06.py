"""C06 — expiring keys disappear at their deadline and not before.
Theorems: Props/C06.lean (lazy check = live view; visible before / invisible after; TTL/PERSIST/EXPIRE/SET laws on the model the
driver runs) and Ttl.congruence / program_refines (generic congruence for block programs).
Tie: real-clock batches through the exec engine — deadlines are attached at ~0.82 s into a second, so between the deadline (next
second boundary) and the timer goroutine's firing (~0.8 s later) only the lazy expiry check can hide the key; every reading and
writing command probes in that window and again after the timers fired; `now` as observed before/after each command goes to the model."""
import random

from .. import core, execgen, execsuite, ttlgen, families


CREATE = {
    "str": [[b"SET", b"K", b"v"]], "list": [[b"RPUSH", b"K", b"a"]], "set": [[b"SADD", b"K", b"a"]], "hash": [[b"HSET", b"K", b"f", b"v"]],
    "zset": [[b"ZADD", b"K", b"1", b"a"]], "stream": [[b"XADD", b"K", b"1-1", b"f", b"v"]],
}
# ways a key of each type ceases to exist other than plain DEL (each must take the deadline with it)
EMPTY = {
    "str": [[[b"DEL", b"K"]], [[b"RENAME", b"K", b"other"]]],
    "list": [[[b"LPOP", b"K"]], [[b"RPOP", b"K", b"5"]], [[b"LREM", b"K", b"0", b"a"]], [[b"LTRIM", b"K", b"5", b"9"]], [[b"LMOVE", b"K", b"other", b"LEFT", b"RIGHT"]],
             [[b"BLPOP", b"K", b"0.05"]], [[b"RENAME", b"K", b"other"]]],
    "set": [[[b"SREM", b"K", b"a"]], [[b"SPOP", b"K"]], [[b"SPOP", b"K", b"3"]], [[b"SMOVE", b"K", b"other", b"a"]], [[b"SINTERSTORE", b"K", b"nokey", b"K"]],
            [[b"SDIFFSTORE", b"K", b"nokey"]], [[b"SUNIONSTORE", b"K", b"nokey", b"nokey2"]], [[b"SADD", b"q", b"z"], [b"SINTERSTORE", b"K", b"K", b"q"]]],
    "hash": [[[b"HDEL", b"K", b"f"]]],
    "zset": [[[b"ZREM", b"K", b"a"]]],
    "stream": [[[b"DEL", b"K"]]],
}


def deadline_follows_key(rng, n):
    """a key with a deadline ceases to exist through each family's own emptying path and the name is re-created by a command that does
    not clear deadlines: the new key must have no deadline (TTL -1) — a deadline left behind would be inherited"""
    lines = []
    kinds = list(CREATE)
    for i in range(n):
        t = rng.choice(kinds)
        k = b"d%d" % rng.randint(0, 3)
        sub = lambda argv: [k if a == b"K" else a for a in argv]
        lines.append("R")
        for c in CREATE[t]:
            lines.append(execgen.render(sub(c), [k]))
        lines.append(execgen.render([b"EXPIRE", k, rng.choice([b"1000", b"50", b"100000"])], [k]))
        for c in rng.choice(EMPTY[t]):
            lines.append(execgen.render(sub(c), [k, b"other"]))
        t2 = rng.choice(kinds)
        for c in CREATE[t2]:
            c2 = sub(c)
            if t2 == "str" and rng.random() < 0.7:
                c2 = rng.choice([[b"APPEND", k, b"x"], [b"INCR", k], [b"SETRANGE", k, b"1", b"y"], [b"SET", k, b"v", b"KEEPTTL"], [b"SETNX", k, b"v"]])
            lines.append(execgen.render(c2, [k]))
        lines.append(execgen.render([b"TTL", k], [k], full=True))
    return lines


def overwrite_volatile(rng):
    """a key WITH a deadline replaced as a whole by a value that has none (and the reverse): RENAME src dst, the STORE forms, LMOVE / SMOVE creating the key, SET, MSET, SETNX refused -
    the deadline belongs to the value that was replaced, not to the name (seeded change C01-rename-onto-volatile, once caught here only by chance of the random programs)"""
    R = execgen.render
    lines = []
    mk = {"str": [b"SET", b"K", b"v"], "list": [b"RPUSH", b"K", b"a", b"b"], "set": [b"SADD", b"K", b"m", b"n"], "hash": [b"HSET", b"K", b"f", b"v"], "zset": [b"ZADD", b"K", b"1", b"m"]}
    sub = lambda c, k: [k if x == b"K" else x for x in c]
    ops = [lambda: [b"RENAME", b"src", b"dst"], lambda: [b"SET", b"dst", b"new"], lambda: [b"MSET", b"dst", b"new"], lambda: [b"SUNIONSTORE", b"dst", b"src"], lambda: [b"SDIFFSTORE", b"dst", b"src", b"nosuch"],
           lambda: [b"SINTERSTORE", b"dst", b"src"], lambda: [b"LMOVE", b"src", b"dst", b"LEFT", b"RIGHT"], lambda: [b"SMOVE", b"src", b"dst", b"m"], lambda: [b"SETNX", b"dst", b"new"], lambda: [b"RENAME", b"dst", b"src"]]
    for tdst in mk:
        for tsrc in mk:
            for op in ops:
                for dst_ttl, src_ttl in ((b"1000", None), (None, b"1000"), (b"1000", b"50")):
                    if rng.random() > 0.2:
                        continue
                    lines.append("R")
                    lines.append(R(sub(mk[tdst], b"dst"), [b"dst"]))
                    lines.append(R(sub(mk[tsrc], b"src"), [b"src"]))
                    if dst_ttl:
                        lines.append(R([b"EXPIRE", b"dst", dst_ttl], [b"dst"]))
                    if src_ttl:
                        lines.append(R([b"EXPIRE", b"src", src_ttl], [b"src"]))
                    lines.append(R(op(), [b"src", b"dst"]))
                    lines.append(R([b"TTL", b"dst"], [b"src", b"dst"]))
                    lines.append(R([b"TTL", b"src"], [b"src", b"dst"], full=True))
    return lines


def run(R, ctx):
    rng = random.Random(R.seed * 7 + 6)
    nb, n = (2, 600) if R.tier == "quick" else (30, 800)
    lines = []
    ex = families.ttl_extras()
    for _ in range(nb):
        lines += ttlgen.batch(rng, n, extra_setup=ex[0], extra_probe=ex[1])
    for _ in range(1 if R.tier == "quick" else 6):
        # a small batch of multi-key probes (the expiring key first, a key without deadline after it; KEYS over a key that is past its deadline and still stored)
        lines += ttlgen.batch(rng, 60, only=ttlgen.MULTI_PROBES, plain=True, attach_ms=520)   # set-up done before the boundary; timers fire from +0.52 s on
    for _ in range(1 if R.tier == "quick" else 8):
        lines += ttlgen.restore_across_deadline(rng)
        lines += ttlgen.interplay(rng)
    execsuite.run_exec_suite(R, ctx, name="ttl-batches", gens=families.all_gens(), nprog=(250, 3000), corpus="exec_c06",
                             what="TTL batches on the real clock: every way of attaching a deadline (SET EX/PX/EXAT, SETEX, EXPIRE with each option), "
                                  "modifiers (PERSIST, SET with/without KEEPTTL, RENAME, DEL, APPEND, MSET, refused NX/XX), probes by every reading and "
                                  "writing string/key command before the deadline, in the lazy-expiry-only window and after the timers fired; plus "
                                  "TTL interplay (keys due in 1 s are extended / persisted / deleted / overwritten / renamed: the keys due in 2 s still expire on time); a keyspace snapshot written and loaded into a fresh database in the lazy-expiry window (restore across a deadline: every value type); "
                                  "ordinary programs of every command family with long, zero and negative TTLs (a deadline left behind by a deleted key, or inherited by a re-created one, shows in the dump)",
                             extra_lines=lines + deadline_follows_key(rng, 400 if R.tier == "quick" else 6000) + overwrite_volatile(random.Random(R.seed * 11 + 6)))
    R.extra["ttl_batches"] = dict(batches=nb, scenarios_per_batch=n, attach_kinds=ttlgen.ATTACH, modifiers=ttlgen.MODIFY, probes=ttlgen.PROBES)


def replay(R, payload):
    return core.generic_replay(R, payload)
