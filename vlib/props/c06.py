"""C06 — expiring keys disappear at their deadline and not before.
Theorems: Props/C06.lean (lazy check = live view; visible before / invisible after; TTL/PERSIST/EXPIRE/SET laws on the model the
driver runs) and Ttl.congruence / program_refines (generic congruence for block programs).
Tie: real-clock batches through the exec engine — deadlines are attached at ~0.82 s into a second, so between the deadline (next
second boundary) and the timer goroutine's firing (~0.8 s later) only the lazy expiry check can hide the key; every reading and
writing command probes in that window and again after the timers fired; `now` as observed before/after each command goes to the model."""
import random

from .. import core, execgen, execsuite, ttlgen, families


def run(R, ctx):
    rng = random.Random(R.seed * 7 + 6)
    nb, n = (2, 600) if R.tier == "quick" else (30, 800)
    lines = []
    ex = families.ttl_extras()
    for _ in range(nb):
        lines += ttlgen.batch(rng, n, extra_setup=ex[0], extra_probe=ex[1])
    execsuite.run_exec_suite(R, ctx, name="ttl-batches", gens=[(1, execgen.string_cmd)], nprog=(60, 600), corpus="exec_c06",
                             what="TTL batches on the real clock: every way of attaching a deadline (SET EX/PX/EXAT, SETEX, EXPIRE with each option), "
                                  "modifiers (PERSIST, SET with/without KEEPTTL, RENAME, DEL, APPEND, MSET, refused NX/XX), probes by every reading and "
                                  "writing string/key command before the deadline, in the lazy-expiry-only window and after the timers fired; plus "
                                  "ordinary programs with long, zero and negative TTLs",
                             extra_lines=lines)
    R.extra["ttl_batches"] = dict(batches=nb, scenarios_per_batch=n, attach_kinds=ttlgen.ATTACH, modifiers=ttlgen.MODIFY, probes=ttlgen.PROBES)


def replay(R, payload):
    return core.generic_replay(R, payload)
