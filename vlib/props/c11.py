"""C11 — set commands implement exact set algebra.
Model: lean/RedisGoModel/Exec/{Core,Set,Dispatch}.lean (+ Ds/SetOps.lean); theorems: Props/C11.lean;
tie: exec engine (server.Manager.ExecCommand + VerifDump hook), SPOP/SRANDMEMBER in checker mode."""
import random

from .. import core, execgen_set, execsuite, families, concsuite


def run(R, ctx):
    rng = random.Random(R.seed * 31 + 11)
    execsuite.run_exec_suite(
        R, ctx, name="sets", extra_lines=families.refused_changes_nothing(rng, 300 if R.tier == "quick" else 5000) +
        families.large_container_programs(random.Random(R.seed * 131 + 11), 60 if R.tier == "quick" else 1500, "set"),
        gens=[(1, execgen_set.SetGen())],
        nprog=(500, 8000), corpus="exec_c11", keys=execgen_set.KEYS,
        what="set commands (SADD, SREM, SISMEMBER, SCARD, SMEMBERS, SMOVE, SPOP and SRANDMEMBER with and without count in checker mode, "
             "SUNION/SINTER/SDIFF and their STORE forms with 1-4 sources incl. repeated keys and destination among the sources) over existing, "
             "missing, wrong-typed (SET), long-TTL (EXPIRE k 1000) and already-expired (EXPIRE k -1) keys; members incl. the empty string, "
             "CR/LF and binary bytes; count extremes (0, negative, +-2^63, non-numeric); arity damage; "
             "refused-command scenarios (a wrong-typed source behind good ones, destination among the sources, then a full dump: a refused command changes nothing)")

    rule = R.rule
    concsuite.run_conc(R, ctx, "set-addrem", ['addrem', 'storeacc', 'bigmulti'], (3, 12), race=False)
    R.rule = rule + " Concurrent scenario(s) addrem, storeacc (STORE forms accumulating into a destination that is one of their sources, several clients on one destination) of the conc engine (see C05): the family's containers under concurrent clients, verdict by invariants that need no history search."
    families.alias_probe(R, ctx, "set")


def replay(R, payload):
    if payload.get("engine") == "alias":
        return families.alias_replay(R, payload)
    if payload.get("engine") == "conc":
        return concsuite.replay_conc(R, payload)
    return core.generic_replay(R, payload)
