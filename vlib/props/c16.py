"""C16 — Raft log and snapshot files recover to a consistent prefix after any crash.

Proved (Lean, kernel-checked; see lean/registry.json "C16"): byte format round trips (varint, walpb.Record, frame length field,
frame, record sequences through the rolling CRC-32C, across a segment cut), single-byte detection by CRC-32C for record payloads
and snapshot payloads, padding irrelevance, snapshot fallback on the loadMatching model, and the sector-atomic torn-tail theorem on
the concrete byte layout under the explicit NoCollision hypothesis.

Enumerated on the real code (this file + harness/wal.go + Driver/Wal.lean): operation sequences against the real wal/snap packages;
segment images compared byte for byte with the model writer; every subset of reverted unsynced tail sectors (<= 6 sectors, random
beyond) and single-byte corruptions {0x00, low bit flipped, 0xff} at the enumerated offsets -> OpenForRead+ReadAll, Verify,
Open+ReadAll, Repair+reopen on the real code, compared with the model's verdict on the same mutilated image, and checked directly
against the property's oracle (synced records all there / unmodified prefix or error / repairable).

Recorded findings (known_findings.txt; each has a deterministic repro that prints KNOWN-FINDING while it still fails): wal/corrupt/type-byte (the
CRC does not cover a record's type byte; model counterpart C16.C16_statement_false) and wal/torn-save/snapshot-with-entries (harness/tornsave.go:
a Ready carrying a snapshot AND entries whose wal.Save is cut between the entry record and the hard-state record leaves directories on which the
real restart path dies with ErrSliceOutOfRange on every start; model counterpart ReadyLoop.C08Ready.snapshot_with_entries_strands; the control
directory with the hard-state record must restart, any other failure is a violation)."""
import collections
import os
import random

from .. import core

LEVEL = "proof"
KNOWN_SIG = "wal/corrupt/type-byte"
TORN_SIG = "wal/torn-save/snapshot-with-entries"


STALE_SCENARIO = ["WC 4096 nil", "WS 1 1 0 6 0 1 1 nil 0 1 2 nil 0 1 3 nil 0 1 4 nil 0 1 5 nil 0 1 6 nil", "WS 2 2 2 2 0 2 3 nil 0 2 4 nil",
                  "WN 4 2 3", "WX"]


def hxn(b):
    return "nil" if b is None else core.hx(b)


class Gen:
    """one WAL scenario: Create, a run of Save / SaveSnapshot with payload sizes straddling 512 / 4096 / segment boundaries, Close"""

    def __init__(self, rng, seg, nops, big):
        self.rng, self.seg, self.nops, self.big = rng, seg, nops, big
        self.term, self.vote, self.commit, self.last = 1, 0, 0, 0
        self.lines = []

    def size(self):
        r = self.rng
        c = r.random()
        if c < 0.08:
            return None
        if c < 0.16:
            return 0
        if c < 0.45:
            return r.randint(1, 40)
        if c < 0.60:
            return r.choice([440, 470, 480, 488, 496, 500, 504, 512, 520]) + r.randint(-3, 3)   # around one sector
        if c < 0.72:
            return r.choice([960, 1000, 1024, 1500]) + r.randint(-9, 9)                         # two/three sectors
        if c < 0.80 and self.big:
            return r.choice([3990, 4050, 4096, 4200]) + r.randint(-9, 9)                        # one page
        if c < 0.84 and self.big:
            return r.randint(self.seg - 300, self.seg + 300)                                    # one segment
        return r.randint(41, 300)

    def payload(self):
        n = self.size()
        if n is None:
            return None
        r = self.rng
        c = r.random()
        if c < 0.15:
            return bytes(n)                      # all zero: a torn-looking but intact record
        if c < 0.25 and n > 600:
            b = bytearray(r.getrandbits(8) for _ in range(n))
            z = r.randint(0, n - 520)
            b[z:z + 520] = bytes(520)            # an all-zero sector inside a valid record
            return bytes(b)
        return bytes(r.getrandbits(8) for _ in range(n))

    def run(self):
        r = self.rng
        meta = r.choice([None, b"", b"meta", bytes(r.getrandbits(8) for _ in range(r.randint(1, 30)))])
        self.lines.append("WC %d %s" % (self.seg, hxn(meta)))
        for _ in range(self.nops):
            c = r.random()
            if c < 0.10 and self.last > 0:
                idx = r.randint(max(1, self.last - 3), self.last)
                conf = "nil" if r.random() < 0.1 else "3"
                self.lines.append("WN %d %d %s" % (idx, self.term, conf))
                continue
            n = r.choice([0, 1, 1, 1, 2, 3])
            ents = []
            if n and self.last > self.commit and r.random() < 0.12:
                # a new leader overwrites the uncommitted tail
                self.term += 1
                self.last = r.randint(self.commit, self.last - 1)
            biggest = 0
            for _k in range(n):
                self.last += 1
                pl = self.payload()
                biggest = max(biggest, len(pl or b""))
                ents.append("%d %d %d %s" % (r.choice([0, 0, 0, 1]), self.term, self.last, hxn(pl)))
            c = r.random()
            if c < 0.15:
                st = (0, 0, 0)
            else:
                if c < 0.30:
                    self.term += 1
                    self.vote = r.randint(0, 3)
                elif c < 0.40:
                    self.vote = r.randint(1, 3)
                if r.random() < 0.7:
                    self.commit = r.randint(self.commit, self.last)
                st = (self.term, self.vote, self.commit)
            self.lines.append(("WS %d %d %d %d " % (st + (n,)) + " ".join(ents)).strip())
            if biggest > self.seg - 700 and self.last > 2 and r.random() < 0.8:
                # a record that fills the segment: the cut may be left to the NEXT Save.  Directed follow-up (seeded change C16-savesnapshot-enti-unconditional:
                # the name of the next segment was derived from the last SNAPSHOT index): a snapshot BEHIND the log end, then a Save without entries (it performs
                # the pending cut), then a later snapshot still behind the log end
                self.lines.append("WN %d %d 3" % (self.last - 2, self.term))
                self.commit = max(self.commit, self.last - 1)
                self.lines.append("WS %d %d %d 0" % (self.term, self.vote, self.commit))
                self.lines.append("WN %d %d 3" % (self.last - 1, self.term))
        self.lines.append("WX")
        return self.lines


def plan(R):
    """input lines for the harness: scenarios + enumeration directives"""
    rng = random.Random(R.seed * 7919 + 16)
    lines = []
    if R.tier == "quick":
        scen = [(4096, 14, False, 2600, 16), (8192, 16, True, 1500, 24), (4096, 10, False, 2600, 16)]
        torn = (6, 12)
        tail_stride = 256
    else:
        scen = [(4096, 30, False, 1 << 30, 1), (8192, 30, True, 6000, 8), (16384, 30, True, 6000, 16), (65536, 40, True, 6000, 64),
                (4096, 20, True, 8000, 8), (32768, 40, True, 6000, 64)]
        torn = (6, 40)
        tail_stride = 64
    for k, (seg, nops, big, small, stride) in enumerate(scen):
        lines += Gen(rng, seg, nops, big).run()
        lines.append("WM torn %d %d %d" % (torn[0], torn[1], R.seed * 100 + k))
        lines.append("WM byte %d %d %d" % (small, stride, tail_stride))
    # a long unsynced tail: one record far larger than any write buffer (> 128 KB + a page) in a large segment, torn so that early
    # sectors are lost and late ones survive
    bigp = bytes(rng.getrandbits(8) | 1 for _ in range(150000 if R.tier == "quick" else 400000))
    lines += ["WC %d nil" % (262144 if R.tier == "quick" else 1048576), "WS 1 1 0 1 0 1 1 6162", "WS 1 1 1 1 0 1 2 %s" % core.hx(bigp),
              "WS 1 1 2 1 0 1 3 7a7a", "WX", "WM torn 6 %d %d" % ((6, 40)[R.tier != "quick"], R.seed * 100 + 77)]
    # a fixed small scenario that always contains the records of the known finding (entry and state records next to each other)
    lines += ["WC 4096 6d657461", "WS 1 1 0 2 0 1 1 616263 0 1 2 nil", "WS 1 1 2 0", "WN 2 1 3", "WS 2 0 2 1 0 2 3 00000000",
              "WS 0 0 0 1 0 2 4 7a", "WX", "WM torn 6 8 1", "WM byte 4000 1 64"]
    # a conflict truncation below a later snapshot (Lean: C16.readAll_entries_stale): entries 1..6 of term 1, a new leader overwrites 3, 4
    # (term 2), index 4 is snapshotted; opened at (4, 2) ReadAll skips the records of 3', 4' and keeps the overwritten 5, 6 - model and real
    # code must agree on that too (the byte cases of the last snapshot read the log at (4, 2))
    lines += STALE_SCENARIO + ["WM byte 100 512 2000"]
    # snapshot files
    for k in range(2 if R.tier == "quick" else 4):
        lines.append("SN")
        t, ix = 1, 0
        for _ in range(rng.randint(2, 3)):
            t += rng.randint(0, 1)
            ix += rng.randint(1, 9)
            n = rng.choice([0, 1, 30, 200, 700]) if R.tier == "quick" else rng.choice([0, 1, 30, 500, 1500])
            data = None if n == 0 and rng.random() < 0.5 else bytes(rng.getrandbits(8) for _ in range(n))
            lines.append("SF %d %d %d %s" % (t, ix, rng.randint(1, 3), hxn(data)))
        lines.append("SM 1")
    return lines


def torn_save_finding(R, binary, known):
    """the deterministic repro of TORN_SIG (harness/tornsave.go: directories built with the real wal/snap packages, the real restart path
    raftexample.NewRaftNode in a child process).  The torn image failing with ErrSliceOutOfRange is the recorded finding; the control image not
    restarting, the torn image failing in ANY other way, or the construction not being byte-identical to the zeroed full Save are violations."""
    import json
    import subprocess
    reps = {}
    with core.Workdir() as wd:
        try:
            p = subprocess.run([binary, "tornsave", wd], stdout=subprocess.PIPE, stderr=subprocess.PIPE, env=core.goenv(), timeout=240)
            for l in p.stdout.decode("utf-8", "replace").split("\n"):
                if l.startswith("{"):
                    try:
                        r = json.loads(l)
                        reps[r.get("case")] = r
                    except ValueError:
                        pass
            tail = p.stderr.decode("utf-8", "replace")[-400:]
        except subprocess.TimeoutExpired:
            tail = "timeout"
    R.suites.append(dict(name="tornsave", cases={k: dict(exit=v.get("exit"), started=v.get("started"), log=(v.get("log_tail") or [])[-1:])
                                                   for k, v in reps.items()}))
    ran = all(c in reps and reps[c].get("built") for c in ("torn", "zeroed", "control"))
    R.oblige("tornsave: the three directories (torn, zeroed, control) were built with the real wal/snap packages and a child process ran the real "
             "restart path on each", "run", ran, "" if ran else ("cases: %s %s" % ({k: v.get("error") for k, v in reps.items()}, tail)))
    if not ran:
        R.violation("tornsave-run", dict(kind="tie-broken", engine="tornsave", summary="the tornsave repro did not run: %s %s" % (reps, tail)),
                    found_input=False)
        return
    ctl, torn, zer = reps["control"], reps["torn"], reps["zeroed"]
    ctl_ok = ctl.get("exit") == 0 and ctl.get("started")
    R.oblige("tornsave control: the same directories WITH the hard-state record restart (snapshot 10 loaded, entry 11 read)", "oracle", ctl_ok,
             " | ".join((ctl.get("log_tail") or [])[-2:])[:300])
    if not ctl_ok:
        R.violation("tornsave-control", dict(kind="impl-violates-spec", engine="tornsave", report=ctl,
                                             summary="a node whose Ready{Snapshot 10, Entries [11], HardState commit 11} was saved COMPLETELY does not restart: "
                                                     + " | ".join(ctl.get("log_tail") or [])[:600],
                                             explanation="nothing is torn here: a fully persisted snapshot + entries + hard state must be recoverable"))
    same = zer.get("identical_to_torn") is True and zer.get("exit") == torn.get("exit") and zer.get("started") == torn.get("started")
    R.oblige("tornsave construction: Save(empty hard state, [entry 11]) leaves byte for byte the file of the full Save with its hard-state record "
             "zeroed, and both restart alike", "control", same, "identical=%s exits %s/%s" % (zer.get("identical_to_torn"), torn.get("exit"), zer.get("exit")))
    if not same:
        R.violation("tornsave-construction", dict(kind="tie-broken", engine="tornsave", summary="the torn image is not what a cut full Save leaves: %s vs %s"
                                                  % (torn, zer)), found_input=False)
    log = " | ".join(torn.get("log_tail") or [])
    if torn.get("exit") == 0 and torn.get("started"):
        R.oblige("tornsave: a Ready{Snapshot, Entries, HardState} whose wal.Save is cut between the entry and the hard-state record restarts", "oracle", True, log[:300])
        if TORN_SIG in known:
            R.extra["known_finding_note_torn_save"] = "the torn-save signature no longer reproduces"
        return
    is_sig = (not torn.get("timed_out")) and torn.get("exit") == 1 and "slice bounds out of range" in log and "failed to read WAL" in log
    if is_sig and TORN_SIG in known:
        R.known("sig=%s %s :: observed: child restart exit=%s %s" % (TORN_SIG, known[TORN_SIG][:500], torn.get("exit"), log[-300:]))
        R.oblige("known finding %s reproduced by its deterministic scenario (recorded, not a pass)" % TORN_SIG, "known-finding", True, log[-300:])
        return
    R.oblige("tornsave: a Ready{Snapshot, Entries, HardState} whose wal.Save is cut between the entry and the hard-state record restarts", "oracle", False, log[:300])
    R.violation("tornsave-restart", dict(
        kind="impl-violates-spec", engine="tornsave", report=torn,
        summary="after a crash that left a PREFIX of the unsynced wal.Save of a Ready{Snapshot 10, Entries [11], HardState commit 11} (entry record on disk, "
                "hard-state record lost) the node does not start: exit=%s timed_out=%s :: %s" % (torn.get("exit"), torn.get("timed_out"), log[:800]),
        explanation="C16: a torn tail of unsynced records must be recoverable rather than fatal"
                    + ("" if is_sig else " (this is NOT the recorded signature %s: another failure)" % TORN_SIG)))


def run(R, ctx):
    R.rule = ("one evaluation = one mutilated directory handed to the real code (OpenForRead+ReadAll, Verify, Open+ReadAll, and Repair+reopen "
              "when the write-mode error is io.ErrUnexpectedEOF; for long tails and every 8th torn case also the aftermath: reopen for writing, save and "
              "sync further records through the region the interrupted write touched, close, reopen: everything must be read back) and to the model; non-trivial = the model's verdict differs from the "
              "untouched directory's (an error, a shortened log, or a repair). Image lines: one per operation, compared byte for byte.")
    binary, err = core.build_harness()
    R.oblige("harness builds against the repository working tree (-tags verif)", "build", binary is not None, err or "")
    if binary is None:
        R.violation("harness-build", dict(kind="tie-broken", summary="harness does not build: " + (err or "")[-800:]), found_input=False)
        return
    lines = plan(R)
    env = core.goenv()
    if not os.environ.get("VERIF_TMP") and os.path.isdir("/dev/shm") and os.access("/dev/shm", os.W_OK):
        env["VERIF_TMP"] = "/dev/shm"          # fdatasync on a disk-backed temp dir costs 10 ms per case
    obs, se, rc = core.run_harness(binary, "wal", lines, env=env)
    R.oblige("harness wal engine ran to completion", "run", rc == 0 and len(obs) > len(lines) // 2, se[-400:])
    if rc != 0:
        R.violation("harness-run", dict(kind="tie-broken", engine="wal", lines=lines, summary="wal harness died: " + se[-600:]), found_input=False)
        return
    aftermath = [l for l in obs if l.startswith("WA ")]
    obs = [l for l in obs if not l.startswith("WA ")]
    d = core.run_driver(obs)
    core.negative_control(R, obs, "wal", skip=lambda l: l[:2] not in ("WT", "WB", "WK", "SB"))
    known = core.load_known().get("C16", {})
    torn_save_finding(R, binary, known)
    # ---- statistics for the evidence
    ops = [l for l in obs if l[:2] in ("WC", "WS", "WN", "WX")]
    cases = [l for l in obs if l[:2] in ("WT", "WB", "WK", "SB")]
    classes = collections.Counter()
    offcls = collections.Counter()
    crash_points, subsets = set(), 0
    scen_id = 0
    byte_offsets = 0
    viol = []
    for l in obs:
        f = l.split()
        if f[0] == "WC":
            scen_id += 1
        if f[0] not in ("WT", "WB", "WK", "SB"):
            continue
        o = f[f.index("=>") + 1:]
        kv = dict(x.split("=", 1) for x in o if "=" in x)
        if f[0] == "SB":
            classes["snap:" + o[0].split(":")[0].split("/")[0]] += 1
        else:
            classes["rd:" + kv["rd"].split("/")[0]] += 1
            classes["wr:" + kv["wr"].split("/")[0]] += 1
            classes["vf:" + kv["vf"].split("/")[0]] += 1
            if kv["rp"] != "-":
                classes["repair:" + kv["rp"].split(":")[0] + ":" + kv["rp"].split(":")[2].split("/")[0]] += 1
            if kv["tail"] != "same":
                classes["zeroToEnd-rewrote-tail"] += 1
        if f[0] == "WK":
            crash_points.add((scen_id, "cut", f[1]))
        if f[0] == "WT":
            crash_points.add((scen_id, f[1], f[2]))
            subsets += 1
        if f[0] == "WB":
            byte_offsets += 1
            offcls[[x for x in f if x.startswith("cls=")][0][4:]] += 1
        if kv.get("oracle", "ok") != "ok":
            viol.append((scen_id, l))
    # what the real code returns for the stale-suffix scenario (last scenario before the snapshot files), read at the snapshot (4, 2) / at (0, 0)
    first = next((i for i, l in enumerate(obs) if l.startswith(STALE_SCENARIO[1] + " =>")), len(obs))
    stale = [l for l in obs[first:] if l.startswith("WB ") and " cls=z " in l]
    at42 = sorted(set(l.split("rd=")[1].split()[0] for l in stale if l.split()[5:7] == ["4", "2"] and "rd=ok" in l))
    R.extra["stale_suffix_scenario"] = dict(lean="C16.readAll_entries_stale", read_mode_at_snapshot_4_2=at42[:4],
                                            note="rd=ok/<meta>/<hardstate>/<number of entries>/<digest>: 2 entries = the overwritten entries 5, 6 of term 1")
    R.add_cases(len(cases), int(d["summary"].get("positive", 0)), samples=[ops[1][:300], cases[0][:300], cases[len(cases) // 2][:300], cases[-1][:300]])
    names = dict(h="frame length field", g="protobuf tag", t="record type", c="crc field", l="data length varint", d="data", p="padding", z="zero tail")
    R.extra["enumeration"] = dict(
        scenarios=scen_id, operations=len(ops), image_comparisons=len(ops),
        crash_points=len(crash_points), crash_point_list=["scenario %s: synced after op %s, crash while writing up to op %s" % cp for cp in sorted(crash_points, key=str)[:120]],
        sector_subsets=subsets, single_byte_cases=byte_offsets,
        byte_cases_by_offset_class={names.get(k, k): v for k, v in sorted(offcls.items())},
        snapshot_cases=sum(1 for l in cases if l.startswith("SB")),
        outcome_classes=dict(sorted(classes.items())),
        operation_sequences=[l.split(" => ")[0][:200] for l in ops[:60]],
        images=[dict(op=l.split(" => ")[0][:60], files=[(x.split(":")[0], int(x.split(":")[1]), core.sha(x.split(":")[2]))
                                                        for x in l.split("files=")[1].split()[0].split(",") if x != "-"]) for l in ops[:40] if "files=" in l],
        aftermath=[a[3:] for a in aftermath],
        harness_input_lines=len(lines), generator="vlib/props/c16.py Gen v1", tmp=env.get("VERIF_TMP", "default"))
    # sync points are OBSERVED (fdatasync count of the wal package): a save call that the contract requires to be durable and that returned without one
    nosync = [l for l in obs if l[:2] in ("WS", "WN") and " nosync=" in l]
    R.oblige("sync points: every Save that changes term or vote or carries entries, every SaveSnapshot and every cut was followed by an observed fdatasync before it returned",
             "oracle", not nosync, "%d save calls returned without fdatasync" % len(nosync))
    R.extra["sync_points"] = dict(observed_synced=sum(1 for l in obs if l[:2] in ("WC", "WS", "WN", "WX") and l.rstrip().split(" nosync=")[0].endswith("synced=1")),
                                  observed_unsynced=sum(1 for l in obs if l[:2] == "WS" and l.rstrip().split(" nosync=")[0].endswith("synced=0")), missing=len(nosync))
    for i, l in enumerate(nosync[:2]):
        # the scenario up to and including this call is the replay
        upto = obs.index(l)
        start = max(k for k in range(upto + 1) if obs[k].startswith("WC "))
        R.violation("wal-nosync-%d" % i, dict(kind="impl-violates-spec", engine="wal", summary=(l.split(" => ")[0][:200] + " :: " + l.split(" nosync=")[1])[:700],
                                             lines=[x.split(" => ")[0] for x in obs[start:upto + 1]],
                                             explanation="a save call that must be durable when it returns (the caller votes / acknowledges next) completed without fdatasync; "
                                                         "the recorded view is what ReadAll returns from the last image known to be on stable storage"))
    ok = not d["mismatches"] and not d["unknown"]
    R.oblige("correspondence: segment images (model writer = wal.Create/Save/SaveSnapshot/cut/Close) byte for byte", "correspondence",
             not [m for m in d["mismatches"] if ":: WC" in m or ":: WS" in m or ":: WN" in m or ":: WX" in m or ":: SF" in m], "")
    R.oblige("correspondence: model verdict = real code verdict on every mutilated directory (ReadAll r/w, Verify, Repair, snapshot Load*)",
             "correspondence", ok, "%d mismatches, %d unknown" % (len(d["mismatches"]), len(d["unknown"])))
    R.suites.append(dict(name="wal", lines=len(obs), evaluations=len(cases), mismatches=len(d["mismatches"]), driver_s=round(d["seconds"], 1)))
    # ---- the property's oracle, evaluated on the real code's results
    kf, other = [], []
    # the recorded finding is exactly the set of type-byte changes that the MODEL accepts too (C16.C16_statement_false: the CRC does not cover
    # the type byte); a type-byte case on which the implementation also departs from the model is a different violation
    disagreed = set()
    for m in d["mismatches"]:
        if " :: " in m:
            disagreed.add(m.split(" :: ", 1)[1].split(" => ")[0])
    for sid, l in viol:
        f = l.split()
        if f[0] == "WB" and "cls=t" in f and "panic" not in l.split("oracle=")[1] and l.split(" => ")[0] not in disagreed:
            kf.append(l)
        else:
            other.append((sid, l))
    R.oblige("oracle on the real code: torn tails return every synced record, then whole later records, and are repairable; corrupted bytes give "
             "an unmodified prefix or an error (record-type byte excepted: known finding)", "oracle", not other,
             "%d violations outside the known signature" % len(other))
    if kf:
        if KNOWN_SIG in known:
            ex = kf[0].split(" oracle=")[0]
            R.known("sig=%s %d of the enumerated single-byte changes of a record's type byte were accepted and changed what ReadAll returned "
                    "(the CRC covers Data only); e.g. %s" % (KNOWN_SIG, len(kf), ex[:260]))
            R.extra["known_finding_cases"] = [x[:400] for x in kf[:6]]
        else:
            other += [(0, l) for l in kf]
    elif KNOWN_SIG in known:
        R.extra["known_finding_note"] = "the type-byte signature no longer reproduces"
    for i, mm in enumerate((d["mismatches"] + d["unknown"])[:3]):
        # a disagreement with the model is a failing input only when the property's own oracle (below) also fails on the real code
        R.violation("wal-tie-%d" % i, dict(kind="tie-broken", engine="wal", summary=mm[:600], lines=lines,
                                           explanation="the Lean model of the wal/snap packages and the real code disagree on this case"),
                    found_input=bool(other))
    for i, (sid, l) in enumerate(other[:3]):
        R.violation("wal-oracle-%d" % i, dict(kind="impl-violates-spec", engine="wal", summary=l[:700], lines=lines, scenario=sid,
                                              explanation="the real wal/snap code returned something the property forbids for this mutilation"))
    if ctx.broken and not (d["mismatches"] or other):
        R.violation("proof-broken", dict(kind="proof-broken", broken=ctx.broken,
                                         summary="theorem(s) no longer check: " + ", ".join(t for t, _ in ctx.broken)), found_input=False)


def replay(R, payload):
    """re-run the recorded scenario lines: still failing if the driver disagrees or the oracle is violated outside the known signature"""
    binary, err = core.build_harness()
    if binary is None:
        print("harness does not build:", err)
        return 1
    if payload.get("engine") == "tornsave":
        import json
        import subprocess
        with core.Workdir() as wd:
            p = subprocess.run([binary, "tornsave", wd], stdout=subprocess.PIPE, stderr=subprocess.PIPE, env=core.goenv(), timeout=240)
        reps = {}
        for l in p.stdout.decode("utf-8", "replace").split("\n"):
            if l.startswith("{"):
                print(l[:900])
                reps[json.loads(l).get("case")] = json.loads(l)
        bad = not all(reps.get(c, {}).get("exit") == 0 and reps.get(c, {}).get("started") for c in ("torn", "control"))
        print("replay: %s" % ("still failing" if bad else "no longer failing"))
        return 1 if bad else 0
    lines = payload.get("lines") or []
    if not lines:
        print(payload.get("summary", "no input recorded (proof/tie broken without a failing input)"))
        return 1
    env = core.goenv()
    if not os.environ.get("VERIF_TMP") and os.path.isdir("/dev/shm") and os.access("/dev/shm", os.W_OK):
        env["VERIF_TMP"] = "/dev/shm"
    obs, se, rc = core.run_harness(binary, "wal", lines, env=env)
    d = core.run_driver(obs)
    viol = [l for l in obs if ("oracle=VIOL" in l and not (l.startswith("WB") and " cls=t " in l)) or (l[:2] in ("WS", "WN") and " nosync=" in l)]
    for m in (d["mismatches"] + d["unknown"])[:5]:
        print(m[:500])
    for l in viol[:5]:
        print("ORACLE", l[:500])
    bad = bool(d["mismatches"] or d["unknown"] or viol) or rc != 0
    print("replay: %s (%d lines observed, %d tie mismatches, %d oracle violations)" % ("still failing" if bad else "no longer failing", len(obs), len(d["mismatches"]), len(viol)))
    return 1 if bad else 0
