"""C18 — stream IDs are strictly increasing and XRANGE returns what was added.
Model: lean/RedisGoModel/Exec/{Core,Stream,Dispatch}.lean; theorems: lean/RedisGoModel/Props/C18.lean;
tie: exec engine (server.Manager.ExecCommand + VerifDump hook, streams dumped as x:<id>=<fields>;…|last=<id>)."""
import random

from .. import core, execgen, execsuite, execgen_stream, concsuite, families


def run(R, ctx):
    execsuite.run_exec_suite(
        R, ctx, name="streams",
        gens=[(1, execgen_stream.stream_cmd)],
        nprog=(400, 6000), corpus="exec_c18",
        extra_lines=families.large_container_programs(random.Random(R.seed * 131 + 18), 40 if R.tier == "quick" else 1000, "stream"),
        keys=[b"s1", b"S1", b"", b"\xff\x00 b"],
        what="XADD (explicit, sequence-less, ms-* and auto IDs from a colliding alphabet incl. 0-0, 2^63, 2^64-1 and IDs ahead of the clock; "
             "NOMKSTREAM, MAXLEN/MINID with =/~, LIMIT, damaged option lists and arity) and XRANGE (-, +, inclusive, exclusive and "
             "sequence-less bounds, COUNT, malformed bounds) over binary field/value contents, interleaved with SET/DEL/EXPIRE/RENAME/TYPE "
             "on the same keys. Auto IDs are judged in checker mode against the clock bracket recorded by the harness")

    rule = R.rule
    concsuite.run_conc(R, ctx, "stream-trim", ['streamtrim'], (2, 12), race=False)
    R.rule = rule + " Concurrent scenario(s) streamtrim of the conc engine (see C05): the family's containers under concurrent clients, verdict by invariants that need no history search."
    families.alias_probe(R, ctx, "stream")


def replay(R, payload):
    if payload.get("engine") == "alias":
        return families.alias_replay(R, payload)
    if payload.get("engine") == "conc":
        return concsuite.replay_conc(R, payload)
    return core.generic_replay(R, payload)
