"""C03 — each command gets exactly one well-formed RESP reply, in request order.
Theorems: Resp.decode_encode / decodeList_encode (the independent decoder inverts the reply encoder); Props/C03Sites.lean (regenerated fact F6:
no line reply — simple string / error — is built from the command words, the line replies with a non-constant payload equal a reviewed
inventory); tie: serve engine — the raw byte stream written by Manager.Handle is decoded by that verified decoder, must be consumed entirely
and yield one value per command in order.  When F6 breaks, sessions aimed at the commands whose executors hold the offending call (every
argument position carrying CR LF) are added; a framing break found is reported with its session, otherwise `no-failing-input-found` names
the call and the theorem."""
import itertools

from .. import core, facts, gen, servesuite

INJECT = b"x\r\n+INJECTED"
FILL = [b"k", b"1", b"a", b"0", b"nx", b"limit", b"count", b"maxlen", b"*", b"-", b"+"]
# no ZADD / float commands: the serve engine does not ship ParseFloat bits to the model
SEEDS = [[b"SET", b"ks", b"v"], [b"RPUSH", b"kl", b"a", b"b"], [b"SADD", b"kt", b"a"], [b"HSET", b"kh", b"f", b"1"], [b"XADD", b"kx", b"1-1", b"f", b"v"]]
KEYS = [b"k", b"ks", b"kl", b"kt", b"kh", b"kx"]


def directed(fx, broken):
    """one session per implicated command: seed a key of every type, then the command at every length 2..6 with CR LF in every argument position"""
    by_fn = {}
    for name, fn in (fx.get("commands") or {}).items():
        by_fn.setdefault(fn, []).append(name)
    cmds = sorted({c for s in broken.get("client", []) + broken.get("new", []) for c in by_fn.get(s["func"], [])})
    if any(s["func"].endswith(("selectDB", "Select", "execOn", "ExecCommand")) for s in broken.get("client", []) + broken.get("new", [])):
        cmds.append("select")
    lines = []
    for c in cmds:
        if c in ("subscribe", "blpop", "brpop"):
            continue
        lines.append("S 16")
        lines.append("C 1 %s" % core.hx(b"".join(gen.enc_cmd(s) for s in SEEDS)))
        name = c.encode()
        for n in range(1, 6):
            for pos in range(n):
                fills = FILL if n <= 3 else FILL[:4]
                for key in (KEYS if pos != 0 else [None]):
                    for rest in itertools.islice(itertools.product(fills, repeat=max(0, n - 2 if pos != 0 else n - 1)), 40):
                        args = []
                        it = iter(rest)
                        for i in range(n):
                            if i == pos:
                                args.append(INJECT)
                            elif i == 0:
                                args.append(key)
                            else:
                                args.append(next(it, b"1"))
                        lines.append("C 1 %s" % core.hx(gen.enc_cmd([name] + args)))
    return lines, cmds


def run(R, ctx):
    broken = getattr(R, "replies_broken", None)
    extra, aimed = [], []
    if broken:
        fx = facts.extract()
        if fx:
            extra, aimed = directed(fx, broken)
            R.extra["f6_directed"] = dict(commands=aimed, lines=len(extra))
    servesuite.run_serve_suite(R, ctx, "replies", (150, 3000),
                               "Pipelines up to 5 commands per write with CR/LF/NUL inside keys, values, channel names and command names; "
                               "unknown commands; `*0`; values that are not commands (no reply expected). "
                               "Parallel sessions: 4-10 connections, each owning its keys, receive pipelines of large array replies at the same "
                               "moment (PAR steps); every client must get exactly its own replies. "
                               "Slow-reader sessions: a client pipelines 1 MiB replies, reads the first chunk, does not read for 6.5 s (thorough: also 12 s, 35 s), then "
                               "reads on: every reply whole and in order. Half-closed pipelines (TCP, sending side closed right after the last byte): exactly one reply per command written.", parallel=6, halfclose=3,
                               stalls=((6500,) if R.tier == "quick" else (6500, 12000, 35000)), extra_lines=extra)
    # the cluster-mode connection loop (Manager.HandleCluster + the apply loop handleClusterCommits): exactly one reply per command, each
    # connection its own, in order - Rendezvous.own_reply, tied by the rendezvous engine (the harness plays raft); C07 runs the large suite
    binary, err = core.build_harness()
    if binary is not None:
        from .. import rendezvousgen
        rendezvousgen.run_suite(R, ctx, binary, 150 if R.tier == "quick" else 3000)
        R.rule += (" || rendezvous (cluster-mode connection loop): a line is non-trivial when at least one committed proposal's reply reached its connection and was compared")
    from .. import clustersuite
    clustersuite.one_node_probe(R, "q-halfclose-cluster-1", R.seed * 1000 + 5,
                                "a real cluster node writes exactly one reply per command, in order, also for a pipeline whose writer closed its sending side at once (replies wait for commits there)",
                                "a command read from a connection of a cluster node got no reply, or replies out of order")
    if getattr(R, "alias_broken", None):
        # fact F7 (stored byte slices are never rewritten in place) is broken: a reply encoded after the lock is gone may show other bytes - aim the alias probes
        from .. import families
        families.alias_aim(R, ctx)
    if broken and not any(found for _p, _s, found in R.violations):
        # fact F6 is broken and neither the suite nor the sessions aimed at the offending executors produced a framing break: name the call
        if all(t.startswith("ReplySites.") for t, _ in getattr(ctx, "broken", [])):
            R.violations = [v for v in R.violations if not v[0].endswith("/proof-broken.json")]
        msgs = [m for f, ms in getattr(R, "facts_broken", []) if f == "F6" for m in ms]
        R.violation("f6-reply-sites", dict(kind="proof-broken", broken=msgs, theorems=["ReplySites.no_client_bytes_in_line_replies", "ReplySites.inventory",
                                                                                         "ReplySites.error_derived_reviewed"],
                                           summary="line-reply obligation of Props/C03Sites no longer holds for the regenerated source facts: " + "; ".join(msgs)[:700] +
                                                   " — no framing break found (serve suite + %d command(s) targeted: %s)" % (len(aimed), ",".join(aimed) or "none is a registered executor")),
                    found_input=False)


def replay(R, payload):
    if payload.get("engine") == "alias":
        from .. import families
        return families.alias_replay(R, payload)
    if payload.get("engine") == "conc":
        from .. import concsuite
        return concsuite.replay_conc(R, payload)
    if payload.get("engine") == "cluster":
        from .. import clustersuite
        return clustersuite.replay_cluster(R, payload)
    return core.generic_replay(R, payload)
