"""C03 — each command gets exactly one well-formed RESP reply, in request order.
Theorems: Resp.decode_encode / decodeList_encode (the independent decoder inverts the reply encoder); tie: serve engine — the raw byte
stream written by Manager.Handle is decoded by that verified decoder, must be consumed entirely and yield one value per command in order."""
from .. import core, servesuite


def run(R, ctx):
    servesuite.run_serve_suite(R, ctx, "replies", (150, 3000),
                               "Pipelines up to 5 commands per write with CR/LF/NUL inside keys, values, channel names and command names; "
                               "unknown commands; `*0`; values that are not commands (no reply expected). "
                               "Parallel sessions: 4-10 connections, each owning its keys, receive pipelines of large array replies at the same "
                               "moment (PAR steps); every client must get exactly its own replies. "
                               "Slow-reader sessions: a client pipelines 1 MiB replies, reads the first chunk, does not read for 6.5 s (thorough: also 12 s, 35 s), then "
                               "reads on: every reply whole and in order.", parallel=6,
                               stalls=((6500,) if R.tier == "quick" else (6500, 12000, 35000)))


def replay(R, payload):
    return core.generic_replay(R, payload)
