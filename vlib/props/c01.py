"""C01 — string and key commands behave as a sequential Redis keyspace.
Model: lean/RedisGoModel/Exec/{Core,StringKeys,Dispatch}.lean; tie: exec engine (server.Manager.ExecCommand + VerifDump hook)."""
import random

from .. import core, execgen, execsuite, families


def run(R, ctx):
    execsuite.run_exec_suite(
        R, ctx, name="strings-keys",
        gens=[(8, execgen.string_cmd)] + [(1, g) for _, g in families.all_gens()[1:]],   # other families only to create keys of other types
        nprog=(400, 6000), corpus="exec_c01", extra_lines=families.arith_grid("string"),
        what="string and generic key commands (SET with every option combination, GET, MSET, MGET, SETNX, SETEX, APPEND, STRLEN, GETRANGE, "
             "SETRANGE, INCR family, DEL, EXISTS, TYPE, RENAME, KEYS incl. escape-only patterns, PING, EXPIRE, PERSIST, TTL); the int64 boundary grid: every pair (stored value, operand) of 11 edge values through INCRBY/DECRBY, each edge value through INCR/DECR")
    families.alias_probe(R, ctx, "string")
    families.alias_aim(R, ctx, own="string", counters=True)   # only when fact F7 is broken


def replay(R, payload):
    if payload.get("engine") == "alias":
        return families.alias_replay(R, payload)
    if payload.get("engine") == "conc":
        from .. import concsuite
        return concsuite.replay_conc(R, payload)
    return core.generic_replay(R, payload)
