"""C20 — numbered databases are isolated and selection is per connection.
Theorems: HashSel.select_accepts_exactly, selection_is_per_connection, isolation; tie: serve engine (several connections, SELECT-heavy)."""
from .. import core, servesuite


def run(R, ctx):
    servesuite.run_serve_suite(R, ctx, "select", (120, 2500),
                               "SELECT arguments: 0 1 2 15 16 -1 x '' '1 ' +1 01 99999999999999999999 with database counts 1, 2, 16. Argument sweep (16, 2 and 1 databases): every one-byte "
                               "argument, every two-digit argument, signed / padded / non-decimal / non-ASCII-digit / overflowing spellings; after each probe a write shows which database the connection is in.",
                               pubsub=False, damage=False, select_sweep=(16, 2, 1))
    rule = R.rule
    servesuite.run_serve_suite(R, ctx, "select-reconnect", (120, 2500),
                               "The same SELECT-heavy sessions with protocol damage and client closes, every ended connection being replaced by a new "
                               "one: selection must start at database 0 on every new connection and stay private to it. "
                               "Parallel sessions: 4-10 connections re-select their own database before every command and work on the same key names at the "
                               "same moment; every reply and the final contents of every database are those of the connection's own selection. "
                               "First-select races: 4-8 connections select the same database for the first time at the same moment (one step per index 1-15), each writes its own key; a late connection finds all of them there.",
                               pubsub=False, damage=True, reconnect=True, parallel_select=8, first_select=8)
    R.rule = rule + " || " + R.rule
    cluster_select(R)


def cluster_select(R):
    """the same property in cluster mode, on a REAL one-node cluster (cluster.json naming the node's raft URL explicitly, as cluster_test/cluster_config3.json does; the shipped
    redis.conf with 16 databases): if the node accepts SELECT of another database at all, a key the selecting connection writes there must be invisible to a fresh connection
    (cluster engine's select probe); a short two-client workload follows"""
    import os
    from .. import clustersuite
    binary, err = core.build_harness()
    if binary is None:
        return
    with core.Workdir() as wd0:
        wd = wd0.lower()
        os.makedirs(wd, exist_ok=True)
        try:
            server, err, dt = clustersuite.build_server(wd)
            R.oblige("the real server builds from the repository working tree (go build -tags verif .)", "build", server is not None, err or "%.1fs" % dt)
            if server is None:
                return
            reps = clustersuite.run_engine(binary, server, os.path.join(wd, "sel"), R.seed * 1000 + 1, [clustersuite.scenario("q-select-cluster-1", 1, 2, 1200, [])], 120)
        finally:
            clustersuite.reap(wd)
            if wd != wd0:
                import shutil
                shutil.rmtree(wd, ignore_errors=True)
    bad = [r for r in reps if r.get("result") != "ok"]
    R.oblige("cluster mode (one real node, explicit RaftAddr, 16 configured databases): SELECT of another database is refused, or the selection stays the connection's own",
             "exploration", len(reps) == 1 and not bad, "; ".join((p.get("kind", "") + ": " + p.get("detail", ""))[:300] for r in bad for p in (r.get("problems") or [])[:2]))
    for r in bad[:1]:
        p0 = (r.get("problems") or [dict(kind=r.get("result"), detail="")])[0]
        R.violation("cluster-select", dict(kind="impl-violates-spec", engine="cluster", summary=("q-select-cluster-1: %s: %s" % (p0.get("kind"), p0.get("detail")))[:800], report=r,
                                           scenario=clustersuite.scenario("q-select-cluster-1", 1, 2, 1200, []), seed_used=R.seed * 1000 + 1,
                                           explanation="in cluster mode the selected database is not the connection's own state"))


def replay(R, payload):
    if payload.get("engine") == "cluster":
        from .. import clustersuite
        return clustersuite.replay_cluster(R, payload)
    return core.generic_replay(R, payload)
