"""C20 — numbered databases are isolated and selection is per connection.
Theorems: HashSel.select_accepts_exactly, selection_is_per_connection, isolation; tie: serve engine (several connections, SELECT-heavy)."""
from .. import core, servesuite


def run(R, ctx):
    servesuite.run_serve_suite(R, ctx, "select", (120, 2500),
                               "SELECT arguments: 0 1 2 15 16 -1 x '' '1 ' +1 01 99999999999999999999 with database counts 1, 2, 16.",
                               pubsub=False, damage=False)


def replay(R, payload):
    return core.generic_replay(R, payload)
