"""C20 — numbered databases are isolated and selection is per connection.
Theorems: HashSel.select_accepts_exactly, selection_is_per_connection, isolation; tie: serve engine (several connections, SELECT-heavy)."""
from .. import core, servesuite


def run(R, ctx):
    servesuite.run_serve_suite(R, ctx, "select", (120, 2500),
                               "SELECT arguments: 0 1 2 15 16 -1 x '' '1 ' +1 01 99999999999999999999 with database counts 1, 2, 16. Argument sweep (16, 2 and 1 databases): every one-byte "
                               "argument, every two-digit argument, signed / padded / non-decimal / non-ASCII-digit / overflowing spellings; after each probe a write shows which database the connection is in.",
                               pubsub=False, damage=False, select_sweep=(16, 2, 1))
    rule = R.rule
    servesuite.run_serve_suite(R, ctx, "select-reconnect", (120, 2500),
                               "The same SELECT-heavy sessions with protocol damage and client closes, every ended connection being replaced by a new "
                               "one: selection must start at database 0 on every new connection and stay private to it. "
                               "Parallel sessions: 4-10 connections re-select their own database before every command and work on the same key names at the "
                               "same moment; every reply and the final contents of every database are those of the connection's own selection. "
                               "First-select races: 4-8 connections select the same database for the first time at the same moment (one step per index 1-15), each writes its own key; a late connection finds all of them there.",
                               pubsub=False, damage=True, reconnect=True, parallel_select=8, first_select=8)
    R.rule = rule + " || " + R.rule


def replay(R, payload):
    return core.generic_replay(R, payload)
