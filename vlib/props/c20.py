"""C20 — numbered databases are isolated and selection is per connection.
Theorems: Exec.select_accepts_exactly, selection_is_per_connection, isolation (Props/C20.lean); tie: serve engine (several connections, SELECT-heavy).
Configuration layer (where the database count comes from; Props/C20Config.lean about Config/Parse.lean): Config.parse_databases_spec (after a successful Parse
from Setup's defaults Databases is the value of the LAST `databases` directive, else 16, and >= 1), Config.cluster_single_database / cluster_select_iff (every ok
outcome of ParseConfigJson has Databases = 1, RaftAddr given or not: in cluster mode SELECT i is accepted iff i = 0), Config.parse_total (outcomes and their
reasons), Config.parse_append (line compositionality), comment / field facts.  Tie: harness engine `config` runs the REAL (*Config).Parse and ParseConfigJson on a
Config holding Setup's literal (read from config/config.go by go/ast, line CD) in a worker process (log.Fatal = exit status 1 is observed, not guessed); the
Lean driver (Driver/Config.lean) recomputes every outcome and every resulting field with Config.parse / Config.startup.  unicode.ToLower above ASCII and the
IPv6 grammar of net.ParseIP are shipped by the harness as oracle facts; the effect of json.Unmarshal is taken from an echo (a separate Unmarshal of the same
bytes), and for right-typed documents additionally predicted by the generator (keys in any letter case) and compared."""
import collections
import random

from .. import core, servesuite, configgen


def run(R, ctx):
    servesuite.run_serve_suite(R, ctx, "select", (120, 2500),
                               "SELECT arguments: 0 1 2 15 16 -1 x '' '1 ' +1 01 99999999999999999999 with database counts 1, 2, 16. Argument sweep (16, 2 and 1 databases): every one-byte "
                               "argument, every two-digit argument, signed / padded / non-decimal / non-ASCII-digit / overflowing spellings; after each probe a write shows which database the connection is in.",
                               pubsub=False, damage=False, select_sweep=(16, 2, 1))
    rule = R.rule
    servesuite.run_serve_suite(R, ctx, "select-reconnect", (120, 2500),
                               "The same SELECT-heavy sessions with protocol damage and client closes, every ended connection being replaced by a new "
                               "one: selection must start at database 0 on every new connection and stay private to it. "
                               "Parallel sessions: 4-10 connections re-select their own database before every command and work on the same key names at the "
                               "same moment; every reply and the final contents of every database are those of the connection's own selection. "
                               "First-select races: 4-8 connections select the same database for the first time at the same moment (one step per index 1-15), each writes its own key; a late connection finds all of them there.",
                               pubsub=False, damage=True, reconnect=True, parallel_select=8, first_select=8)
    R.rule = rule + " || " + R.rule
    config_suite(R)
    cluster_select(R)


CFG_FIELDS = dict(NodeID="node", PeerAddrs="peers", RaftAddr="raft", PeerIDs="ids", KVPort="kv", JoinCluster="join", IsCluster="cluster", Databases="db", Host="host", Port="port",
                  ShardNum="shard", LogDir="logdir", LogLevel="loglevel", ChanBufferSize="chan", ConfFile="conf", ClusterConfigPath="ccp")


def _echo_disagrees(obs_line, pred):
    """right-typed cluster JSON: the generator's own prediction of what json.Unmarshal decodes, against the echo"""
    toks = obs_line.split(" => ", 1)[1].split()
    echo = next((t[5:] for t in toks if t.startswith("echo=")), "-")
    uerr = next((t[5:] for t in toks if t.startswith("uerr=")), "0")
    if echo == "-":
        return None
    if uerr != "0":
        return "json.Unmarshal reported an error for a right-typed document"
    kv = dict(e.split("=", 1) for e in echo.split(";"))
    for k, v in pred.items():
        got = kv.get(CFG_FIELDS[k])
        want = ("1" if v else "0") if isinstance(v, bool) else str(v) if isinstance(v, int) else v.encode("utf-8").hex()
        if got != want:
            return "field %s: decoded %s, predicted %s" % (k, got, want)
    return None


def config_suite(R):
    """the configuration layer: the real config.Parse / ParseConfigJson against Config.parse / Config.startup (see the module docstring)"""
    binary, err = core.build_harness()
    R.oblige("harness builds against the repository working tree (-tags verif)", "build", binary is not None, err or "")
    if binary is None:
        R.violation("harness-build", dict(kind="tie-broken", summary="harness does not build: " + (err or "")[-800:]), found_input=False)
        return
    rng = random.Random(R.seed * 7919 + 20)
    n = 2000 if R.tier == "quick" else 40000
    kinds = collections.Counter()
    lines, preds = configgen.gen_lines(rng, n, kinds)
    lines = list(core.corpus("config")) + lines
    obs, crashes, se = core.run_harness_resilient(binary, "config", lines, args=[core.REPO], timeout=1800)
    d = core.run_driver(obs)
    core.negative_control(R, obs, "config", skip=lambda l: " => " not in l)
    pos = int(d["summary"].get("positive", 0))
    outcomes = collections.Counter()
    for l in obs:
        last = l.split()[-1]
        outcomes[l.split()[0] + " " + (":".join(last.split(":")[:2]) + (":" + last.split(":")[2][:34] if last.count(":") >= 2 else "") if not last.startswith("ok:") and ":" in last else "ok" if last.startswith("ok:") else "value")] += 1
    echo_bad = []
    by_input = {l.split(" => ")[0]: l for l in obs if l.startswith("CJ ")}
    checked = 0
    for inp, pred in preds.items():
        o = by_input.get(inp)
        if o is None:
            continue
        why = _echo_disagrees(o, pred)
        checked += why is None and "echo=-" not in o
        if why:
            echo_bad.append((inp, why))
    distinct = len(set(l.split(" => ")[0] for l in obs))
    R.add_cases(len(obs), min(pos, distinct), samples=[l[:300] for l in obs[8:10]] + [l[:300] for l in obs[-2:]])
    R.extra.setdefault("input_distribution", {})["config"] = dict(lines=len(obs), generated=dict(kinds), outcomes=dict(outcomes), distinct_lines=distinct,
                                                                 json_documents_predicted=checked, harness_crashes=crashes)
    ok = not d["mismatches"] and not d["unknown"] and crashes == 0 and len(obs) == len(lines)
    R.oblige("correspondence config: outcome (ok / error text / panic / fatal exit) and every resulting field of the real (*Config).Parse and ParseConfigJson = "
             "Config.parse / Config.startup; Setup's literal = Config.defaults; len(NewManager.DBs) = Config.newManager", "correspondence", ok,
             "%d mismatches, %d unknown, %d crashes, %d of %d lines answered%s" % (len(d["mismatches"]), len(d["unknown"]), crashes, len(obs), len(lines), (" | " + se[-300:]) if crashes else ""))
    R.oblige("encoding/json decodes right-typed cluster documents (keys in any letter case, unknown keys) as the generator predicts: the echo the model takes as "
             "json.Unmarshal's effect is not only the implementation's word", "correspondence", not echo_bad and (checked > 0 or not preds),
             "%d documents compared%s" % (checked, "; " + "; ".join(w for _, w in echo_bad[:2]) if echo_bad else ""))
    R.suites.append(dict(name="config", lines=len(obs), mismatches=len(d["mismatches"]), crashes=crashes, driver_s=round(d["seconds"], 1)))
    R.rule += (" || config: mostly-valid configuration files (every directive, letter-case variants incl. U+0130/U+212A, comments, '#' not in column 0, blank lines, tabs and Unicode "
               "white space, CRLF, missing final newline, repeated directives, numbers with sign / leading zeros / overflow / junk, IPv4 corner spellings, IPv6) and a malformed "
               "stream; cluster JSON documents (right-typed, wrong-typed, damaged syntax, keys in any letter case, NodeID beyond the peer list, RaftAddr given or not, a "
               "Databases member) after a configuration file")
    seen = 0
    for mm in (d["mismatches"] + d["unknown"])[:3]:
        seen += 1
        try:
            line = obs[int(mm.split()[1]) - 1].split(" => ")[0]
        except Exception:
            line = ""
        readable = " | ".join(repr(core.unhx(t))[2:-1] for t in line.split()[1:] if set(t) <= set("0123456789abcdef-"))
        R.violation("config-%d" % seen, dict(
            kind="impl-violates-spec", engine="config", args=[core.REPO], summary=mm[:600], lines=[line] if line else [], program=[line.split()[0] + " " + readable] if line else [],
            explanation="what the real config package makes of this input (outcome, or a field of the resulting Config - Databases among them) differs from Config.parse / "
                        "Config.startup, about which Props/C20Config.lean proves where the database count comes from (last `databases` directive, else 16, never <= 0; always 1 in "
                        "cluster mode): either the configuration layer changed its meaning, or the model no longer describes it"))
    for inp, why in echo_bad[:1]:
        R.violation("config-json-echo", dict(kind="tie-broken", engine="config", args=[core.REPO], lines=[inp], summary="cluster JSON: " + why), found_input=True)


def cluster_select(R):
    """the same property in cluster mode, on a REAL one-node cluster (cluster.json naming the node's raft URL explicitly, as cluster_test/cluster_config3.json does; the shipped
    redis.conf with 16 databases): if the node accepts SELECT of another database at all, a key the selecting connection writes there must be invisible to a fresh connection
    (cluster engine's select probe); a short two-client workload follows"""
    from .. import clustersuite
    clustersuite.one_node_probe(R, "q-select-cluster-1", R.seed * 1000 + 1,
                                "cluster mode (one real node, explicit RaftAddr, 16 configured databases): SELECT of another database is refused, or the selection stays the connection's own",
                                "in cluster mode the selected database is not the connection's own state")


def replay(R, payload):
    if payload.get("engine") == "cluster":
        from .. import clustersuite
        return clustersuite.replay_cluster(R, payload)
    if payload.get("engine") == "config":
        payload = dict(payload, args=[core.REPO])      # the engine reads Setup's literal from the tree under test
    return core.generic_replay(R, payload)
