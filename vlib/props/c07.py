"""C07 — cluster mode is linearizable and all replicas apply the same history.

PROVED (kernel-checked, registered in lean/registry.json): the apply pipeline — Apply.publish_spec / Apply.apply_exactly_once (every
committed entry reaches the state machine exactly once, in index order, however the Ready batches overlap) — and, on the abstract
protocol, RS.commit_order_respects_real_time (a proposal made after an index was committed lands strictly behind it); C15's safety
theorems are named hypotheses.  OWN REPLY (Props/C07Own.lean on the rendezvous model Cluster/Rendezvous.lean, abstract state machine):
Rendezvous.own_reply (under UniqueIds the k-th reply of a connection is the reply of its own k-th command at that command's log entry),
no_reply_without_commit, waiter_never_stuck_after_apply, foreign_entries_deliver_nothing, real_time_order and C07_linearizable_partial (the
history of one node's clients is linearizable with the log order as witness); own_reply_needs_unique_ids / _append_once show the hypothesis
is needed.  TIED by the `rendezvous` engine: the REAL Manager.HandleCluster (clients over net.Pipe) and the REAL handleClusterCommits
(hook H3) with the harness playing raft - proposals committed delayed, reordered across connections, in batches of random sizes, mixed
with foreign and replayed entries, while clients pipeline - replayed on Rendezvous.next with Exec.exec as the state machine; every
delivered reply is compared byte for byte (thorough tier: also under the race detector).  CROSS-NODE COMPOSITION (Props/C07Multi.lean:
the multi-node rendezvous model Cluster/Multi.lean on top of an L0 run; applied_agree, own_reply_cluster, real_time_cross_node,
C07_linearizable_partial) TIED by the `multi` engine (harness/multi.go, vlib/multigen.py, Driver/Multi.lean): 2-3 REAL Manager
instances in one process - each with its own keyspace, callback map, HandleCluster connections and handleClusterCommits loop - share ONE
log the harness owns; clients on any node submit, the harness appends the proposals reordered across nodes and delayed, and hands the
committed entries to every node independently (random batches, a laggard that catches up late); the compiled driver replays every event
on Multi.next with Exec.exec as each node's state machine: the proposal ids the real code generated (uuid) are pairwise distinct
cluster-wide (the hypothesis UniqueIds of own_reply_cluster is a CHECKED fact of every run), every reply is byte for byte the reply of
the connection's OWN command at its OWN position of the shared log and arrives only after its node applied that entry, and every
node's keyspace dump equals the model's replica at that node's applied prefix (same applied prefix => same keyspace).  HandleCluster
offers no way to inject ids, so there is no scenario class with colliding ids; what the suite does with colliding ids was tested by
mutating the repository (uuid replaced by a per-Manager counter: the check fails with a replay in which a client receives the reply of
another node's command).  TIED to the code by the `apply` engine: random overlapping Ready batches (incl. batches that start
beyond applied+1, which must be refused) through the REAL entriesToApply/publishEntries vs Apply.publish, and by fact F4 (incl. F4d: the
wal.Save step of the Ready arm is unconditional).  The behavioural form of F4 - the real Ready loop of one node with the harness as its two
peers; a vote is answered / an append acknowledged / an entry applied only when a restart would find it on disk; no two grants in one term
across restarts, which is what keeps C15's election safety true of the loop AROUND raft - is C08's suite "readyloop"
(vlib/readygen.py, harness/readyloop.go), run by `check C08`.

NOT PROVED — EXPLORED: the end-to-end statement.  The `cluster` engine starts 3 and 5 real node processes on loopback, runs 4-16
concurrent RESP clients against random nodes, kills (SIGKILL) followers, the leader, minorities and all nodes at random instants,
restarts them from disk, crosses the snapshot threshold, lets a follower fall behind a compaction (MsgSnap), adds and removes a
member, and PARTITIONS the network between live nodes (scenarios with proxied links, harness/cluster_links.go: every directed raft link
i->j is a TCP forwarder of the harness, node i's PeerAddrs names its own URL and the forwarders towards the others; a cut closes every
open connection of both directions and closes new ones on arrival, a heal lets rafthttp redial).  Fault kinds: isolate-leader (the
leader is cut off from everybody, keeps running and serving its clients, and is held there until the majority side has elected a new
leader AND acknowledged writes under it, plus 0.6-1.4 s - raftexample configures no CheckQuorum, so the old leader is never told), isolate-follower (2-4 s; the node
campaigns alone and comes back with a higher term: one more election after the heal), split (one follower <-> leader link, 2.5-4.5 s),
partition-leader-minority (5 nodes: leader + one follower against the other three), isolate-follower-snap (a LIVE follower cut off
across the snapshot threshold, caught up by MsgSnap after the heal), each followed by a heal and a wait until every node answers through
the log again.  Clients keep talking to ALL nodes, one read-only client is pinned to every node (so a cut-off node keeps being asked);
a command gives up after 1.5 s (a pinned read after 0.8 s; on the minority side it would block as long as the cut lasts) and is an unknown-outcome operation (the client then backs off and turns to the other nodes for 4 s), a
read that RETURNED a value on a cut-off node is an acknowledged operation and must linearize like any other (a stale read from a
leader that answers from its local keyspace shows here; the violation's excerpt names the first reply without an explanation and the
writes acknowledged before it).  Unavailability of the minority side, the election after a heal and rafthttp's reconnect delay are not
problems.  Quick tier: q-isolate-leader-3, q-isolate-follower-3, q-split-3 (beside each other in their own harness processes, after the main sequence and the repros); thorough
tier adds repeated and mixed partitions, 5 nodes, partition + kill, partition + snapshot.  The checks: no node exits on its own; one well-formed reply per command; every per-key history linearizable (porcupine;
unknown-outcome commands may take effect at any later point or never); all nodes return the same value for every key at quiescence.
Commands whose effect depends on the replica's clock or random source (relative TTLs, SPOP/SRANDMEMBER, XADD *) are kept out of the
workload: each has its own minimal scenario and is a recorded known finding."""
from .. import core, clustersuite, rendezvousgen, multigen

LEVEL = "proof"
KNOWN_HERE = ["replicas-own-clock-ttl", "replicas-own-random-spop", "replicas-own-clock-xadd"]


def run(R, ctx):
    known = core.load_known().get("C07", {})
    binary, err = core.build_harness()
    R.oblige("harness builds against the repository working tree (-tags verif)", "build", binary is not None, err or "")
    if binary is None:
        R.violation("harness-build", dict(kind="tie-broken", summary="harness does not build: " + (err or "")[-800:]), found_input=False)
        return
    clustersuite.fact_f4(R, broken_is_violation=False)   # recorded here; C08 owns the persist-before-ack obligation
    clustersuite.apply_differential(R, ctx, binary, 3000 if R.tier == "quick" else 60000)
    rendezvousgen.run_suite(R, ctx, binary, 600 if R.tier == "quick" else 12000)
    multigen.run_suite(R, ctx, binary, 300 if R.tier == "quick" else 6000)
    # the real publishEntries fed Readys with commands on both sides of membership-change entries, a slow state machine behind it: the state machine is handed
    # exactly the commands of the log, once, in log order (engine snaprace, shared with C08)
    from . import c08
    c08.snaprace(R, binary)
    clustersuite.run_cluster(R, ctx, "C07", binary, known, KNOWN_HERE)
    R.rule = ("apply: a batch line is non-trivial when it publishes at least one entry. rendezvous: a line is non-trivial when at least one "
              "committed proposal's reply reached its connection and was compared. multi: a line is non-trivial when a reply of a committed "
              "proposal was compared with the connection's own command at its own log position, or the keyspace dump of a node that has applied "
              "at least one entry was compared. cluster: a scenario is non-trivial when clients got "
              "acknowledgements AND at least one fault was injected; evaluations = client commands issued (acknowledged + unknown outcome).")
    if ctx.broken and not R.violations:
        R.violation("proof-broken", dict(kind="proof-broken", broken=ctx.broken,
                                         summary="theorem(s) no longer check: " + ", ".join(t for t, _ in ctx.broken)), found_input=False)


def replay(R, payload):
    if payload.get("engine") == "snaprace":
        from . import c08
        return c08.replay(R, payload)
    if payload.get("engine") == "cluster":
        return clustersuite.replay_cluster(R, payload)
    return core.generic_replay(R, payload)
