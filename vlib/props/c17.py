"""C17 — KEYS glob matching follows the documented grammar for every pattern.
Theorems: GlobEq.C17_agrees (scanner = token-grammar semantics, all patterns/subjects), C17_broken.
Tie: util.PattenMatch vs the model's executable scanner `GlobEq.m`, exhaustively over an alphabet with every
metacharacter up to a length bound, plus random long/binary cases."""
import itertools
import random

from .. import core, execgen, execsuite, concsuite

ALPHA = b"ab*?[]^-\\"


def all_strings(alpha, n):
    out = [b""]
    level = [b""]
    for _ in range(n):
        level = [bytes([a]) + s for a in alpha for s in level]
        out += level
    return out


def gen_random(rng, n):
    lines = []
    pieces = [b"*", b"?", b"[", b"]", b"^", b"-", b"\\", b"a", b"b", b"c", b"[a-c]", b"[^a]", b"[ab]", b"\\*", b"\\?",
              b"[\\]]", b"[a-", b"[]", b"**", b"\x00", b"\xff", b"\r\n", b"A", b"z",
              # ranges that end at the last byte value, start at the first, or span everything (a byte counter that wraps never terminates)
              b"[a-\xff]", b"[\x80-\xff]", b"[\x00-a]", b"[^\x00-\xff]", b"[\xff-\xff]", b"[\xfe-\xff]"]
    for _ in range(n):
        p = b"".join(rng.choice(pieces) for _ in range(rng.randint(0, 10)))
        if rng.random() < 0.5:
            # subject derived from the pattern so that matches are likely
            s = bytearray()
            for ch in p:
                c = bytes([ch])
                if c == b"*":
                    s += bytes(rng.choice(b"abcz") for _ in range(rng.randint(0, 3)))
                elif c in b"?":
                    s += bytes([rng.choice(b"abc*?")])
                elif c in b"[]^-\\":
                    if rng.random() < 0.3:
                        s += c
                else:
                    s += c
            s = bytes(s)
        else:
            s = bytes(rng.choice(b"abc*?[]\\^-\x00\xff") for _ in range(rng.randint(0, 8)))
        lines.append("G %s %s" % (core.hx(p), core.hx(s)))
    return lines


def keys_command_lines(rng, tier):
    """the KEYS *command* (memdb/keys.go: expiry filter, any fast path, reply building) on keyspaces whose names contain the metacharacters:
    every pattern up to length 3 (quick) / 4 (thorough) over the 9-byte alphabet against all 43 names of length <= 2 over {a b \\ * ? [},
    plus random longer patterns against random longer names"""
    KA = b"ab\\*?["
    lines = []

    def fill(names):
        out = ["R"]
        for i in range(0, len(names), 12):
            argv = [b"MSET"]
            for k in names[i:i + 12]:
                argv += [k, b"v"]
            out.append(execgen.render(argv, []))
        return out
    lines += fill(all_strings(KA, 2))
    for p in all_strings(ALPHA, 3 if tier == "quick" else 4):
        lines.append(execgen.render([b"KEYS", p], []))
    for _ in range(6 if tier == "quick" else 60):
        names = list({bytes(rng.choice(b"ab\\*?[]^-c\x00") for _ in range(rng.randint(0, 5))) for _ in range(30)})
        lines += fill(names)
        lines.append(execgen.render([b"EXPIRE", names[0], b"-1"], []))   # a name that must no longer be listed
        for g in gen_random(rng, 250):
            lines.append(execgen.render([b"keys", core.unhx(g.split()[1])], []))
        for nme in names[:8]:      # the name itself as a pattern (escaped and unescaped)
            lines.append(execgen.render([b"KEYS", nme], []))
            lines.append(execgen.render([b"KEYS", b"".join(b"\\" + bytes([c]) for c in nme)], []))
    # KEYS after histories that create and remove keys by EVERY path (the listing is built from the keyspace's own bookkeeping: a counter or an index that one creating or
    # removing path forgets shows here, not on keyspaces filled with MSET only - seeded change C17-setnx-count-underflow-keys-panic): SETNX / SET NX / APPEND / INCR /
    # LPUSH / SADD / HSET / ZADD / XADD / RENAME / the STORE forms create, DEL / RENAME / a pop of the last element / EXPIRE -1 / SMOVE of the last member remove
    create = [lambda k: [b"SETNX", k, b"1"], lambda k: [b"SET", k, b"1", b"NX"], lambda k: [b"APPEND", k, b"x"], lambda k: [b"INCR", k], lambda k: [b"LPUSH", k, b"e"],
              lambda k: [b"SADD", k, b"m"], lambda k: [b"HSET", k, b"f", b"v"], lambda k: [b"ZADD", k, b"1", b"m"], lambda k: [b"XADD", k, b"1-1", b"f", b"v"],
              lambda k: [b"SETEX", k, b"1000", b"v"], lambda k: [b"MSET", k, b"v"], lambda k: [b"HSETNX", k, b"f", b"v"], lambda k: [b"HINCRBY", k, b"f", b"1"]]
    remove = [lambda k: [b"DEL", k], lambda k: [b"RENAME", k, k + b"-r"], lambda k: [b"EXPIRE", k, b"-1"], lambda k: [b"DEL", k, k]]
    for _ in range(8 if tier == "quick" else 80):
        lines.append("R")
        live = set()
        for step in range(rng.randint(3, 14)):
            k = rng.choice([b"lock", b"job", b"a", b"b*", b"c"])
            if k in live and rng.random() < 0.6:
                lines.append(execgen.render(rng.choice(remove)(k), []))
                live.discard(k)
            else:
                lines.append(execgen.render(rng.choice(create)(k), []))
                live.add(k)
            if rng.random() < 0.5:
                lines.append(execgen.render([b"KEYS", rng.choice([b"*", b"?*", b"l*", b"*-r", b"[a-c]*"])], []))
        lines.append(execgen.render([b"KEYS", b"*"], [], full=True))
    return lines


def run(R, ctx):
    run_glob(R, ctx)
    rule = R.rule
    rng = random.Random(R.seed * 7919 + 17)
    # "exactly the LIVE keys": one small real-clock batch whose only probe is KEYS over keys that are past their deadline and still stored
    from .. import ttlgen
    live = ttlgen.batch(rng, 40, only=["keys"], plain=True, attach_ms=520)
    execsuite.run_exec_suite(R, ctx, "keys-command", [], (0, 0), "exec_c17",
                             "the KEYS command end to end on keyspaces whose names contain glob metacharacters; KEYS over keys whose deadline has just passed (real clock)",
                             extra_lines=keys_command_lines(rng, R.tier) + live)
    R.rule = rule + " || KEYS command: " + R.rule


def run_glob(R, ctx):
    R.rule = ("exhaustive: every pattern of length <= P over the 9-byte alphabet {a b * ? [ ] ^ - \\} against every subject of length <= S "
              "over the same alphabet (P,S in coverage.bounds); random: seeded long/binary patterns with subjects derived from them. "
              "A pattern line is non-trivial when the model matches at least one subject; a random pair when the model says match.")
    binary, err = core.build_harness()
    R.oblige("harness builds against /repo working tree (-tags verif)", "build", binary is not None, err or "")
    if binary is None:
        R.violation("harness-build", dict(kind="tie-broken", summary="harness does not build: " + (err or "")[-800:]), found_input=False)
        return
    P, S = (4, 3) if R.tier == "quick" else (5, 3)
    pats = all_strings(ALPHA, P)
    lines = ["GE %s %s %d" % (core.hx(p), core.hx(ALPHA), S) for p in pats]
    if R.tier == "thorough":
        lines += ["GE %s %s %d" % (core.hx(p), core.hx(ALPHA), 4) for p in all_strings(ALPHA, 4)]
    rng = random.Random(R.seed)
    rnd = gen_random(rng, 20000 if R.tier == "quick" else 400000)
    cor = core.corpus("glob")
    # the engine answers a line whose evaluation does not finish within 4 s with the outcome H and exits; it is restarted after that line
    # (at most 5 times: "matching always terminates" is violated by the first one)
    allin = cor + lines + rnd
    obs, se, rc, hangs = [], "", 0, 0
    while len(obs) < len(allin) and hangs <= 5:
        got, se, rc = core.run_harness(binary, "glob", allin[len(obs):], timeout=1800)
        obs += got
        if got and got[-1].endswith(" H"):
            hangs += 1
        else:
            break
    R.oblige("harness glob engine ran to completion, no evaluation exceeded the 4 s watchdog", "run",
             rc == 0 and hangs == 0 and len(obs) == len(allin), ("%d evaluation(s) did not terminate; " % hangs if hangs else "") + se[-300:])
    d = core.run_driver(obs)
    core.negative_control(R, obs, "glob", skip=lambda l: l.startswith("GE "))
    nsub = len(all_strings(ALPHA, S))
    evals = len(lines) * nsub + len(rnd)
    R.add_cases(evals, int(d["summary"].get("positive", 0)), samples=[obs[7], obs[len(obs) // 3][:200], obs[-1]])
    R.extra["bounds"] = dict(pattern_len=P, subject_len=S, alphabet=ALPHA.decode("latin-1"), patterns=len(pats), subjects_per_pattern=nsub,
                             random_pairs=len(rnd), exhaustive=True)
    R.extra["exhaustive"] = True
    ok = not d["mismatches"] and not d["unknown"]
    R.oblige("correspondence util.PattenMatch = GlobEq.m (exhaustive bounded + random)", "correspondence", ok,
             "%d mismatches" % len(d["mismatches"]))
    R.suites.append(dict(name="glob", lines=len(obs), evaluations=evals, mismatches=len(d["mismatches"]), driver_s=round(d["seconds"], 1)))
    for i, mm in enumerate((d["mismatches"] + d["unknown"])[:3]):
        # the model equals the documented grammar (C17_agrees), so a disagreement is a concrete failing (pattern, subject)
        src = mm.split(" :: ", 1)[1] if " :: " in mm else ""
        f = src.split()
        inp = [" ".join(f[:4] if f and f[0] == "GE" else f[:3])] if f else []
        R.violation("glob-%d" % i, dict(kind="impl-violates-spec", engine="glob", summary=mm[:300], lines=inp,
                                        explanation="util.PattenMatch disagrees with the grammar semantics (model proved equal to it by GlobEq.C17_agrees)"))
    if ctx.broken and not d["mismatches"]:
        R.violation("proof-broken", dict(kind="proof-broken", broken=ctx.broken,
                                         summary="theorem(s) no longer check: " + ", ".join(t for t, _ in ctx.broken)), found_input=False)

    rule = R.rule
    concsuite.run_conc(R, ctx, "keys-walk", ['keysstable'], (2, 12), race=False)
    R.rule = rule + " Concurrent scenario(s) keysstable of the conc engine (see C05): the family's containers under concurrent clients, verdict by invariants that need no history search."

def replay(R, payload):
    if payload.get("engine") == "conc":
        return concsuite.replay_conc(R, payload)
    return core.generic_replay(R, payload)
