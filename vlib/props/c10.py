"""C10 — hash commands maintain an exact field-to-value map.
Model: lean/RedisGoModel/Exec/Hash.lean (on Ds/HashSel.lean); theorems: lean/RedisGoModel/Props/C10.lean;
tie: exec engine (server.Manager.ExecCommand + VerifDump hook).  HRANDFIELD and HINCRBYFLOAT are judged in checker mode."""
import random

from .. import core, execgen_hash, execsuite, families, concsuite


def run(R, ctx):
    execsuite.run_exec_suite(
        R, ctx, name="hash",
        gens=[(1, families.hash_reread(execgen_hash.hash_cmd))],
        nprog=(500, 8000), corpus="exec_c10",
        extra_lines=families.refused_changes_nothing(random.Random(R.seed * 31 + 10), 120 if R.tier == "quick" else 2000) + families.arith_grid("hash") +
        families.large_container_programs(random.Random(R.seed * 131 + 10), 60 if R.tier == "quick" else 1500, "hash"),
        what="hash commands (HSET with one to four pairs incl. repeated fields and odd argument counts, HSETNX, HGET, HMGET, HGETALL, HKEYS, "
             "HVALS, HLEN, HEXISTS, HSTRLEN, HDEL down to the empty hash, HINCRBY at the int64 limits, HINCRBYFLOAT incl. inf/nan/overflow, "
             "HRANDFIELD with no/positive/negative/extreme counts and WITHVALUES) interleaved with SET/DEL/EXPIRE/PERSIST/TTL/TYPE/EXISTS/RENAME "
             "on the same keys; fields and values from a binary alphabet with the empty string, numbers, extreme integers and floats; refused-command scenarios followed by a full dump (a refused command changes nothing); the int64 boundary grid: every pair (stored value, increment) of 11 edge values through HINCRBY")

    rule = R.rule
    concsuite.run_conc(R, ctx, "hash-addrem", ['addrem', 'counters'], (2, 12), race=False)
    R.rule = rule + " Concurrent scenario(s) addrem, counters (numbers oscillating across a digit boundary under HINCRBY / INCR while other clients list them in bulk: every value read is one the counter held) of the conc engine (see C05): the family's containers under concurrent clients, verdict by invariants that need no history search."
    families.alias_probe(R, ctx, "hash")
    families.alias_aim(R, ctx, own="hash", counters=False)   # only when fact F7 is broken


def replay(R, payload):
    if payload.get("engine") == "alias":
        return families.alias_replay(R, payload)
    if payload.get("engine") == "conc":
        return concsuite.replay_conc(R, payload)
    return core.generic_replay(R, payload)
