"""C12 — sorted sets keep one score per member, ordered output, valid AVL.
Model: lean/RedisGoModel/Ds/ZTree.lean (the tree of memdb/btree.go), Exec/ZSet.lean (ZADD/ZREM/ZRANGE/ZRANK); theorems Props/C12.lean;
tie: exec engine (server.Manager.ExecCommand + VerifDump hook: the tree is compared node for node, with stored heights, len and dict)."""
import random

from .. import core, execgen, execgen_zset, execsuite, families, concsuite


def run(R, ctx):
    rng = random.Random(R.seed * 7919 + 12)
    quick = R.tier == "quick"
    extra = execgen_zset.programs(rng, 250 if quick else 4000) + execgen_zset.deep_programs(rng, 60 if quick else 800)
    execsuite.run_exec_suite(
        R, ctx, name="sorted-sets",
        gens=[(1, families.zset_reread(execgen_zset.zset_cmd))],
        nprog=(100, 1500), corpus="exec_c12", keys=execgen_zset.ZKEYS, maxlen=60, extra_lines=extra + families.refused_changes_nothing(rng, 120 if quick else 2000) +
        families.large_container_programs(random.Random(R.seed * 131 + 12), 60 if quick else 1500, "zset"),
        what="sorted-set commands (ZADD with every NX/XX/GT/LT/CH/INCR combination incl. invalid ones, several pairs, duplicate members, "
             "ties, negatives, signed zero, infinities, huge and tiny floats, invalid floats; ZREM; ZRANGE by index with negative and "
             "out-of-range indexes, REV, WITHSCORES; ZRANK), interleaved with SET/EXPIRE/DEL/TYPE/TTL on the same keys; deep-tree programs "
             "(12-40 distinct scores in ascending/descending/zig-zag/random order, score-mates, moves, member-by-member removal); the dump "
             "compares the AVL tree node for node (scores, stored heights, names), len, node count and the member index; refused-command scenarios followed by a full dump (a refused command changes nothing)")

    rule = R.rule
    concsuite.run_conc(R, ctx, "zset-conc", ['addrem', 'bigread'], (2, 12), race=False)
    R.rule = rule + " Concurrent scenario(s) addrem,bigread of the conc engine (see C05): the family's containers under concurrent clients, verdict by invariants that need no history search."
    families.alias_probe(R, ctx, "zset")


def replay(R, payload):
    if payload.get("engine") == "alias":
        return families.alias_replay(R, payload)
    if payload.get("engine") == "conc":
        return concsuite.replay_conc(R, payload)
    return core.generic_replay(R, payload)
